package main

import (
	"fmt"
	"go/types"
	"unicode/utf8"

	"golang.org/x/tools/go/ssa"
)

var classToSize = []int{0, 8, 16, 24, 32, 48, 64, 80, 96, 112, 128, 144, 160, 176, 192, 208, 224, 240, 256, 288, 320, 352, 384, 416, 448, 480, 512, 576, 640, 704, 768, 896, 1024, 1152, 1280, 1408, 1536, 1792, 2048, 2304, 2688, 3072, 3200, 3456, 4096, 4864, 5120, 5376, 6144, 6528, 6784, 6912, 8192, 9472, 9728, 10240, 10880, 12288, 13568, 14336, 16384, 18432, 19072, 20480, 21760, 24576, 27264, 28672, 32768}

var gcSizes = types.SizesFor("gc", "amd64")

func roundupsize(size int, noscan bool) int {
	req := size
	if !noscan && size > 512 {
		req += 8
	}
	if req <= 32768-8 || (noscan && req <= 32768) {
		for _, c := range classToSize {
			if c >= req {
				return c - (req - size)
			}
		}
	}
	// large: round to page size
	const page = 8192
	return (req + page - 1) / page * page
}

func hasPointers(t types.Type) bool {
	switch u := t.Underlying().(type) {
	case *types.Basic:
		return u.Kind() == types.String || u.Kind() == types.UnsafePointer
	case *types.Struct:
		for i := 0; i < u.NumFields(); i++ {
			if hasPointers(u.Field(i).Type()) {
				return true
			}
		}
		return false
	case *types.Array:
		return u.Len() > 0 && hasPointers(u.Elem())
	}
	return true
}

// growCap replicates runtime.growslice's capacity computation (go1.23, amd64).
func growCap(oldCap, newLen int, et types.Type) int {
	newcap := oldCap
	doublecap := newcap + newcap
	if newLen > doublecap {
		newcap = newLen
	} else {
		const threshold = 256
		if oldCap < threshold {
			newcap = doublecap
		} else {
			for {
				newcap += (newcap + 3*threshold) >> 2
				if uint(newcap) >= uint(newLen) {
					break
				}
			}
			if newcap <= 0 {
				newcap = newLen
			}
		}
	}
	es := int(gcSizes.Sizeof(et))
	if es == 0 {
		return newcap
	}
	mem := roundupsize(newcap*es, !hasPointers(et))
	return mem / es
}

func (in *Interp) appendSlice(et types.Type, s Slice, elems []Value, n int) Slice {
	// elems holds n elements flattened (stride cells each)
	stride := in.ti.of(et).n
	if n == 0 {
		return s
	}
	newLen := s.len + n
	if newLen <= s.cap && s.obj != nil {
		in.writeCheck(s.obj)
		copy(s.obj.cells[s.off+s.len*stride:], elems)
		return Slice{s.obj, s.off, newLen, s.cap}
	}
	nc := growCap(s.cap, newLen, et)
	o := in.newObj(0, "append")
	o.cells = make([]Value, 0, nc*stride)
	if s.obj != nil {
		o.cells = append(o.cells, s.obj.cells[s.off:s.off+s.len*stride]...)
	}
	o.cells = append(o.cells, elems...)
	if pad := nc*stride - len(o.cells); pad > 0 {
		z := in.ti.appendZero(nil, et)
		for len(o.cells) < nc*stride {
			o.cells = append(o.cells, z...)
		}
	}
	return Slice{o, 0, newLen, nc}
}

func (in *Interp) callBuiltin(fr *Frame, b *ssa.Builtin, args []Value, site *ssa.CallCommon) Value {
	switch b.Name() {
	case "append":
		s := args[0].(Slice)
		st := site.Args[0].Type().Underlying().(*types.Slice)
		et := st.Elem()
		stride := in.ti.of(et).n
		switch a := args[1].(type) {
		case Slice:
			if a.len == 0 {
				return s
			}
			el := append([]Value(nil), a.obj.cells[a.off:a.off+a.len*stride]...)
			return in.appendSlice(et, s, el, a.len)
		case Str:
			return in.appendSlice(et, s, termsToValues(a.Bytes()), a.Len())
		}
		panic("engine: append arg")
	case "copy":
		dst := args[0].(Slice)
		dt := site.Args[0].Type().Underlying().(*types.Slice)
		stride := in.ti.of(dt.Elem()).n
		switch src := args[1].(type) {
		case Slice:
			n := dst.len
			if src.len < n {
				n = src.len
			}
			if n > 0 {
				in.writeCheck(dst.obj)
				tmp := append([]Value(nil), src.obj.cells[src.off:src.off+n*stride]...)
				copy(dst.obj.cells[dst.off:], tmp)
			}
			return mkBV(64, uint64(n))
		case Str:
			n := dst.len
			if src.Len() < n {
				n = src.Len()
			}
			if n > 0 {
				in.writeCheck(dst.obj)
				for i := 0; i < n; i++ {
					dst.obj.cells[dst.off+i] = src.At(i)
				}
			}
			return mkBV(64, uint64(n))
		}
		panic("engine: copy arg")
	case "len":
		switch x := args[0].(type) {
		case Str:
			return mkBV(64, uint64(x.Len()))
		case Slice:
			return mkBV(64, uint64(x.len))
		case *MapObj:
			if x == nil {
				return mkBV(64, 0)
			}
			if x.nsym > 1 {
				// symbolic keys may coincide only if inserted through branch-free path; they cannot: mapSet forks
			}
			return mkBV(64, uint64(x.n))
		case Ptr: // *array
			at := site.Args[0].Type().Underlying().(*types.Pointer).Elem().Underlying().(*types.Array)
			return mkBV(64, uint64(at.Len()))
		case Agg:
			at := site.Args[0].Type().Underlying().(*types.Array)
			return mkBV(64, uint64(at.Len()))
		}
		panic(fmt.Sprintf("engine: len of %T", args[0]))
	case "cap":
		switch x := args[0].(type) {
		case Slice:
			return mkBV(64, uint64(x.cap))
		case Ptr:
			at := site.Args[0].Type().Underlying().(*types.Pointer).Elem().Underlying().(*types.Array)
			return mkBV(64, uint64(at.Len()))
		case Agg:
			at := site.Args[0].Type().Underlying().(*types.Array)
			return mkBV(64, uint64(at.Len()))
		}
		panic(fmt.Sprintf("engine: cap of %T", args[0]))
	case "delete":
		in.mapDelete(args[0].(*MapObj), args[1])
		return nil
	case "print", "println":
		return nil
	case "recover":
		if fr != nil && fr.caller != nil && fr.caller.panicking {
			fr.caller.panicking = false
			v := fr.caller.panicVal.val
			if v == nil {
				return Iface{}
			}
			return v
		}
		return Iface{}
	case "min", "max":
		res := args[0]
		for _, a := range args[1:] {
			res = in.minmax(b.Name() == "min", site.Args[0].Type(), res, a)
		}
		return res
	case "clear":
		switch x := args[0].(type) {
		case *MapObj:
			if x != nil {
				in.mapWriteCheck(x)
				x.entries = nil
				x.index = map[string]int{}
				x.n, x.nsym = 0, 0
			}
		case Slice:
			st := site.Args[0].Type().Underlying().(*types.Slice)
			z := in.ti.appendZero(nil, st.Elem())
			if x.len > 0 {
				in.writeCheck(x.obj)
			}
			for i := 0; i < x.len; i++ {
				copy(x.obj.cells[x.off+i*len(z):], z)
			}
		}
		return nil
	case "ssa:wrapnilchk":
		if p, ok := args[0].(Ptr); ok && p.obj == nil {
			panic(in.rtPanic("value method called using nil pointer"))
		}
		return args[0]
	case "String": // unsafe.String(ptr, len)
		p := args[0].(Ptr)
		n := mustConstInt(args[1], "unsafe.String len")
		if n == 0 {
			return Str{}
		}
		return in.bytesToStr(Slice{p.obj, p.off, n, n})
	case "StringData":
		s := args[0].(Str)
		if s.Len() == 0 {
			return Ptr{}
		}
		o := in.newObj(s.Len(), "unsafe.StringData")
		copy(o.cells, termsToValues(s.Bytes()))
		o.frozen = false
		return Ptr{o, 0}
	case "SliceData":
		s := args[0].(Slice)
		if s.obj == nil {
			return Ptr{}
		}
		return Ptr{s.obj, s.off}
	case "Slice": // unsafe.Slice(ptr, len)
		p := args[0].(Ptr)
		n := mustConstInt(args[1], "unsafe.Slice len")
		if p.obj == nil {
			return Slice{}
		}
		return Slice{p.obj, p.off, n, n}
	}
	panic(inconclusive("builtin " + b.Name()))
}

func (in *Interp) minmax(isMin bool, t types.Type, a, b Value) Value {
	switch x := a.(type) {
	case *Term:
		y := b.(*Term)
		var lt *Term
		if x.sort == SFP {
			lt = tBin(OpFLt, x, y)
		} else {
			_, _, signed, _ := scalarSort(t)
			if signed {
				lt = tBin(OpSLt, x, y)
			} else {
				lt = tBin(OpULt, x, y)
			}
		}
		if isMin {
			return tIte(lt, x, y)
		}
		return tIte(lt, y, x)
	case Str:
		y := b.(Str)
		lt := in.strLess(x, y)
		if in.branch(lt) == isMin {
			return x
		}
		return y
	}
	panic("engine: min/max")
}

func decodeRuneGo(s string) (rune, int) { return utf8.DecodeRuneInString(s) }

func (in *Interp) decodeRuneSymbolic(s Str, pos int) (*Term, int) {
	fn := in.P.funcByName("unicode/utf8", "DecodeRuneInString")
	if fn == nil {
		panic(inconclusive("utf8.DecodeRuneInString not loaded"))
	}
	end := pos + 4
	if end > s.Len() {
		end = s.Len()
	}
	res := in.callFunction(fn, []Value{s.Slice(pos, end)}, nil, nil, nil).(Tuple)
	size := mustConstInt(res[1], "rune size")
	return res[0].(*Term), size
}
