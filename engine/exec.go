package main

// The SSA interpreter: concrete heap, symbolic scalars, path decisions
// recorded so that a path can be re-executed from a snapshot.

import (
	"fmt"
	"go/constant"
	"go/token"
	"go/types"
	"sort"
	"strings"

	"golang.org/x/tools/go/ssa"
	"golang.org/x/tools/go/types/typeutil"
)

// ---- control-flow exceptions (Go panics used inside the engine) ---------

type targetPanic struct {
	val  Value // interface value handed to recover()
	msg  string
	exit bool // runtime.Goexit / os.Exit style: not recoverable
}
type pathEnd struct{ why string } // infeasible / assume(false) / path cut

type Frame struct {
	fn        *ssa.Function
	env       map[ssa.Value]Value
	block     *ssa.BasicBlock
	prev      *ssa.BasicBlock
	defers    []deferred
	result    Value
	panicking bool
	panicVal  targetPanic
	caller    *Frame
	loopCnt   map[*ssa.BasicBlock]int
}

type deferred struct {
	fn   Value
	args []Value
	// for invoke-mode defers
	method *ssa.Function
}

type varRec struct {
	Name string `json:"name"`
	Kind string `json:"kind"` // bool,int8,...,choose,byte
	W    uint8  `json:"w"`
	term *Term
	Val  uint64 `json:"val"` // filled from the model when reporting
}

type workItem struct {
	decisions []int
	model     Model
}

type violation struct {
	harness string
	label   string
	model   Model
	vars    []varRec
	pc      []*Term
	neg     *Term
	known   string // known-finding id when inside a known class
	panicS  string
}

type Interp struct {
	P       *Program
	ti      *typeInfo
	globals map[*ssa.Global]*Obj
	solver  *Solver

	pc        []*Term
	model     Model
	ev        *evalCtx
	decisions []int
	prefixLen int
	decIdx    int
	newWork   []workItem
	vars      []varRec
	nvar      int

	steps    int64
	maxSteps int64
	depth    int
	maxDepth int
	unwind   int
	epoch    int32
	objSeq   int32

	canonP  map[types.Type]types.Type
	methods map[methodKey]*ssa.Function
	models  map[*ssa.Function]modelFn

	// per-path results
	violations []violation
	covers     map[string]bool
	observes   []obsRec
	incon      []string
	knownSeen  map[string]bool
	funcsHit   map[*ssa.Function]bool
	stubsHit   map[string]bool
	assumes    map[string]bool
	branches   int64
	sharedW    []string // shared writes after checkpoint (C20)
	ckEpoch    int32
	permute    bool
	permMode   int
	curHarness string
	initing    bool
	trace      bool
	callStack  []*ssa.Function
	nAsserts   int64
	symFmtInts bool
	errFmt     int
	atomicW    int
	sharedAtomic int
	symParts   []Str
	curInitPkg *ssa.Package
}

type methodKey struct {
	t    types.Type
	name string
	pkg  *types.Package
}

type modelFn func(in *Interp, fr *Frame, args []Value, call *ssa.CallCommon) Value

func (in *Interp) newObj(n int, what string) *Obj {
	in.objSeq++
	return &Obj{cells: make([]Value, n), epoch: in.epoch, id: in.objSeq, what: what}
}

func (in *Interp) allocType(t types.Type, what string) *Obj {
	in.objSeq++
	return &Obj{cells: in.ti.appendZero(nil, t), epoch: in.epoch, id: in.objSeq, what: what}
}

// ---- type canonicalisation -----------------------------------------------

func (in *Interp) canon(t types.Type) types.Type {
	if t == nil {
		return nil
	}
	if c, ok := in.canonP[t]; ok {
		return c
	}
	c := in.P.canonType(t)
	in.canonP[t] = c
	return c
}

func (p *Program) canonType(t types.Type) types.Type {
	p.canonMu.Lock()
	defer p.canonMu.Unlock()
	if c := p.canonMap.At(t); c != nil {
		return c.(types.Type)
	}
	p.canonMap.Set(t, t)
	return t
}

var _ = typeutil.MakeHasher

// ---- path decisions -------------------------------------------------------

func (in *Interp) addPC(c *Term) {
	if c.IsConst() {
		return
	}
	in.pc = append(in.pc, c)
}

// branch decides a symbolic condition, forking the exploration if both sides
// are feasible.
func (in *Interp) branch(c *Term) bool {
	if c.IsConst() {
		return c.val != 0
	}
	in.branches++
	if in.decIdx < len(in.decisions) {
		d := in.decisions[in.decIdx]
		in.decIdx++
		if d != 0 {
			in.addPC(c)
		} else {
			in.addPC(tNot(c))
		}
		return d != 0
	}
	side := in.ev.eval(c) != 0
	var other *Term
	if side {
		other = tNot(c)
	} else {
		other = c
	}
	res, m, why := in.solver.Check(append(append([]*Term(nil), in.pc...), other), true)
	switch res {
	case Sat:
		d := make([]int, len(in.decisions)+1)
		copy(d, in.decisions)
		if side {
			d[len(in.decisions)] = 0
		} else {
			d[len(in.decisions)] = 1
		}
		in.newWork = append(in.newWork, workItem{decisions: d, model: m})
	case Unknown:
		in.incon = append(in.incon, "branch feasibility unknown: "+why)
	}
	if side {
		in.decisions = append(in.decisions, 1)
		in.addPC(c)
	} else {
		in.decisions = append(in.decisions, 0)
		in.addPC(tNot(c))
	}
	in.decIdx++
	return side
}

// choose is an explicit n-way enumeration (not solver decided).
func (in *Interp) choose(n int) int {
	if n <= 1 {
		return 0
	}
	if in.decIdx < len(in.decisions) {
		d := in.decisions[in.decIdx]
		in.decIdx++
		return d
	}
	for k := 1; k < n; k++ {
		d := make([]int, len(in.decisions)+1)
		copy(d, in.decisions)
		d[len(in.decisions)] = k
		in.newWork = append(in.newWork, workItem{decisions: d, model: in.model})
	}
	in.decisions = append(in.decisions, 0)
	in.decIdx++
	return 0
}

// concretize forks over the feasible values of a small-range term.
func (in *Interp) concretize(t *Term, lo, hi int) int {
	if t.IsConst() {
		return int(sext64(t.val, t.w))
	}
	for v := lo; v < hi; v++ {
		if v == hi-1 {
			// last candidate: must hold if others were excluded; still assert
			in.assume(tEq(t, mkBV(t.w, uint64(v))), "concretize")
			return v
		}
		if in.branch(tEq(t, mkBV(t.w, uint64(v)))) {
			return v
		}
	}
	panic(pathEnd{"concretize: empty range"})
}

// assume adds c to the path condition; ends the path if infeasible.
func (in *Interp) assume(c *Term, what string) {
	if c.IsConst() {
		if c.val == 0 {
			panic(pathEnd{"assume false: " + what})
		}
		return
	}
	in.addPC(c)
	if in.ev.eval(c) != 0 {
		return
	}
	// the current model does not satisfy c: get a new one
	res, m, why := in.solver.Check(in.pc, true)
	switch res {
	case Sat:
		in.setModel(m)
	case Unsat:
		panic(pathEnd{"assume infeasible: " + what})
	default:
		in.incon = append(in.incon, "assume unknown: "+why)
		panic(pathEnd{"assume unknown"})
	}
}

func (in *Interp) setModel(m Model) {
	in.model = m
	in.ev = newEval(m)
}

func (in *Interp) freshVar(kind string, sort Sort, w uint8) *Term {
	name := fmt.Sprintf("v%d_%s", in.nvar, kind)
	in.nvar++
	t := mkVar(sort, w, name)
	in.vars = append(in.vars, varRec{Name: name, Kind: kind, W: w, term: t})
	return t
}

// ---- panics ---------------------------------------------------------------

func (in *Interp) rtPanic(msg string) targetPanic {
	t := in.P.runtimeErrT
	return targetPanic{val: Iface{t: t, v: mkStr(msg)}, msg: "runtime error: " + msg}
}

// ---- operands -------------------------------------------------------------

func (in *Interp) constValue(c *ssa.Const) Value {
	t := c.Type()
	if c.Value == nil {
		return in.ti.zero(t)
	}
	if b, ok := t.Underlying().(*types.Basic); ok {
		switch {
		case b.Info()&types.IsBoolean != 0:
			return mkBool(constant.BoolVal(c.Value))
		case b.Info()&types.IsString != 0:
			return mkStr(constant.StringVal(c.Value))
		case b.Info()&types.IsInteger != 0:
			_, w, signed, _ := scalarSort(t)
			if signed {
				return mkBV(w, uint64(c.Int64()))
			}
			return mkBV(w, c.Uint64())
		case b.Info()&types.IsFloat != 0:
			_, w, _, _ := scalarSort(t)
			return mkConst(SFP, w, f2bits(w, c.Float64()))
		}
	}
	if _, ok := t.Underlying().(*types.Interface); ok {
		// constant converted to interface? not produced by go/ssa
	}
	panic(inconclusive("constant of type " + t.String()))
}

func (fr *Frame) get(in *Interp, v ssa.Value) Value {
	switch x := v.(type) {
	case *ssa.Const:
		return in.constValue(x)
	case *ssa.Global:
		return Ptr{in.global(x), 0}
	case *ssa.Function:
		return &Closure{fn: x}
	case *ssa.Builtin:
		panic(inconclusive("builtin as value"))
	}
	r, ok := fr.env[v]
	if !ok {
		panic(fmt.Sprintf("engine: no value for %s in %s", v.Name(), fr.fn))
	}
	return r
}

func (in *Interp) global(g *ssa.Global) *Obj {
	if o, ok := in.globals[g]; ok {
		return o
	}
	if !in.P.initialized(g.Pkg) && !(in.initing && g.Pkg == in.curInitPkg) && !zeroOKGlobals[g.String()] {
		panic(inconclusive("global of uninitialised package: " + g.String()))
	}
	o := in.allocType(g.Type().(*types.Pointer).Elem(), "global "+g.String())
	o.epoch = 0 // package-level state is shared however late it is first touched
	in.globals[g] = o
	return o
}

// Packages whose code depends on runtime internals the boxed memory model
// cannot represent: entering one of their functions without a model is
// reported, never approximated.
var blockedPkgs = map[string]bool{"reflect": true, "internal/reflectlite": true, "runtime": true, "syscall": true, "os": true,
	"time": true, "net": true, "net/http": true, "encoding/json": true, "encoding/xml": true, "internal/abi": true,
	"internal/poll": true, "os/exec": true, "internal/cpu": true, "sync": true, "context": true, "regexp": true, "regexp/syntax": true, "log": true, "fmt": true}

// small pure functions of blocked packages that are safe to interpret
var allowedFns = map[string]bool{"(*fmt.wrapError).Unwrap": true, "(*fmt.wrapError).Error": true,
	"(*fmt.wrapErrors).Unwrap": true, "(*fmt.wrapErrors).Error": true,
	"(context.backgroundCtx).String": true, "(context.emptyCtx).Value": true, "(context.emptyCtx).Done": true,
	"(context.emptyCtx).Err": true, "(context.emptyCtx).Deadline": true}

var zeroOKGlobals = map[string]bool{"os.Stderr": true, "os.Stdout": true, "os.Stdin": true}

// ---- memory ---------------------------------------------------------------

func (in *Interp) load(t types.Type, pv Value) Value {
	switch p := pv.(type) {
	case Ptr:
		if p.obj == nil {
			panic(in.rtPanic("invalid memory address or nil pointer dereference"))
		}
		if isAggType(t) {
			n := in.ti.of(t).n
			out := make(Agg, n)
			copy(out, p.obj.cells[p.off:p.off+n])
			return out
		}
		if p.off >= len(p.obj.cells) {
			panic(fmt.Sprintf("engine: load beyond object %s off=%d len=%d type %s", p.obj.what, p.off, len(p.obj.cells), t))
		}
		return p.obj.cells[p.off]
	case SymPtr:
		return in.loadSym(t, p)
	}
	panic(fmt.Sprintf("engine: load through %T", pv))
}

func (in *Interp) loadSym(t types.Type, p SymPtr) Value {
	if isAggType(t) {
		i := in.concretize(p.idx, 0, p.n)
		return in.load(t, Ptr{p.obj, p.off + i*p.stride})
	}
	// ite chain over scalar cells
	first := p.obj.cells[p.off]
	if _, ok := first.(*Term); !ok {
		i := in.concretize(p.idx, 0, p.n)
		return in.load(t, Ptr{p.obj, p.off + i*p.stride})
	}
	// group identical values to keep the chain short
	res := p.obj.cells[p.off+(p.n-1)*p.stride].(*Term)
	for i := p.n - 2; i >= 0; i-- {
		c := p.obj.cells[p.off+i*p.stride].(*Term)
		if sameTerm(c, res) {
			continue
		}
		res = tIte(tEq(p.idx, mkBV(p.idx.w, uint64(i))), c, res)
	}
	// note: skipping equal neighbours is only valid for chains built from the
	// end; a value equal to the accumulated default needs no test.
	return res
}

func (in *Interp) store(t types.Type, pv Value, v Value) {
	switch p := pv.(type) {
	case Ptr:
		if p.obj == nil {
			panic(in.rtPanic("invalid memory address or nil pointer dereference"))
		}
		in.writeCheck(p.obj)
		if a, ok := v.(Agg); ok {
			copy(p.obj.cells[p.off:p.off+len(a)], a)
			return
		}
		p.obj.cells[p.off] = v
	case SymPtr:
		if _, ok := v.(*Term); ok && !isAggType(t) {
			in.writeCheck(p.obj)
			nv := v.(*Term)
			for i := 0; i < p.n; i++ {
				o := p.off + i*p.stride
				old := p.obj.cells[o].(*Term)
				p.obj.cells[o] = tIte(tEq(p.idx, mkBV(p.idx.w, uint64(i))), nv, old)
			}
			return
		}
		i := in.concretize(p.idx, 0, p.n)
		in.store(t, Ptr{p.obj, p.off + i*p.stride}, v)
	default:
		panic(fmt.Sprintf("engine: store through %T", pv))
	}
}

func (in *Interp) writeCheck(o *Obj) {
	if o.frozen {
		panic(inconclusive("write to frozen (library init) object " + o.what))
	}
	if in.ckEpoch > 0 && o.epoch < in.ckEpoch {
		if in.atomicW > 0 {
			in.sharedAtomic++
		} else {
			in.noteSharedWrite(o.what)
		}
	}
}

func (in *Interp) noteSharedWrite(what string) {
	where := ""
	if n := len(in.callStack); n > 0 {
		where = in.callStack[n-1].String()
	}
	in.sharedW = append(in.sharedW, what+" @ "+where)
}

// ---- equality -------------------------------------------------------------

func (in *Interp) eqValue(a, b Value) *Term {
	switch x := a.(type) {
	case *Term:
		y := b.(*Term)
		return tEq(x, y)
	case Str:
		return in.strEq(x, b.(Str))
	case Ptr:
		switch y := b.(type) {
		case Ptr:
			return mkBool(x.obj == y.obj && (x.obj == nil || x.off == y.off))
		case SymPtr:
			return tFalse
		}
	case *MapObj:
		return mkBool(x == b.(*MapObj))
	case *Closure:
		y := b.(*Closure)
		if x == nil || y == nil {
			return mkBool(x == y)
		}
		panic(in.rtPanic("comparing uncomparable type func"))
	case Slice:
		y := b.(Slice)
		if x.obj == nil || y.obj == nil {
			return mkBool(x.obj == nil && y.obj == nil)
		}
		panic(in.rtPanic("comparing uncomparable type slice"))
	case Iface:
		y := b.(Iface)
		if x.t == nil || y.t == nil {
			return mkBool(x.t == nil && y.t == nil)
		}
		if x.t != y.t && !types.Identical(x.t, y.t) {
			return tFalse
		}
		if !types.Comparable(x.t) {
			panic(in.rtPanic("comparing uncomparable type " + x.t.String()))
		}
		return in.eqValue(x.v, y.v)
	case Agg:
		y := b.(Agg)
		r := tTrue
		for i := range x {
			r = tAnd(r, in.eqValue(x[i], y[i]))
			if r == tFalse {
				return r
			}
		}
		return r
	}
	panic(fmt.Sprintf("engine: eqValue %T vs %T", a, b))
}

func (in *Interp) strEq(a, b Str) *Term {
	if a.Len() != b.Len() {
		return tFalse
	}
	if a.sym == nil && b.sym == nil {
		return mkBool(a.s == b.s)
	}
	r := tTrue
	for i := 0; i < a.Len(); i++ {
		r = tAnd(r, tEq(a.At(i), b.At(i)))
		if r == tFalse {
			return r
		}
	}
	return r
}

// strLess builds the lexicographic a<b term.
func (in *Interp) strLess(a, b Str) *Term {
	if a.sym == nil && b.sym == nil {
		return mkBool(a.s < b.s)
	}
	n := a.Len()
	if b.Len() < n {
		n = b.Len()
	}
	// from the end: res = (a shorter than b) at tail
	res := mkBool(a.Len() < b.Len())
	for i := n - 1; i >= 0; i-- {
		x, y := a.At(i), b.At(i)
		res = tIte(tEq(x, y), res, tBin(OpULt, x, y))
	}
	return res
}

// ---- binary / unary ops --------------------------------------------------

func (in *Interp) binop(op token.Token, t types.Type, a, b Value, instr ssa.Instruction) Value {
	switch x := a.(type) {
	case *Term:
		y, ok := b.(*Term)
		if !ok {
			break
		}
		return in.binopTerm(op, t, x, y)
	case Str:
		y := b.(Str)
		switch op {
		case token.ADD:
			return strConcat(x, y)
		case token.EQL:
			return in.strEq(x, y)
		case token.NEQ:
			return tNot(in.strEq(x, y))
		case token.LSS:
			return in.strLess(x, y)
		case token.GTR:
			return in.strLess(y, x)
		case token.LEQ:
			return tNot(in.strLess(y, x))
		case token.GEQ:
			return tNot(in.strLess(x, y))
		}
	}
	switch op {
	case token.EQL:
		return in.eqValue(a, b)
	case token.NEQ:
		return tNot(in.eqValue(a, b))
	}
	panic(fmt.Sprintf("engine: binop %s on %T,%T", op, a, b))
}

func (in *Interp) binopTerm(op token.Token, t types.Type, x, y *Term) Value {
	sortX, w, signed, _ := scalarSort(t)
	_ = sortX
	if x.sort == SBool {
		switch op {
		case token.EQL:
			return tEq(x, y)
		case token.NEQ:
			return tNot(tEq(x, y))
		case token.AND, token.LAND:
			return tAnd(x, y)
		case token.OR, token.LOR:
			return tOr(x, y)
		}
		panic("engine: bool binop " + op.String())
	}
	if x.sort == SFP {
		switch op {
		case token.ADD:
			return tBin(OpFAdd, x, y)
		case token.SUB:
			return tBin(OpFSub, x, y)
		case token.MUL:
			return tBin(OpFMul, x, y)
		case token.QUO:
			return tBin(OpFDiv, x, y)
		case token.EQL:
			return tBin(OpFEq, x, y)
		case token.NEQ:
			return tNot(tBin(OpFEq, x, y))
		case token.LSS:
			return tBin(OpFLt, x, y)
		case token.LEQ:
			return tBin(OpFLe, x, y)
		case token.GTR:
			return tBin(OpFLt, y, x)
		case token.GEQ:
			return tBin(OpFLe, y, x)
		}
		panic("engine: float binop " + op.String())
	}
	// integers. For comparisons t is bool: signedness comes from operands'
	// static type which the caller passes through xSigned.
	switch op {
	case token.ADD:
		return tBin(OpAdd, x, y)
	case token.SUB:
		return tBin(OpSub, x, y)
	case token.MUL:
		return tBin(OpMul, x, y)
	case token.AND:
		return tBin(OpBAnd, x, y)
	case token.OR:
		return tBin(OpBOr, x, y)
	case token.XOR:
		return tBin(OpBXor, x, y)
	case token.AND_NOT:
		return tBin(OpBAnd, x, tUn(OpBNot, y))
	case token.QUO, token.REM:
		if in.branch(tEq(y, mkBV(y.w, 0))) {
			panic(in.rtPanic("integer divide by zero"))
		}
		switch {
		case op == token.QUO && signed:
			return tBin(OpSDiv, x, y)
		case op == token.QUO:
			return tBin(OpUDiv, x, y)
		case signed:
			return tBin(OpSRem, x, y)
		default:
			return tBin(OpURem, x, y)
		}
	}
	_ = w
	panic("engine: int binop " + op.String())
}

func (in *Interp) compareInts(op token.Token, signed bool, x, y *Term) *Term {
	switch op {
	case token.EQL:
		return tEq(x, y)
	case token.NEQ:
		return tNot(tEq(x, y))
	}
	lt, le := OpULt, OpULe
	if signed {
		lt, le = OpSLt, OpSLe
	}
	switch op {
	case token.LSS:
		return tBin(lt, x, y)
	case token.LEQ:
		return tBin(le, x, y)
	case token.GTR:
		return tBin(lt, y, x)
	case token.GEQ:
		return tBin(le, y, x)
	}
	panic("compareInts")
}

func (in *Interp) shift(op token.Token, xt, yt types.Type, x, y *Term) *Term {
	_, w, xsigned, _ := scalarSort(xt)
	_, _, ysigned, _ := scalarSort(yt)
	if ysigned {
		if in.branch(tBin(OpSLt, y, mkBV(y.w, 0))) {
			panic(in.rtPanic("negative shift amount"))
		}
	}
	// big := y >= w (at y's width)
	big := tNot(tBin(OpULt, y, mkBV(y.w, uint64(w))))
	cnt := tResize(y, false, w) // valid when !big
	if y.w < w {
		cnt = tZExt(y, w)
	}
	switch op {
	case token.SHL:
		return tIte(big, mkBV(w, 0), tBin(OpShl, x, cnt))
	default:
		if xsigned {
			return tIte(big, tBin(OpAShr, x, mkBV(w, uint64(w-1))), tBin(OpAShr, x, cnt))
		}
		return tIte(big, mkBV(w, 0), tBin(OpLShr, x, cnt))
	}
}

// ---- conversion -------------------------------------------------------------

func (in *Interp) convert(from, to types.Type, v Value) Value {
	uf, ut := from.Underlying(), to.Underlying()
	// pointers and unsafe.Pointer
	if _, ok := ut.(*types.Pointer); ok {
		return v
	}
	if b, ok := ut.(*types.Basic); ok && b.Kind() == types.UnsafePointer {
		if _, isT := v.(*Term); isT {
			panic(inconclusive("uintptr -> unsafe.Pointer"))
		}
		return v
	}
	if b, ok := uf.(*types.Basic); ok && b.Kind() == types.UnsafePointer {
		if _, ok := ut.(*types.Basic); ok {
			panic(inconclusive("unsafe.Pointer -> uintptr"))
		}
		return v
	}
	switch x := v.(type) {
	case *Term:
		bt, ok := ut.(*types.Basic)
		if !ok {
			break
		}
		if bt.Info()&types.IsString != 0 {
			// integer -> string (rune)
			if !x.IsConst() {
				panic(inconclusive("symbolic rune to string"))
			}
			_, fw, fs, _ := scalarSort(from)
			var r rune
			if fs {
				n := sext64(x.val, fw)
				if n < 0 || n > 0x10FFFF {
					r = 0xFFFD
				} else {
					r = rune(n)
				}
			} else if x.val > 0x10FFFF {
				r = 0xFFFD
			} else {
				r = rune(x.val)
			}
			return mkStr(string(r))
		}
		ts, tw, tsigned, ok2 := scalarSort(to)
		fs, _, fsigned, _ := scalarSort(from)
		if !ok2 {
			break
		}
		switch {
		case fs == SBV && ts == SBV:
			return tResize(x, fsigned, tw)
		case fs == SBV && ts == SFP:
			if fsigned {
				return tConv(OpFFromS, x, SFP, tw)
			}
			return tConv(OpFFromU, x, SFP, tw)
		case fs == SFP && ts == SFP:
			if x.w == tw {
				return x
			}
			return tConv(OpFToF, x, SFP, tw)
		case fs == SFP && ts == SBV:
			return in.floatToInt(x, tw, tsigned)
		case fs == SBool && ts == SBool:
			return x
		}
	case Str:
		if sl, ok := ut.(*types.Slice); ok {
			eb := sl.Elem().Underlying().(*types.Basic)
			if eb.Kind() == types.Byte || eb.Kind() == types.Uint8 {
				n := x.Len()
				o := in.newObj(n, "[]byte(string)")
				copy(o.cells, termsToValues(x.Bytes()))
				return Slice{o, 0, n, n}
			}
			// []rune
			if !x.IsConcrete() {
				panic(inconclusive("[]rune of symbolic string"))
			}
			rs := []rune(x.Concrete())
			o := in.newObj(len(rs), "[]rune(string)")
			for i, r := range rs {
				o.cells[i] = mkBV(32, uint64(r))
			}
			return Slice{o, 0, len(rs), len(rs)}
		}
		return v
	case Slice:
		if bt, ok := ut.(*types.Basic); ok && bt.Info()&types.IsString != 0 {
			eb := uf.(*types.Slice).Elem().Underlying().(*types.Basic)
			if eb.Kind() == types.Byte || eb.Kind() == types.Uint8 {
				return in.bytesToStr(x)
			}
			// []rune -> string
			var sb strings.Builder
			for i := 0; i < x.len; i++ {
				c := x.obj.cells[x.off+i].(*Term)
				if !c.IsConst() {
					panic(inconclusive("string of symbolic runes"))
				}
				sb.WriteRune(rune(sext64(c.val, 32)))
			}
			return mkStr(sb.String())
		}
		return v
	}
	return v
}

func termsToValues(ts []*Term) []Value {
	out := make([]Value, len(ts))
	for i, t := range ts {
		out[i] = t
	}
	return out
}

func (in *Interp) bytesToStr(x Slice) Str {
	if x.len == 0 {
		return Str{}
	}
	allc := true
	bs := make([]*Term, x.len)
	for i := 0; i < x.len; i++ {
		c := x.obj.cells[x.off+i].(*Term)
		bs[i] = c
		if !c.IsConst() {
			allc = false
		}
	}
	if allc {
		b := make([]byte, x.len)
		for i, c := range bs {
			b[i] = byte(c.val)
		}
		return mkStr(string(b))
	}
	return Str{sym: bs}
}

func (in *Interp) floatToInt(x *Term, tw uint8, tsigned bool) Value {
	// In range: truncation toward zero. Out of range / NaN: Go leaves the result
	// implementation-defined -> a fresh unconstrained value.
	var lo, hi float64 // in range iff lo < x < hi
	if tsigned {
		lo = -float64(uint64(1)<<(tw-1)) - 1
		hi = float64(uint64(1) << (tw - 1))
		if tw == 64 {
			lo = -9223372036854775808.0 // exactly representable; x >= lo is in range
		}
	} else {
		lo = -1
		hi = float64(uint64(1)<<(tw-1)) * 2
	}
	mkf := func(f float64) *Term { return mkConst(SFP, x.w, f2bits(x.w, f)) }
	var inr *Term
	if tsigned && tw == 64 {
		inr = tAnd(tBin(OpFLe, mkf(lo), x), tBin(OpFLt, x, mkf(hi)))
	} else {
		inr = tAnd(tBin(OpFLt, mkf(lo), x), tBin(OpFLt, x, mkf(hi)))
	}
	if x.IsConst() {
		if inr.val != 0 {
			if tsigned {
				return tConv(OpFToS, x, SBV, tw)
			}
			return tConv(OpFToU, x, SBV, tw)
		}
		// emulate amd64 for constants so that the concrete world agrees
		f := bits2f(x.w, x.val)
		if tsigned {
			switch tw {
			case 64:
				return mkBV(64, uint64(int64(f)))
			case 32:
				return mkBV(32, uint64(int32(f)))
			case 16:
				return mkBV(16, uint64(int16(f)))
			default:
				return mkBV(8, uint64(int8(f)))
			}
		}
		switch tw {
		case 64:
			return mkBV(64, uint64(f))
		case 32:
			return mkBV(32, uint64(uint32(f)))
		case 16:
			return mkBV(16, uint64(uint16(f)))
		default:
			return mkBV(8, uint64(uint8(f)))
		}
	}
	var conv *Term
	if tsigned {
		conv = tConv(OpFToS, x, SBV, tw)
	} else {
		conv = tConv(OpFToU, x, SBV, tw)
	}
	fresh := in.freshVar("_f2i", SBV, tw)
	in.stubsHit["float->int out of range = unconstrained value"] = true
	return tIte(inr, conv, fresh)
}

// ---- frames / calls -----------------------------------------------------------

func (in *Interp) callFunction(fn *ssa.Function, args []Value, fv []Value, caller *Frame, site *ssa.CallCommon) Value {
	if m := in.modelFor(fn); m != nil {
		if r := m(in, caller, args, site); r != notHandled {
			return r
		}
	}
	if in.initing && fn.Synthetic == "package initializer" && fn.Pkg != in.curInitPkg {
		return nil
	}
	if fn.Blocks == nil && fn.Pkg != nil {
		fn.Pkg.Build() // library packages are built lazily
	}
	if fn.Blocks == nil {
		panic(inconclusive("function without body and without model: " + fn.String()))
	}
	if fn.Pkg != nil && blockedPkgs[fn.Pkg.Pkg.Path()] && !allowedFns[fn.String()] {
		panic(inconclusive("unmodelled function of an out-of-reach library package: " + fn.String()))
	}
	in.depth++
	if in.depth > in.maxDepth {
		in.depth--
		panic(targetPanic{msg: "stack overflow (frame depth bound exceeded)", exit: true})
	}
	in.funcsHit[fn] = true
	in.callStack = append(in.callStack, fn)
	fr := &Frame{fn: fn, env: make(map[ssa.Value]Value, 16), caller: caller}
	for i, p := range fn.Params {
		fr.env[p] = args[i]
	}
	for i, f := range fn.FreeVars {
		fr.env[f] = fv[i]
	}
	fr.block = fn.Blocks[0]
	for fr.block != nil {
		in.runFrame(fr)
	}
	in.depth--
	in.callStack = in.callStack[:len(in.callStack)-1]
	return fr.result
}

func (in *Interp) runFrame(fr *Frame) {
	defer func() {
		if fr.block == nil {
			return // normal return
		}
		r := recover()
		tp, ok := r.(targetPanic)
		if !ok || tp.exit {
			panic(r) // engine-level abort: pass through untouched
		}
		// restore bookkeeping of frames unwound above us
		in.unwindTo(fr)
		fr.panicking = true
		fr.panicVal = tp
		in.runDefers(fr)
		// recovered: continue at the Recover block, or return zero results
		fr.block = fr.fn.Recover
		if fr.block == nil {
			fr.result = in.zeroResults(fr.fn)
		}
	}()
	for {
		blk := fr.block
		for _, instr := range blk.Instrs {
			in.steps++
			if in.steps > in.maxSteps {
				panic(targetPanic{msg: "step budget exceeded (possible non-termination)", exit: true})
			}
			switch in.visit(fr, instr) {
			case kReturn:
				return
			case kJump:
				goto next
			}
		}
		panic("engine: fell off block")
	next:
	}
}

func (in *Interp) unwindTo(fr *Frame) {
	// depth and callStack are restored by position of fr.fn in callStack
	for i := len(in.callStack) - 1; i >= 0; i-- {
		if in.callStack[i] == fr.fn {
			in.depth -= len(in.callStack) - 1 - i
			in.callStack = in.callStack[:i+1]
			return
		}
	}
}

func (in *Interp) zeroResults(fn *ssa.Function) Value {
	res := fn.Signature.Results()
	switch res.Len() {
	case 0:
		return nil
	case 1:
		return in.ti.zero(res.At(0).Type())
	}
	return in.ti.zero(res)
}

func (in *Interp) runDefers(fr *Frame) {
	for len(fr.defers) > 0 {
		d := fr.defers[len(fr.defers)-1]
		fr.defers = fr.defers[:len(fr.defers)-1]
		in.runDefer(fr, d)
	}
	if fr.panicking {
		tp := fr.panicVal
		panic(tp)
	}
}

func (in *Interp) runDefer(fr *Frame, d deferred) {
	ok := false
	defer func() {
		if ok {
			return
		}
		r := recover()
		tp, isT := r.(targetPanic)
		if !isT {
			panic(r)
		}
		in.unwindTo(fr)
		fr.panicking = true
		fr.panicVal = tp
	}()
	in.callValue(d.fn, d.args, fr, nil)
	ok = true
}

func (in *Interp) callValue(fv Value, args []Value, caller *Frame, site *ssa.CallCommon) Value {
	switch f := fv.(type) {
	case *Closure:
		if f == nil {
			panic(in.rtPanic("invalid memory address or nil pointer dereference"))
		}
		if f.native != nil {
			return f.native(in, args)
		}
		return in.callFunction(f.fn, args, f.fv, caller, site)
	case builtinVal:
		return in.callBuiltin(caller, f.b, args, site)
	}
	panic(fmt.Sprintf("engine: call of %T", fv))
}

type builtinVal struct{ b *ssa.Builtin }

func (in *Interp) lookupMethod(t types.Type, m *types.Func) *ssa.Function {
	k := methodKey{t, m.Name(), m.Pkg()}
	if f, ok := in.methods[k]; ok {
		return f
	}
	sel := in.P.prog.MethodSets.MethodSet(t).Lookup(m.Pkg(), m.Name())
	if sel == nil {
		panic(fmt.Sprintf("engine: method %s not found on %s", m.Name(), t))
	}
	f := in.P.prog.MethodValue(sel)
	in.methods[k] = f
	return f
}

func (in *Interp) prepareCall(fr *Frame, call *ssa.CallCommon) (Value, []Value) {
	var args []Value
	var fn Value
	if call.IsInvoke() {
		recv := fr.get(in, call.Value).(Iface)
		if recv.t == nil {
			panic(in.rtPanic("invalid memory address or nil pointer dereference"))
		}
		m := in.lookupMethod(recv.t, call.Method)
		if m == nil {
			panic(inconclusive("abstract method " + call.Method.String() + " on " + recv.t.String()))
		}
		fn = &Closure{fn: m}
		args = append(args, recv.v)
	} else {
		switch v := call.Value.(type) {
		case *ssa.Builtin:
			fn = builtinVal{v}
		default:
			fn = fr.get(in, call.Value)
		}
	}
	for _, a := range call.Args {
		args = append(args, fr.get(in, a))
	}
	return fn, args
}

// ---- instruction dispatch ---------------------------------------------------

type cont int

const (
	kNext cont = iota
	kReturn
	kJump
)

func (in *Interp) visit(fr *Frame, instr ssa.Instruction) cont {
	switch x := instr.(type) {
	case *ssa.DebugRef:
	case *ssa.UnOp:
		fr.env[x] = in.unop(fr, x)
	case *ssa.BinOp:
		a, b := fr.get(in, x.X), fr.get(in, x.Y)
		switch x.Op {
		case token.SHL, token.SHR:
			fr.env[x] = in.shift(x.Op, x.X.Type(), x.Y.Type(), a.(*Term), b.(*Term))
		case token.LSS, token.LEQ, token.GTR, token.GEQ, token.EQL, token.NEQ:
			at, ok := a.(*Term)
			if ok && at.sort == SBV {
				_, _, signed, _ := scalarSort(x.X.Type())
				fr.env[x] = in.compareInts(x.Op, signed, at, b.(*Term))
			} else {
				fr.env[x] = in.binop(x.Op, x.X.Type(), a, b, x)
			}
		default:
			fr.env[x] = in.binop(x.Op, x.Type(), a, b, x)
		}
	case *ssa.Call:
		fn, args := in.prepareCall(fr, &x.Call)
		fr.env[x] = in.callValue(fn, args, fr, &x.Call)
	case *ssa.ChangeInterface:
		fr.env[x] = fr.get(in, x.X)
	case *ssa.ChangeType:
		fr.env[x] = fr.get(in, x.X)
	case *ssa.Convert:
		fr.env[x] = in.convert(x.X.Type(), x.Type(), fr.get(in, x.X))
	case *ssa.MultiConvert:
		panic(inconclusive("MultiConvert (generic conversion)"))
	case *ssa.SliceToArrayPointer:
		s := fr.get(in, x.X).(Slice)
		n := int(x.Type().(*types.Pointer).Elem().Underlying().(*types.Array).Len())
		if s.len < n {
			panic(in.rtPanic("cannot convert slice to array pointer: length too short"))
		}
		if s.obj == nil {
			fr.env[x] = Ptr{}
		} else {
			fr.env[x] = Ptr{s.obj, s.off}
		}
	case *ssa.MakeInterface:
		fr.env[x] = Iface{t: in.canon(x.X.Type()), v: fr.get(in, x.X)}
	case *ssa.Extract:
		fr.env[x] = fr.get(in, x.Tuple).(Tuple)[x.Index]
	case *ssa.Slice:
		fr.env[x] = in.sliceOp(fr, x)
	case *ssa.Return:
		switch len(x.Results) {
		case 0:
		case 1:
			fr.result = fr.get(in, x.Results[0])
		default:
			res := make(Tuple, len(x.Results))
			for i, r := range x.Results {
				res[i] = fr.get(in, r)
			}
			fr.result = res
		}
		fr.block = nil
		return kReturn
	case *ssa.RunDefers:
		in.runDefers(fr)
	case *ssa.Panic:
		v := fr.get(in, x.X)
		panic(targetPanic{val: v, msg: in.panicString(v)})
	case *ssa.Send, *ssa.Select, *ssa.Go, *ssa.MakeChan:
		panic(inconclusive("concurrency primitive " + instr.String() + " in " + fr.fn.String()))
	case *ssa.Store:
		in.store(x.Val.Type(), fr.get(in, x.Addr), fr.get(in, x.Val))
	case *ssa.If:
		c := fr.get(in, x.Cond).(*Term)
		succ := 1
		if in.branch(c) {
			succ = 0
		}
		fr.prev, fr.block = fr.block, fr.block.Succs[succ]
		in.loopCheck(fr)
		return kJump
	case *ssa.Jump:
		fr.prev, fr.block = fr.block, fr.block.Succs[0]
		in.loopCheck(fr)
		return kJump
	case *ssa.Defer:
		fn, args := in.prepareCall(fr, &x.Call)
		fr.defers = append(fr.defers, deferred{fn: fn, args: args})
	case *ssa.Alloc:
		fr.env[x] = Ptr{in.allocType(x.Type().(*types.Pointer).Elem(), "alloc"), 0}
	case *ssa.MakeSlice:
		n := mustConstInt(fr.get(in, x.Len), "make len")
		c := mustConstInt(fr.get(in, x.Cap), "make cap")
		if n < 0 || c < n {
			panic(in.rtPanic("makeslice: len out of range"))
		}
		et := x.Type().Underlying().(*types.Slice).Elem()
		en := in.ti.of(et).n
		if c*en > 1<<26 {
			panic(inconclusive("huge make"))
		}
		o := in.newObj(0, "makeslice")
		o.cells = make([]Value, 0, c*en)
		if c > 0 {
			z := in.ti.appendZero(nil, et)
			if len(z) == 1 {
				o.cells = o.cells[:c]
				for i := range o.cells {
					o.cells[i] = z[0]
				}
			} else {
				for i := 0; i < c; i++ {
					o.cells = append(o.cells, z...)
				}
			}
		}
		fr.env[x] = Slice{o, 0, n, c}
	case *ssa.MakeMap:
		mt := x.Type().Underlying().(*types.Map)
		fr.env[x] = &MapObj{index: map[string]int{}, epoch: in.epoch, keyT: mt.Key(), valT: mt.Elem()}
	case *ssa.Range:
		fr.env[x] = in.rangeOp(fr.get(in, x.X))
	case *ssa.Next:
		fr.env[x] = in.nextOp(fr, x)
	case *ssa.FieldAddr:
		p := fr.get(in, x.X)
		st := x.X.Type().Underlying().(*types.Pointer).Elem()
		off := in.ti.of(st).fields[x.Field]
		switch pp := p.(type) {
		case Ptr:
			if pp.obj == nil {
				panic(in.rtPanic("invalid memory address or nil pointer dereference"))
			}
			fr.env[x] = Ptr{pp.obj, pp.off + off}
		case SymPtr:
			pp.off += off
			fr.env[x] = pp
		}
	case *ssa.Field:
		a := fr.get(in, x.X).(Agg)
		l := in.ti.of(x.X.Type())
		off := l.fields[x.Field]
		ft := x.Type()
		if isAggType(ft) {
			n := in.ti.of(ft).n
			fr.env[x] = Agg(append([]Value(nil), a[off:off+n]...))
		} else {
			fr.env[x] = a[off]
		}
	case *ssa.IndexAddr:
		fr.env[x] = in.indexAddr(fr, x)
	case *ssa.Index:
		fr.env[x] = in.indexOp(fr, x)
	case *ssa.Lookup:
		fr.env[x] = in.lookupOp(fr, x)
	case *ssa.MapUpdate:
		m := fr.get(in, x.Map).(*MapObj)
		in.mapSet(m, fr.get(in, x.Key), fr.get(in, x.Value))
	case *ssa.TypeAssert:
		fr.env[x] = in.typeAssert(fr, x)
	case *ssa.MakeClosure:
		var fv []Value
		for _, b := range x.Bindings {
			fv = append(fv, fr.get(in, b))
		}
		fr.env[x] = &Closure{fn: x.Fn.(*ssa.Function), fv: fv}
	case *ssa.Phi:
		for i, pred := range x.Block().Preds {
			if fr.prev == pred {
				fr.env[x] = fr.get(in, x.Edges[i])
				break
			}
		}
	default:
		panic(fmt.Sprintf("engine: unexpected instruction %T", instr))
	}
	return kNext
}

func (in *Interp) loopCheck(fr *Frame) {
	// back edge = jump to a block with index <= prev index
	if fr.block.Index > fr.prev.Index {
		return
	}
	if fr.loopCnt == nil {
		fr.loopCnt = map[*ssa.BasicBlock]int{}
	}
	fr.loopCnt[fr.block]++
	if fr.loopCnt[fr.block] > in.unwind {
		panic(inconclusive(fmt.Sprintf("unwinding bound %d reached in %s block %d", in.unwind, fr.fn, fr.block.Index)))
	}
}

func (in *Interp) panicString(v Value) string {
	if i, ok := v.(Iface); ok && i.t != nil {
		if s, ok := i.v.(Str); ok {
			if s.IsConcrete() {
				return s.Concrete()
			}
			return "<symbolic string>"
		}
		return "panic(" + i.t.String() + ")"
	}
	return "panic(nil)"
}

func (in *Interp) unop(fr *Frame, x *ssa.UnOp) Value {
	v := fr.get(in, x.X)
	switch x.Op {
	case token.MUL:
		return in.load(x.Type(), v)
	case token.NOT:
		return tNot(v.(*Term))
	case token.SUB:
		t := v.(*Term)
		if t.sort == SFP {
			return tUn(OpFNeg, t)
		}
		return tUn(OpNeg, t)
	case token.XOR:
		return tUn(OpBNot, v.(*Term))
	case token.ARROW:
		panic(inconclusive("channel receive"))
	}
	panic("engine: unop " + x.Op.String())
}

// ---- slices / indexing ------------------------------------------------------

// boundsOK forks on 0 <= idx < n (idx signed 64) and panics on the bad side.
func (in *Interp) checkIndex(idx *Term, n int, what string) {
	if idx.w != 64 {
		idx = tSExt(idx, 64)
	}
	ok := tBin(OpULt, idx, mkBV(64, uint64(n)))
	if !in.branch(ok) {
		if idx.IsConst() {
			panic(in.rtPanic(fmt.Sprintf("index out of range [%d] with length %d", sext64(idx.val, 64), n)))
		}
		panic(in.rtPanic(fmt.Sprintf("index out of range [symbolic] with length %d", n)))
	}
}

func idx64(t types.Type, v *Term) *Term {
	_, _, signed, _ := scalarSort(t)
	return tResize(v, signed, 64)
}

func (in *Interp) indexAddr(fr *Frame, x *ssa.IndexAddr) Value {
	base := fr.get(in, x.X)
	idx := idx64(x.Index.Type(), fr.get(in, x.Index).(*Term))
	var obj *Obj
	var off, n, stride int
	switch b := base.(type) {
	case Slice:
		et := x.X.Type().Underlying().(*types.Slice).Elem()
		stride = in.ti.of(et).n
		obj, off, n = b.obj, b.off, b.len
	case Ptr:
		if b.obj == nil {
			panic(in.rtPanic("invalid memory address or nil pointer dereference"))
		}
		at := x.X.Type().Underlying().(*types.Pointer).Elem().Underlying().(*types.Array)
		stride = in.ti.of(at.Elem()).n
		obj, off, n = b.obj, b.off, int(at.Len())
	default:
		panic(fmt.Sprintf("engine: IndexAddr on %T", base))
	}
	in.checkIndex(idx, n, "index")
	if idx.IsConst() {
		return Ptr{obj, off + int(idx.val)*stride}
	}
	if n == 1 {
		return Ptr{obj, off}
	}
	return SymPtr{obj: obj, off: off, stride: stride, n: n, idx: idx}
}

func (in *Interp) indexOp(fr *Frame, x *ssa.Index) Value {
	base := fr.get(in, x.X)
	idx := idx64(x.Index.Type(), fr.get(in, x.Index).(*Term))
	switch b := base.(type) {
	case Str:
		return in.strIndex(b, idx)
	case Agg:
		at := x.X.Type().Underlying().(*types.Array)
		stride := in.ti.of(at.Elem()).n
		n := int(at.Len())
		in.checkIndex(idx, n, "index")
		if !idx.IsConst() {
			i := in.concretize(idx, 0, n)
			idx = mkBV(64, uint64(i))
		}
		o := int(idx.val) * stride
		if isAggType(at.Elem()) {
			return Agg(append([]Value(nil), b[o:o+stride]...))
		}
		return b[o]
	}
	panic(fmt.Sprintf("engine: Index on %T", base))
}

// tSubSimp is hi-lo with the (x+c)-x and (x+c1)-(x+c2) patterns folded.
func tSubSimp(hi, lo *Term) *Term {
	split := func(t *Term) (*Term, uint64) {
		if t.op == OpAdd {
			if t.args[1].IsConst() {
				return t.args[0], t.args[1].val
			}
			if t.args[0].IsConst() {
				return t.args[1], t.args[0].val
			}
		}
		return t, 0
	}
	if hi.IsConst() && lo.IsConst() {
		return tBin(OpSub, hi, lo)
	}
	hb, hc := split(hi)
	lb, lc := split(lo)
	if hb == lb {
		return mkBV(64, hc-lc)
	}
	return tBin(OpSub, hi, lo)
}

func (in *Interp) strIndexNoCheck(s Str, idx *Term) *Term {
	n := s.Len()
	if idx.IsConst() {
		return s.At(int(idx.val))
	}
	res := s.At(n - 1)
	for i := n - 2; i >= 0; i-- {
		c := s.At(i)
		if sameTerm(c, res) {
			continue
		}
		res = tIte(tEq(idx, mkBV(64, uint64(i))), c, res)
	}
	return res
}

func (in *Interp) strIndex(s Str, idx *Term) Value {
	n := s.Len()
	in.checkIndex(idx, n, "string index")
	if idx.IsConst() {
		return s.At(int(idx.val))
	}
	res := s.At(n - 1)
	for i := n - 2; i >= 0; i-- {
		c := s.At(i)
		if sameTerm(c, res) {
			continue
		}
		res = tIte(tEq(idx, mkBV(64, uint64(i))), c, res)
	}
	return res
}

func (in *Interp) sliceOp(fr *Frame, x *ssa.Slice) Value {
	base := fr.get(in, x.X)
	getI := func(v ssa.Value, def int) int {
		if v == nil {
			return def
		}
		t := fr.get(in, v).(*Term)
		if !t.IsConst() {
			panic(inconclusive("symbolic slice bound in " + fr.fn.String()))
		}
		return int(sext64(t.val, t.w))
	}
	if b, ok := base.(Str); ok {
		// symbolic window of constant width (e.g. strconv's digits[i:i+1])
		var lo, hi *Term
		if x.Low != nil {
			lo = idx64(x.Low.Type(), fr.get(in, x.Low).(*Term))
		}
		if x.High != nil {
			hi = idx64(x.High.Type(), fr.get(in, x.High).(*Term))
		}
		if (lo != nil && !lo.IsConst()) || (hi != nil && !hi.IsConst()) {
			if lo == nil {
				lo = mkBV(64, 0)
			}
			if hi == nil {
				hi = mkBV(64, uint64(b.Len()))
			}
			d := tSubSimp(hi, lo)
			if !d.IsConst() {
				panic(inconclusive("string slice with symbolic width in " + fr.fn.String()))
			}
			k := int(sext64(d.val, 64))
			if k < 0 || k > b.Len() {
				panic(in.rtPanic("slice bounds out of range"))
			}
			in.checkIndex(lo, b.Len()-k+1, "slice")
			bs := make([]*Term, k)
			for j := 0; j < k; j++ {
				bs[j] = in.strIndexNoCheck(b, tBin(OpAdd, lo, mkBV(64, uint64(j))))
			}
			return Str{sym: bs}.Norm()
		}
	}
	switch b := base.(type) {
	case Str:
		lo := getI(x.Low, 0)
		hi := getI(x.High, b.Len())
		if lo < 0 || hi < lo || hi > b.Len() {
			panic(in.rtPanic(fmt.Sprintf("slice bounds out of range [%d:%d] with length %d", lo, hi, b.Len())))
		}
		return b.Slice(lo, hi)
	case Slice:
		et := x.X.Type().Underlying().(*types.Slice).Elem()
		stride := in.ti.of(et).n
		lo := getI(x.Low, 0)
		hi := getI(x.High, b.len)
		mx := getI(x.Max, b.cap)
		if lo < 0 || hi < lo || mx < hi || mx > b.cap {
			panic(in.rtPanic(fmt.Sprintf("slice bounds out of range [%d:%d:%d] with capacity %d", lo, hi, mx, b.cap)))
		}
		if b.obj == nil {
			return Slice{}
		}
		return Slice{b.obj, b.off + lo*stride, hi - lo, mx - lo}
	case Ptr:
		if b.obj == nil {
			panic(in.rtPanic("invalid memory address or nil pointer dereference"))
		}
		at := x.X.Type().Underlying().(*types.Pointer).Elem().Underlying().(*types.Array)
		stride := in.ti.of(at.Elem()).n
		n := int(at.Len())
		lo := getI(x.Low, 0)
		hi := getI(x.High, n)
		mx := getI(x.Max, n)
		if lo < 0 || hi < lo || mx < hi || mx > n {
			panic(in.rtPanic("slice bounds out of range"))
		}
		return Slice{b.obj, b.off + lo*stride, hi - lo, mx - lo}
	}
	panic(fmt.Sprintf("engine: Slice on %T", base))
}

// ---- type assertions --------------------------------------------------------

func (in *Interp) implements(dyn types.Type, it *types.Interface) bool {
	return types.Implements(dyn, it)
}

func (in *Interp) typeAssert(fr *Frame, x *ssa.TypeAssert) Value {
	v := fr.get(in, x.X).(Iface)
	at := x.AssertedType
	var ok bool
	var res Value
	if it, isI := at.Underlying().(*types.Interface); isI {
		ok = v.t != nil && in.implements(v.t, it)
		if ok {
			res = v
		} else {
			res = Iface{}
		}
	} else {
		cat := in.canon(at)
		ok = v.t != nil && (v.t == cat || types.Identical(v.t, cat))
		if ok {
			res = v.v
		} else {
			res = in.ti.zero(at)
		}
	}
	if x.CommaOk {
		return Tuple{res, mkBool(ok)}
	}
	if !ok {
		dyn := "nil"
		if v.t != nil {
			dyn = v.t.String()
		}
		panic(in.rtPanic(fmt.Sprintf("interface conversion: interface is %s, not %s", dyn, at.String())))
	}
	return res
}

// ---- maps -------------------------------------------------------------------

// keyString renders a fully concrete key canonically; ok=false if symbolic.
func keyString(v Value, sb *strings.Builder) bool {
	switch x := v.(type) {
	case *Term:
		if !x.IsConst() {
			return false
		}
		fmt.Fprintf(sb, "i%d:%d;", x.w, x.val)
	case Str:
		if !x.IsConcrete() {
			return false
		}
		s := x.Concrete()
		fmt.Fprintf(sb, "s%d:%s;", len(s), s)
	case Ptr:
		fmt.Fprintf(sb, "p%p+%d;", x.obj, x.off)
	case Iface:
		if x.t == nil {
			sb.WriteString("nil;")
			return true
		}
		fmt.Fprintf(sb, "I%s(", x.t.String())
		if !keyString(x.v, sb) {
			return false
		}
		sb.WriteString(");")
	case Agg:
		sb.WriteString("{")
		for _, c := range x {
			if !keyString(c, sb) {
				return false
			}
		}
		sb.WriteString("}")
	case *MapObj:
		fmt.Fprintf(sb, "m%p;", x)
	case *Closure:
		fmt.Fprintf(sb, "f%p;", x)
	default:
		return false
	}
	return true
}

func keyOf(v Value) (string, bool) {
	var sb strings.Builder
	ok := keyString(v, &sb)
	return sb.String(), ok
}

func (in *Interp) mapFind(m *MapObj, k Value) int {
	if m == nil {
		return -1
	}
	if i, ok := k.(Iface); ok && i.t != nil && !types.Comparable(i.t) {
		panic(in.rtPanic("hash of unhashable type " + i.t.String()))
	}
	ks, kc := keyOf(k)
	if kc {
		if i, ok := m.index[ks]; ok {
			return i
		}
		if m.nsym == 0 {
			return -1
		}
	}
	for i := range m.entries {
		e := &m.entries[i]
		if e.deleted || (kc && e.conc) {
			continue
		}
		if in.branch(in.eqValue(e.k, k)) {
			return i
		}
	}
	return -1
}

func (in *Interp) mapWriteCheck(m *MapObj) {
	if m.frozen {
		panic(inconclusive("write to frozen map"))
	}
	if in.ckEpoch > 0 && m.epoch < in.ckEpoch {
		in.noteSharedWrite("map")
	}
}

func (in *Interp) mapSet(m *MapObj, k, v Value) {
	if m == nil {
		panic(in.rtPanic("assignment to entry in nil map"))
	}
	in.mapWriteCheck(m)
	if i := in.mapFind(m, k); i >= 0 {
		m.entries[i].v = v
		return
	}
	ks, kc := keyOf(k)
	m.entries = append(m.entries, mapEntry{k: k, v: v, conc: kc})
	m.n++
	if kc {
		if m.index == nil {
			m.index = map[string]int{}
		}
		m.index[ks] = len(m.entries) - 1
	} else {
		m.nsym++
	}
}

func (in *Interp) mapDelete(m *MapObj, k Value) {
	if m == nil {
		return
	}
	i := in.mapFind(m, k)
	if i < 0 {
		return
	}
	in.mapWriteCheck(m)
	e := &m.entries[i]
	if e.conc {
		ks, _ := keyOf(e.k)
		delete(m.index, ks)
	} else {
		m.nsym--
	}
	e.deleted = true
	e.v = nil
	m.n--
}

func (in *Interp) lookupOp(fr *Frame, x *ssa.Lookup) Value {
	base := fr.get(in, x.X)
	if s, ok := base.(Str); ok {
		idx := idx64(x.Index.Type(), fr.get(in, x.Index).(*Term))
		return in.strIndex(s, idx)
	}
	m := base.(*MapObj)
	k := fr.get(in, x.Index)
	vt := x.X.Type().Underlying().(*types.Map).Elem()
	i := in.mapFind(m, k)
	var v Value
	if i >= 0 {
		v = m.entries[i].v
	} else {
		v = in.ti.zero(vt)
	}
	if x.CommaOk {
		return Tuple{v, mkBool(i >= 0)}
	}
	return v
}

func (in *Interp) rangeOp(v Value) Value {
	switch x := v.(type) {
	case Str:
		return &RangeIter{s: x, isS: true}
	case *MapObj:
		it := &RangeIter{m: x}
		if x != nil {
			for _, e := range x.entries {
				if !e.deleted {
					it.keys = append(it.keys, e.k)
				}
			}
			if in.permMode != 0 && len(it.keys) > 1 {
				n := len(it.keys)
				keys := make([]Value, n)
				for i := range keys {
					switch in.permMode {
					case 1: // reversed
						keys[i] = it.keys[n-1-i]
					default: // rotated by one
						keys[i] = it.keys[(i+1)%n]
					}
				}
				it.keys = keys
				in.permute = true
			}
		}
		return it
	}
	panic(fmt.Sprintf("engine: range over %T", v))
}

func (m *MapObj) keysSortable() bool { return false }

// permuteKeys enumerates iteration orders: all permutations for n<=3,
// rotations and reversal above.
func (in *Interp) permuteKeys(it *RangeIter) {
	n := len(it.keys)
	var perms [][]int
	if n <= 3 {
		idx := make([]int, n)
		for i := range idx {
			idx[i] = i
		}
		var gen func(k int)
		gen = func(k int) {
			if k == n {
				perms = append(perms, append([]int(nil), idx...))
				return
			}
			for i := k; i < n; i++ {
				idx[k], idx[i] = idx[i], idx[k]
				gen(k + 1)
				idx[k], idx[i] = idx[i], idx[k]
			}
		}
		gen(0)
		sort.Slice(perms, func(a, b int) bool {
			for i := range perms[a] {
				if perms[a][i] != perms[b][i] {
					return perms[a][i] < perms[b][i]
				}
			}
			return false
		})
	} else {
		for r := 0; r < n; r++ {
			p := make([]int, n)
			for i := range p {
				p[i] = (i + r) % n
			}
			perms = append(perms, p)
		}
		rev := make([]int, n)
		for i := range rev {
			rev[i] = n - 1 - i
		}
		perms = append(perms, rev)
	}
	k := in.choose(len(perms))
	keys := make([]Value, n)
	for i, j := range perms[k] {
		keys[i] = it.keys[j]
	}
	it.keys = keys
}

func (in *Interp) nextOp(fr *Frame, x *ssa.Next) Value {
	it := fr.get(in, x.Iter).(*RangeIter)
	if x.IsString {
		if it.pos >= it.s.Len() {
			return Tuple{tFalse, mkBV(64, 0), mkBV(32, 0)}
		}
		r, size := in.decodeRune(it.s, it.pos)
		pos := it.pos
		it.pos += size
		return Tuple{tTrue, mkBV(64, uint64(pos)), r}
	}
	for it.i < len(it.keys) {
		k := it.keys[it.i]
		it.i++
		// entry may have been deleted meanwhile
		var sb strings.Builder
		if keyString(k, &sb) {
			j, ok := it.m.index[sb.String()]
			if !ok || it.m.entries[j].deleted {
				continue
			}
			return Tuple{tTrue, k, it.m.entries[j].v}
		}
		for j := range it.m.entries {
			e := &it.m.entries[j]
			if !e.deleted && sameValueShallow(e.k, k) {
				return Tuple{tTrue, k, e.v}
			}
		}
	}
	mt := x.Iter.(*ssa.Range).X.Type().Underlying().(*types.Map)
	return Tuple{tFalse, in.ti.zero(mt.Key()), in.ti.zero(mt.Elem())}
}

func sameValueShallow(a, b Value) bool {
	switch x := a.(type) {
	case *Term:
		y, ok := b.(*Term)
		return ok && sameTerm(x, y)
	case Str:
		y, ok := b.(Str)
		if !ok || x.Len() != y.Len() {
			return false
		}
		for i := 0; i < x.Len(); i++ {
			if !sameTerm(x.At(i), y.At(i)) {
				return false
			}
		}
		return true
	case Iface:
		y, ok := b.(Iface)
		return ok && x.t == y.t && sameValueShallow(x.v, y.v)
	case Agg:
		y, ok := b.(Agg)
		if !ok || len(x) != len(y) {
			return false
		}
		for i := range x {
			if !sameValueShallow(x[i], y[i]) {
				return false
			}
		}
		return true
	case Ptr:
		y, ok := b.(Ptr)
		return ok && x == y
	}
	return false
}

// decodeRune decodes the rune at s[pos:]; symbolic bytes fork on ASCII-ness.
func (in *Interp) decodeRune(s Str, pos int) (*Term, int) {
	b := s.At(pos)
	if b.IsConst() && b.val < 0x80 {
		return mkBV(32, b.val), 1
	}
	if !b.IsConst() {
		if in.branch(tBin(OpULt, b, mkBV(8, 0x80))) {
			return tZExt(b, 32), 1
		}
	}
	// multi-byte: need concrete bytes for up to 4 positions
	end := pos + 4
	if end > s.Len() {
		end = s.Len()
	}
	sub := s.Slice(pos, end)
	if !sub.IsConcrete() {
		// concretise continuation bytes by value classes is expensive; decode with
		// the real utf8 routine interpreted symbolically
		return in.decodeRuneSymbolic(s, pos)
	}
	r, size := decodeRuneGo(sub.Concrete())
	return mkBV(32, uint64(uint32(r))), size
}
