package main

import (
	"fmt"
	"os"
	"strings"

	"golang.org/x/tools/go/ssa"
)

func (in *Interp) modelFor(fn *ssa.Function) modelFn {
	if m, ok := in.models[fn]; ok {
		return m
	}
	var m modelFn
	name := fn.Name()
	if strings.HasPrefix(name, "vp") && fn.Pkg != nil && isRepoPkg(fn.Pkg.Pkg.Path()) {
		m = intrinsicTable[name]
	}
	if m == nil {
		m = modelTable[fn.String()]
	}
	if m == nil && fn.Origin() != nil {
		m = modelTable[fn.Origin().String()]
	}
	in.models[fn] = m
	return m
}

func symScalar(kind string, w uint8) modelFn {
	return func(in *Interp, fr *Frame, args []Value, call *ssa.CallCommon) Value {
		return in.freshVar(kind, SBV, w)
	}
}

func concreteStr(v Value, what string) string {
	s := v.(Str)
	if !s.IsConcrete() {
		panic(inconclusive("symbolic " + what))
	}
	return s.Concrete()
}

var intrinsicTable map[string]modelFn

func init() {
	intrinsicTable = map[string]modelFn{
		"vpBool": func(in *Interp, fr *Frame, args []Value, call *ssa.CallCommon) Value {
			return in.freshVar("bool", SBool, 1)
		},
		"vpInt8": symScalar("int8", 8), "vpInt16": symScalar("int16", 16), "vpInt32": symScalar("int32", 32),
		"vpInt64": symScalar("int64", 64), "vpInt": symScalar("int", 64),
		"vpUint8": symScalar("uint8", 8), "vpUint16": symScalar("uint16", 16), "vpUint32": symScalar("uint32", 32),
		"vpUint64": symScalar("uint64", 64), "vpUint": symScalar("uint", 64), "vpByte": symScalar("uint8", 8),
		"vpFloat64": func(in *Interp, fr *Frame, args []Value, call *ssa.CallCommon) Value {
			return tConv(OpFFromBits, in.freshVar("float64", SBV, 64), SFP, 64)
		},
		"vpFloat32": func(in *Interp, fr *Frame, args []Value, call *ssa.CallCommon) Value {
			return tConv(OpFFromBits, in.freshVar("float32", SBV, 32), SFP, 32)
		},
		"vpString": func(in *Interp, fr *Frame, args []Value, call *ssa.CallCommon) Value {
			max := mustConstInt(args[0], "vpString max")
			n := in.chooseLogged(max + 1)
			if n == 0 {
				return Str{}
			}
			bs := make([]*Term, n)
			for i := range bs {
				bs[i] = in.freshVar("uint8", SBV, 8)
			}
			return Str{sym: bs}
		},
		"vpStringN": func(in *Interp, fr *Frame, args []Value, call *ssa.CallCommon) Value {
			n := mustConstInt(args[0], "vpStringN n")
			if n == 0 {
				return Str{}
			}
			bs := make([]*Term, n)
			for i := range bs {
				bs[i] = in.freshVar("uint8", SBV, 8)
			}
			return Str{sym: bs}
		},
		"vpChoose": func(in *Interp, fr *Frame, args []Value, call *ssa.CallCommon) Value {
			n := mustConstInt(args[0], "vpChoose n")
			return mkBV(64, uint64(in.chooseLogged(n)))
		},
		"vpTier": func(in *Interp, fr *Frame, args []Value, call *ssa.CallCommon) Value {
			return mkBV(64, uint64(in.P.tier()))
		},
		"vpAssume": func(in *Interp, fr *Frame, args []Value, call *ssa.CallCommon) Value {
			in.assume(args[0].(*Term), "vpAssume")
			return nil
		},
		"vpAssert": func(in *Interp, fr *Frame, args []Value, call *ssa.CallCommon) Value {
			in.assert(args[0].(*Term), concreteStr(args[1], "assert label"), "", nil)
			return nil
		},
		"vpAssertK": func(in *Interp, fr *Frame, args []Value, call *ssa.CallCommon) Value {
			// vpAssertK(id, inClass, cond, label)
			in.assert(args[2].(*Term), concreteStr(args[3], "assert label"), concreteStr(args[0], "finding id"), args[1].(*Term))
			return nil
		},
		"vpCover": func(in *Interp, fr *Frame, args []Value, call *ssa.CallCommon) Value {
			in.covers[concreteStr(args[0], "cover label")] = true
			return nil
		},
		"vpObserve": func(in *Interp, fr *Frame, args []Value, call *ssa.CallCommon) Value {
			in.observes = append(in.observes, obsRec{concreteStr(args[0], "observe label"), args[1].(Iface)})
			return nil
		},
		"vpUnwind": func(in *Interp, fr *Frame, args []Value, call *ssa.CallCommon) Value {
			in.unwind = mustConstInt(args[0], "unwind")
			return nil
		},
		"vpSteps": func(in *Interp, fr *Frame, args []Value, call *ssa.CallCommon) Value {
			in.maxSteps = in.steps + int64(mustConstInt(args[0], "steps"))
			return nil
		},
		"vpDepth": func(in *Interp, fr *Frame, args []Value, call *ssa.CallCommon) Value {
			in.maxDepth = in.depth + mustConstInt(args[0], "depth")
			return nil
		},
		"vpPermuteMaps": func(in *Interp, fr *Frame, args []Value, call *ssa.CallCommon) Value {
			// iteration order of every map range: 0 insertion order, 1 reversed, 2 rotated by one
			in.permMode = mustConstInt(args[0], "permute mode")
			return nil
		},
		"vpCheckpoint": func(in *Interp, fr *Frame, args []Value, call *ssa.CallCommon) Value {
			in.epoch++
			in.ckEpoch = in.epoch
			return nil
		},
		"vpSharedWrites": func(in *Interp, fr *Frame, args []Value, call *ssa.CallCommon) Value {
			if len(in.sharedW) > 0 && os.Getenv("VP_DEBUG") != "" {
				fmt.Fprintf(os.Stderr, "shared writes: %v\n", in.sharedW)
			}
			return mkBV(64, uint64(len(in.sharedW)))
		},
		"vpSharedWriteAt": func(in *Interp, fr *Frame, args []Value, call *ssa.CallCommon) Value {
			i := mustConstInt(args[0], "index")
			if i < len(in.sharedW) {
				return mkStr(in.sharedW[i])
			}
			return mkStr("")
		},
		"vpAnd": func(in *Interp, fr *Frame, args []Value, call *ssa.CallCommon) Value {
			return tAnd(args[0].(*Term), args[1].(*Term))
		},
		"vpOr": func(in *Interp, fr *Frame, args []Value, call *ssa.CallCommon) Value {
			return tOr(args[0].(*Term), args[1].(*Term))
		},
		"vpImplies": func(in *Interp, fr *Frame, args []Value, call *ssa.CallCommon) Value {
			return tOr(tNot(args[0].(*Term)), args[1].(*Term))
		},
		"vpIteInt": func(in *Interp, fr *Frame, args []Value, call *ssa.CallCommon) Value {
			return tIte(args[0].(*Term), args[1].(*Term), args[2].(*Term))
		},
		"vpPrint": func(in *Interp, fr *Frame, args []Value, call *ssa.CallCommon) Value {
			// rendered under the path's current model (symbolic parts shown by their model value)
			fmt.Fprintf(os.Stderr, "vpPrint: %s %s\n", concreteStr(args[0], "label"), in.renderObs(obsRec{"v", args[1].(Iface)}, in.ev))
			return nil
		},
		"vpIsSymbolic": func(in *Interp, fr *Frame, args []Value, call *ssa.CallCommon) Value {
			return tTrue
		},
		"vpKnownStatus": func(in *Interp, fr *Frame, args []Value, call *ssa.CallCommon) Value {
			id := concreteStr(args[0], "finding id")
			return mkBool(in.P.known(id) != nil && in.P.known(id).Status == "known")
		},
	}
}

// chooseLogged is an enumerated choice that is also an input for replay.
func (in *Interp) chooseLogged(n int) int {
	k := in.choose(n)
	in.vars = append(in.vars, varRec{Name: fmt.Sprintf("c%d", len(in.vars)), Kind: "choose", W: 64, Val: uint64(k)})
	return k
}

// assert checks cond on the current path. With a known-finding id whose status
// is "known", violations inside inClass are reported as KNOWN-FINDING.
func (in *Interp) assert(cond *Term, label, knownID string, inClass *Term) {
	kf := in.P.known(knownID)
	if knownID != "" && (kf == nil || kf.Status != "known") {
		knownID = "" // fixed or unlisted: the full assertion applies
		inClass = nil
	}
	check := func(extra *Term, known string) bool {
		// is pc && extra && !cond satisfiable?
		neg := tNot(cond)
		if neg.IsConst() && neg.val == 0 {
			return false
		}
		q := append([]*Term(nil), in.pc...)
		if extra != nil {
			if extra.IsConst() && extra.val == 0 {
				return false
			}
			q = append(q, extra)
		}
		q = append(q, neg)
		// fast path: current model already violates
		var m Model
		sat := false
		if in.ev.eval(neg) != 0 && (extra == nil || in.ev.eval(extra) != 0) {
			sat, m = true, in.model
		} else {
			res, mm, why := in.solver.Check(q, true)
			switch res {
			case Sat:
				sat, m = true, mm
			case Unknown:
				in.incon = append(in.incon, "assertion "+label+" unknown: "+why)
			case Unsat:
				// thorough tier: the deciding query is re-run one-shot on the other solvers
				if in.P.tier() > 0 && in.P.takeCrossCheck() {
					script := Standalone(q)
					for _, kind := range []string{"z3", "cvc5"} {
						r2, w2 := RunStandalone(kind, script, 60000)
						switch r2 {
						case Sat:
							in.incon = append(in.incon, "cross-solver disagreement on assertion "+label+": "+kind+" says sat")
						case Unknown:
							in.P.noteCross(kind, false)
							_ = w2
						default:
							in.P.noteCross(kind, true)
						}
					}
				}
			}
		}
		if sat {
			in.violations = append(in.violations, violation{harness: in.curHarness, label: label, model: m,
				vars: append([]varRec(nil), in.vars...), pc: q[:len(q)-1], neg: neg, known: known})
		}
		return sat
	}
	in.nAsserts++
	if knownID == "" {
		check(nil, "")
	} else {
		if check(inClass, knownID) {
			in.knownSeen[knownID] = true
		}
		check(tNot(inClass), "")
	}
	// continue only where the assertion holds - or, for a listed known finding,
	// also inside its class (the defect is there to stay; the rest of the harness still runs)
	if knownID != "" {
		in.assume(tOr(cond, inClass), "after assert "+label)
	} else {
		in.assume(cond, "after assert "+label)
	}
}

type obsRec struct {
	label string
	v     Iface
}

// renderObs evaluates an observed value under the path's model, in the same
// textual form the native vpObserve prints.
func (in *Interp) renderObs(o obsRec, ev *evalCtx) string {
	r := "?"
	if o.v.t == nil {
		return o.label + "=<nil>"
	}
	switch x := o.v.v.(type) {
	case Str:
		b := make([]byte, x.Len())
		for i := range b {
			b[i] = byte(ev.eval(x.At(i)))
		}
		r = fmt.Sprintf("%q", string(b))
	case *Term:
		v := ev.eval(x)
		s, w, signed, _ := scalarSort(o.v.t)
		switch s {
		case SBool:
			r = fmt.Sprint(v != 0)
		case SFP:
			if w == 32 {
				r = fmt.Sprintf("f%08x", v)
			} else {
				r = fmt.Sprintf("f%016x", v)
			}
		default:
			if signed {
				r = fmt.Sprint(sext64(v, w))
			} else {
				r = fmt.Sprint(v)
			}
		}
		if in.findMethod(o.v.t, "String", nil) != nil {
			r = "?" // named type with String method: native %v would call it
		}
	default:
		if in.findMethod(o.v.t, "Error", nil) != nil {
			r = "error"
		}
	}
	return o.label + "=" + r
}
