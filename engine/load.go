package main

// Loading /repo's current source with harness overlays, building SSA, package
// initialisation and state snapshots.

import (
	"fmt"
	"go/types"
	"os"
	"path/filepath"
	"sort"
	"strings"
	"sync"

	"golang.org/x/tools/go/packages"
	"golang.org/x/tools/go/ssa"
	"golang.org/x/tools/go/ssa/ssautil"
	"golang.org/x/tools/go/types/typeutil"
)

const repoMod = "github.com/freeconf/yang"

type Program struct {
	prog        *ssa.Program
	pkgs        []*packages.Package
	byPath      map[string]*ssa.Package
	harnesses   map[string]*ssa.Function // name -> fn
	runtimeErrT types.Type
	canonMu     sync.Mutex
	canonMap    typeutil.Map
	initDone    map[*ssa.Package]bool
	initFail    map[string]string
	base        *snapshot
	setups      map[string]*snapshot
	setupMu     sync.Mutex
	repoDir     string
	verifDir    string
	overlay     map[string][]byte
	loadSecs    float64
}

type snapshot struct {
	globals map[*ssa.Global]*Obj
	result  Value
	objSeq  int32
	epoch   int32
}

var initWhitelist = map[string]bool{
	"unicode": true, "unicode/utf8": true, "unicode/utf16": true, "strconv": true, "sort": true,
	"slices": true, "cmp": true, "bytes": true, "bufio": true, "container/list": true,
	"net/url": true, "math": true, "math/bits": true, "strings": true, "io": true, "path": true,
	"encoding/base64": true, "errors": true, "html": true, "maps": true, "encoding/binary": true,
	"internal/itoa": true, "io/ioutil": true, "internal/stringslite": true, "internal/bytealg": true,
}

func isRepoPkg(path string) bool {
	return path == repoMod || strings.HasPrefix(path, repoMod+"/")
}

// harnessOverlay maps virtual files in /repo to harness sources in /verif/harness.
func harnessOverlay(repo, verif string) (map[string][]byte, []string, error) {
	ov := map[string][]byte{}
	var pkgDirs []string
	hdir := filepath.Join(verif, "harness")
	ents, err := os.ReadDir(hdir)
	if err != nil {
		return nil, nil, err
	}
	tmpl, err := os.ReadFile(filepath.Join(hdir, "common", "intrinsics.go.tmpl"))
	if err != nil {
		return nil, nil, err
	}
	for _, e := range ents {
		if !e.IsDir() || e.Name() == "common" || e.Name() == "gen" {
			continue
		}
		rel := strings.ReplaceAll(e.Name(), "__", "/") // patch__xml -> patch/xml
		files, _ := filepath.Glob(filepath.Join(hdir, e.Name(), "*.go"))
		if len(files) == 0 {
			continue
		}
		pkgName := ""
		for _, f := range files {
			src, err := os.ReadFile(f)
			if err != nil {
				return nil, nil, err
			}
			if pkgName == "" {
				for _, line := range strings.Split(string(src), "\n") {
					if strings.HasPrefix(line, "package ") {
						pkgName = strings.TrimSpace(strings.TrimPrefix(line, "package "))
						break
					}
				}
			}
			ov[filepath.Join(repo, rel, "zz_vp_"+filepath.Base(f))] = src
		}
		// shared templates: every *.go.tmpl in common is instantiated unless the
		// package opts out with a file named no_<tmpl>
		tmpls, _ := filepath.Glob(filepath.Join(hdir, "common", "*.go.tmpl"))
		for _, tf := range tmpls {
			base := strings.TrimSuffix(filepath.Base(tf), ".go.tmpl")
			if base != "intrinsics" {
				if _, err := os.Stat(filepath.Join(hdir, e.Name(), "use_"+base)); err != nil {
					continue
				}
			}
			src := tmpl
			if base != "intrinsics" {
				src, _ = os.ReadFile(tf)
			}
			text := strings.Replace(string(src), "package PKG", "package "+pkgName, 1)
			if pkgName == "meta" && base != "intrinsics" {
				text = strings.Replace(text, "\t\"github.com/freeconf/yang/meta\"\n", "", 1)
				text = strings.ReplaceAll(text, "meta.", "")
			}
			if pkgName == "node" && base != "intrinsics" {
				// inside package node the API is unqualified
				text = strings.Replace(text, "\t\"github.com/freeconf/yang/node\"\n", "", 1)
				text = strings.ReplaceAll(text, "node.", "")
			}
			ov[filepath.Join(repo, rel, "zz_vp_common_"+base+".go")] = []byte(text)
		}
		pkgDirs = append(pkgDirs, "./"+rel)
	}
	sort.Strings(pkgDirs)
	return ov, pkgDirs, nil
}

func LoadProgram(repo, verif string) (*Program, error) {
	ov, dirs, err := harnessOverlay(repo, verif)
	if err != nil {
		return nil, err
	}
	cfg := &packages.Config{
		Mode:    packages.LoadAllSyntax,
		Dir:     repo,
		Overlay: ov,
		Env:     append(os.Environ(), "GOFLAGS=-mod=mod", "GOPROXY=off", "GOSUMDB=off", "GOTOOLCHAIN=local"),
	}
	pkgs, err := packages.Load(cfg, dirs...)
	if err != nil {
		return nil, err
	}
	nerr := 0
	packages.Visit(pkgs, nil, func(p *packages.Package) {
		for _, e := range p.Errors {
			if isRepoPkg(p.PkgPath) {
				fmt.Fprintf(os.Stderr, "load error: %s: %v\n", p.PkgPath, e)
				nerr++
			}
		}
	})
	if nerr > 0 {
		return nil, fmt.Errorf("%d load errors in repo/harness packages", nerr)
	}
	prog, _ := ssautil.AllPackages(pkgs, ssa.InstantiateGenerics)
	P := &Program{prog: prog, pkgs: pkgs, byPath: map[string]*ssa.Package{}, harnesses: map[string]*ssa.Function{},
		initDone: map[*ssa.Package]bool{}, initFail: map[string]string{}, setups: map[string]*snapshot{}, repoDir: repo, verifDir: verif, overlay: ov}
	for _, p := range prog.AllPackages() {
		P.byPath[p.Pkg.Path()] = p
	}
	// build harness packages and their repo deps eagerly; others lazily
	for _, p := range pkgs {
		sp := prog.Package(p.Types)
		if sp == nil {
			continue
		}
		sp.Build()
		for name, m := range sp.Members {
			if f, ok := m.(*ssa.Function); ok && strings.HasPrefix(name, "H_") {
				P.harnesses[name] = f
			}
		}
	}
	if rt := P.byPath["runtime"]; rt != nil {
		if t := rt.Type("errorString"); t != nil {
			P.runtimeErrT = P.canonType(t.Type())
		}
	}
	if P.runtimeErrT == nil {
		return nil, fmt.Errorf("runtime.errorString not found")
	}
	return P, nil
}

func (p *Program) funcByName(pkg, name string) *ssa.Function {
	sp := p.byPath[pkg]
	if sp == nil {
		return nil
	}
	sp.Build()
	return sp.Func(name)
}

func (p *Program) initialized(pkg *ssa.Package) bool { return pkg == nil || p.initDone[pkg] }

func (p *Program) ensureInit(in *Interp, pkg *ssa.Package) {}

// boot runs package initialisers (repo packages + whitelisted library
// packages) once and takes the base snapshot.
func (p *Program) boot() error {
	in := newInterp(p, nil)
	in.initing = true
	in.maxSteps = 1 << 40
	in.unwind = 1 << 30
	var order []*ssa.Package
	seen := map[*types.Package]bool{}
	var visit func(tp *types.Package)
	visit = func(tp *types.Package) {
		if seen[tp] {
			return
		}
		seen[tp] = true
		for _, imp := range tp.Imports() {
			visit(imp)
		}
		if sp := p.prog.Package(tp); sp != nil && (isRepoPkg(tp.Path()) || initWhitelist[tp.Path()]) {
			order = append(order, sp)
		}
	}
	for _, pk := range p.pkgs {
		visit(pk.Types)
	}
	for _, sp := range order {
		sp.Build()
		initFn := sp.Func("init")
		if initFn == nil {
			p.initDone[sp] = true
			continue
		}
		func() {
			defer func() {
				if r := recover(); r != nil {
					switch e := r.(type) {
					case inconclusiveErr:
						p.initFail[sp.Pkg.Path()] = e.why
					case targetPanic:
						p.initFail[sp.Pkg.Path()] = "panic: " + e.msg
					default:
						panic(r)
					}
				}
			}()
			before := in.objSeq
			in.curInitPkg = sp
			in.callFunction(initFn, nil, nil, nil, nil)
			p.initDone[sp] = true
			_ = before
		}()
		if _, failed := p.initFail[sp.Pkg.Path()]; failed {
			// drop partially initialised globals so that reads are flagged
			for _, m := range sp.Members {
				if g, ok := m.(*ssa.Global); ok {
					delete(in.globals, g)
				}
			}
		}
	}
	// freeze library data
	fz := &freezer{seenO: map[*Obj]bool{}, seenM: map[*MapObj]bool{}}
	for g, o := range in.globals {
		if g.Pkg != nil && !isRepoPkg(g.Pkg.Pkg.Path()) {
			fz.obj(o)
		}
	}
	p.base = &snapshot{globals: in.globals, objSeq: in.objSeq, epoch: in.epoch}
	return nil
}

type freezer struct {
	seenO map[*Obj]bool
	seenM map[*MapObj]bool
}

func (f *freezer) obj(o *Obj) {
	if o == nil || f.seenO[o] {
		return
	}
	f.seenO[o] = true
	o.frozen = true
	for _, c := range o.cells {
		f.val(c)
	}
}
func (f *freezer) val(v Value) {
	switch x := v.(type) {
	case Ptr:
		f.obj(x.obj)
	case Slice:
		f.obj(x.obj)
	case *MapObj:
		if x != nil && !f.seenM[x] {
			f.seenM[x] = true
			x.frozen = true
			for _, e := range x.entries {
				f.val(e.k)
				f.val(e.v)
			}
		}
	case Iface:
		f.val(x.v)
	case Agg:
		for _, c := range x {
			f.val(c)
		}
	case *Closure:
		if x != nil {
			for _, c := range x.fv {
				f.val(c)
			}
		}
	}
}

// restore gives the interpreter a private copy of a snapshot.
func (in *Interp) restore(s *snapshot) Value {
	c := newCopier()
	in.globals = make(map[*ssa.Global]*Obj, len(s.globals))
	for g, o := range s.globals {
		in.globals[g] = c.obj(o)
	}
	in.objSeq = s.objSeq
	in.epoch = s.epoch + 1
	return c.val(s.result)
}

// setupSnapshot runs a setup function S_name once (concretely) on a copy of
// the base state and snapshots the state together with its result.
func (p *Program) setupSnapshot(name string, pkg *ssa.Package) (*snapshot, error) {
	p.setupMu.Lock()
	defer p.setupMu.Unlock()
	key := pkg.Pkg.Path() + "." + name
	if s, ok := p.setups[key]; ok {
		return s, nil
	}
	fn := pkg.Func(name)
	if fn == nil {
		return nil, fmt.Errorf("setup function %s not found in %s", name, pkg.Pkg.Path())
	}
	in := newInterp(p, nil)
	in.restore(p.base)
	in.maxSteps = 1 << 32
	in.unwind = 1 << 30
	in.setModel(Model{})
	var res Value
	var err error
	func() {
		defer func() {
			if r := recover(); r != nil {
				switch e := r.(type) {
				case inconclusiveErr:
					err = fmt.Errorf("setup %s inconclusive: %s", name, e.why)
				case targetPanic:
					err = fmt.Errorf("setup %s panicked: %s", name, e.msg)
				case pathEnd:
					err = fmt.Errorf("setup %s ended path: %s", name, e.why)
				default:
					panic(r)
				}
			}
		}()
		res = in.callFunction(fn, nil, nil, nil, nil)
	}()
	if err != nil {
		return nil, err
	}
	if len(in.decisions) > 0 || in.nvar > 0 {
		return nil, fmt.Errorf("setup %s made symbolic decisions", name)
	}
	s := &snapshot{globals: in.globals, result: res, objSeq: in.objSeq, epoch: in.epoch}
	p.setups[key] = s
	p.setupFuncs(in)
	return s, nil
}

func (p *Program) setupFuncs(in *Interp) {}

func newInterp(p *Program, solver *Solver) *Interp {
	in := &Interp{P: p, ti: &typeInfo{layouts: map[types.Type]*layout{}}, globals: map[*ssa.Global]*Obj{}, solver: solver,
		canonP: map[types.Type]types.Type{}, methods: map[methodKey]*ssa.Function{}, models: map[*ssa.Function]modelFn{},
		covers: map[string]bool{}, knownSeen: map[string]bool{}, funcsHit: map[*ssa.Function]bool{}, stubsHit: map[string]bool{}, assumes: map[string]bool{},
		maxSteps: 50_000_000, maxDepth: 3000, unwind: 10000}
	in.setModel(Model{})
	return in
}
