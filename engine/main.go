package main

import (
	"encoding/json"
	"fmt"
	"os"
	"path/filepath"
	"runtime"
	"runtime/pprof"
	"sort"
	"strconv"
	"strings"
	"sync"
	"time"

	"golang.org/x/tools/go/ssa"
)

type KnownFinding struct {
	ID       string `json:"id"`
	Property string `json:"property"`
	Status   string `json:"status"` // known | fixed
	What     string `json:"what"`
	Commit   string `json:"commit,omitempty"`
}

var (
	gTier     = 0
	gFindings = map[string]*KnownFinding{}
)

func (p *Program) tier() int { return gTier }

// cross-solver re-checks of deciding (unsat) assertion queries, thorough tier, capped per run
var (
	crossMu      sync.Mutex
	crossBudget  = 300
	crossAgreed  = map[string]int{}
	crossUnknown = map[string]int{}
)

func (p *Program) takeCrossCheck() bool {
	crossMu.Lock()
	defer crossMu.Unlock()
	if crossBudget <= 0 {
		return false
	}
	crossBudget--
	return true
}

func (p *Program) noteCross(kind string, agreed bool) {
	crossMu.Lock()
	defer crossMu.Unlock()
	if agreed {
		crossAgreed[kind]++
	} else {
		crossUnknown[kind]++
	}
}
func (p *Program) known(id string) *KnownFinding {
	if id == "" {
		return nil
	}
	return gFindings[id]
}

func loadFindings(verif string) error {
	b, err := os.ReadFile(filepath.Join(verif, "known_findings.json"))
	if err != nil {
		if os.IsNotExist(err) {
			return nil
		}
		return err
	}
	var f struct {
		Findings []KnownFinding `json:"findings"`
	}
	if err := json.Unmarshal(b, &f); err != nil {
		return err
	}
	for i := range f.Findings {
		gFindings[f.Findings[i].ID] = &f.Findings[i]
	}
	return nil
}

func usage() {
	fmt.Fprintln(os.Stderr, "usage: vpcheck <Cxx> quick|thorough [-only substr] | vpcheck list | vpcheck replay <file>")
	os.Exit(2)
}

func envOr(k, d string) string {
	if v := os.Getenv(k); v != "" {
		return v
	}
	return d
}

func main() {
	if len(os.Args) < 2 {
		usage()
	}

	repo := envOr("VP_REPO", "/repo")
	// the verification tree is where the check was started (./check cds to its own directory),
	// so a snapshot of /verif runs entirely from the snapshot
	cwd, _ := os.Getwd()
	if _, err := os.Stat(filepath.Join(cwd, "harness")); err != nil {
		cwd = "/verif"
	}
	verif := envOr("VP_VERIF", cwd)
	if err := loadFindings(verif); err != nil {
		fmt.Println("INCONCLUSIVE cannot read known_findings.json:", err)
		os.Exit(2)
	}
	switch os.Args[1] {
	case "list":
		P, err := LoadProgram(repo, verif)
		if err != nil {
			fmt.Println("load failed:", err)
			os.Exit(2)
		}
		var names []string
		for n := range P.harnesses {
			names = append(names, n)
		}
		sort.Strings(names)
		for _, n := range names {
			fmt.Println(n, P.harnesses[n].Pkg.Pkg.Path())
		}
		return
	case "replay":
		if len(os.Args) < 3 {
			usage()
		}
		os.Exit(replayCmd(repo, verif, os.Args[2]))
	}
	if len(os.Args) < 3 {
		usage()
	}
	prop := os.Args[1]
	tier := os.Args[2]
	if v := os.Getenv("VERIF_TIER"); v == "quick" || v == "thorough" {
		tier = v
	}
	if tier == "thorough" {
		gTier = 1
	}
	only := ""
	for i := 3; i+1 < len(os.Args); i += 2 {
		if os.Args[i] == "-only" {
			only = os.Args[i+1]
		}
	}
	os.Exit(checkCmd(repo, verif, prop, tier, only))
}

func replayCmd(repo, verif, file string) int {
	b, err := os.ReadFile(file)
	if err != nil {
		fmt.Println(err)
		return 2
	}
	var rf replayFile
	if err := json.Unmarshal(b, &rf); err != nil {
		fmt.Println(err)
		return 2
	}
	P, err := LoadProgram(repo, verif)
	if err != nil {
		fmt.Println("load failed:", err)
		return 2
	}
	scratch, _ := os.MkdirTemp("", "vpreplay")
	defer os.RemoveAll(scratch)
	rc := 0
	byPkg := map[string][]replayCase{}
	for _, c := range rf.Cases {
		byPkg[c.Pkg] = append(byPkg[c.Pkg], c)
	}
	for rel, cases := range byPkg {
		outs, raw, err := P.runNative(rel, cases, scratch)
		if err != nil {
			fmt.Println("replay failed:", err)
			return 2
		}
		if os.Getenv("VP_DEBUG") != "" {
			fmt.Println(raw)
		}
		for i, o := range outs {
			fmt.Printf("replay %s: expected %s %q, native %s %q %s\n", cases[i].Harness, cases[i].Expect, cases[i].Label, o.Result, o.Label, o.Msg)
			if o.Result == "error" {
				fmt.Println(raw)
				rc = 2
			} else if o.Result == "fail" || o.Result == "panic" {
				if rc == 0 {
					rc = 1
				}
			}
		}
	}
	return rc
}

func checkCmd(repo, verif, prop, tier, only string) int {
	start := time.Now()
	seed, _ := strconv.Atoi(os.Getenv("VERIF_SEED"))
	P, err := LoadProgram(repo, verif)
	if err != nil {
		fmt.Println("INCONCLUSIVE load failed:", err)
		writeEvidenceFailure(verif, prop, tier, seed, "load failed: "+err.Error(), time.Since(start))
		return 2
	}
	loadT := time.Since(start)
	if err := P.boot(); err != nil {
		fmt.Println("INCONCLUSIVE boot failed:", err)
		writeEvidenceFailure(verif, prop, tier, seed, "boot failed: "+err.Error(), time.Since(start))
		return 2
	}
	bootT := time.Since(start) - loadT
	if pf := os.Getenv("VP_PROF"); pf != "" {
		f, _ := os.Create(pf)
		pprof.StartCPUProfile(f)
		go func() {
			time.Sleep(45 * time.Second)
			pprof.StopCPUProfile()
			f.Close()
		}()
	}
	var names []string
	for n := range P.harnesses {
		if strings.HasPrefix(n, "H_"+prop+"_") && (only == "" || strings.Contains(n, only)) {
			if tier == "quick" && strings.Contains(n, "_T_") {
				continue // thorough-only harness
			}
			names = append(names, n)
		}
	}
	sort.Strings(names)
	if len(names) == 0 {
		fmt.Println("INCONCLUSIVE no harness for", prop)
		return 2
	}
	fmt.Printf("vpcheck %s %s: %d harnesses, load %.1fs boot %.1fs\n", prop, tier, len(names), loadT.Seconds(), bootT.Seconds())
	for pk, why := range P.initFail {
		debugf("init of %s skipped: %s", pk, why)
	}
	o := runOpts{workers: runtime.NumCPU(), maxPaths: 60000, timeoutMs: 10000, witnesses: 3}
	if tier == "thorough" {
		o.maxPaths = 400000
		o.timeoutMs = 60000
		o.witnesses = 20
	}
	if v := os.Getenv("VP_WORKERS"); v != "" {
		o.workers, _ = strconv.Atoi(v)
	}
	var results []*HarnessResult
	for _, n := range names {
		r := P.runHarness(n, P.harnesses[n], o)
		results = append(results, r)
		status := "ok"
		if len(r.Incon) > 0 {
			status = "INCONCLUSIVE"
		}
		nv := 0
		for _, v := range r.Violations {
			if v.known == "" {
				nv++
			}
		}
		if nv > 0 {
			status = fmt.Sprintf("%d candidate violation(s)", nv)
		}
		fmt.Printf("  %-50s paths=%-6d queries=%-6d %.1fs %s\n", n, r.Paths, r.Queries, r.Wall.Seconds(), status)
		for _, s := range r.Incon {
			fmt.Printf("      inconclusive: %s\n", firstLines(s, 30))
		}
	}
	return finish(P, verif, prop, tier, seed, results, start)
}

func firstLines(s string, n int) string {
	l := strings.Split(s, "\n")
	if len(l) > n {
		l = l[:n]
	}
	return strings.Join(l, "\n        ")
}

func knownIDsWithStatusKnown() []string {
	var out []string
	for id, f := range gFindings {
		if f.Status == "known" {
			out = append(out, id)
		}
	}
	sort.Strings(out)
	return out
}

// finish replays candidates natively, prints the verdict lines and writes evidence.
func finish(P *Program, verif, prop, tier string, seed int, results []*HarnessResult, start time.Time) int {
	scratch, _ := os.MkdirTemp("", "vpcheck")
	defer os.RemoveAll(scratch)
	os.MkdirAll(filepath.Join(verif, "replays"), 0o755)
	type pending struct {
		c    replayCase
		kind string // cex | witness | known
		r    *HarnessResult
		v    *violation
	}
	byPkg := map[string][]pending{}
	for _, r := range results {
		fn := P.harnesses[r.Name]
		rel := pkgRelDir(fn.Pkg.Pkg.Path())
		for i := range r.Violations {
			v := &r.Violations[i]
			c := replayCase{Property: prop, Harness: r.Name, Pkg: rel, Tier: gTier, Inputs: inputsOf(v.vars, v.model), Expect: "fail", Label: v.label, Known: knownIDsWithStatusKnown()}
			if v.panicS != "" {
				c.Expect = "panic"
				c.Note = v.panicS
			}
			kind := "cex"
			if v.known != "" {
				kind = "known"
			}
			byPkg[rel] = append(byPkg[rel], pending{c: c, kind: kind, r: r, v: v})
		}
		if !r.Permute {
			for _, w := range r.Witnesses {
				var ins []replayInput
				for _, x := range w.inputs {
					if !strings.HasPrefix(x.Kind, "_") {
						ins = append(ins, replayInput{Kind: x.Kind, Val: x.Val})
					}
				}
				c := replayCase{Property: prop, Harness: r.Name, Pkg: rel, Tier: gTier, Inputs: ins, Expect: "pass", Label: strings.Join(w.covers, ","), Obs: w.obs, Known: knownIDsWithStatusKnown()}
				byPkg[rel] = append(byPkg[rel], pending{c: c, kind: "witness", r: r})
			}
		}
	}
	violations := 0
	mismatches := 0
	validated := 0
	knownPrinted := map[string]bool{}
	var violationLines []string
	for rel, ps := range byPkg {
		cases := make([]replayCase, len(ps))
		for i, p := range ps {
			cases[i] = p.c
		}
		outs, raw, err := P.runNative(rel, cases, scratch)
		if err != nil {
			fmt.Println("INCONCLUSIVE native replay failed:", err)
			mismatches++
			continue
		}
		rawShown := false
		for i, p := range ps {
			o := outs[i]
			switch p.kind {
			case "witness":
				if o.Result == "pass" && obsEqual(p.c.Obs, o.Obs) {
					validated++
				} else if o.Result == "pass" {
					mismatches++
					fmt.Printf("ENGINE-MISMATCH %s: observations differ\n  interp: %v\n  native: %v\n  inputs=%v\n", p.r.Name, p.c.Obs, o.Obs, p.c.Inputs)
				} else {
					mismatches++
					fmt.Printf("ENGINE-MISMATCH %s: interpreter path passes, native run: %s %s %s inputs=%v\n", p.r.Name, o.Result, o.Label, o.Msg, p.c.Inputs)
					if o.Result == "error" && !rawShown {
						fmt.Println(raw)
						rawShown = true
					}
				}
			case "known":
				hit := false
				for _, l := range o.Known {
					if l == p.v.label {
						hit = true
					}
				}
				if rn := raceDirective(P.harnesses[p.r.Name]); rn != "" && !(o.Result == "fail" || o.Result == "panic" || hit) {
					if raced, _ := P.runRace(rel, rn, scratch); raced {
						hit = true
					}
				}
				if o.Result == "fail" || o.Result == "panic" || hit {
					validated++
					if !knownPrinted[p.v.known] {
						knownPrinted[p.v.known] = true
						f := gFindings[p.v.known]
						fmt.Printf("KNOWN-FINDING: property=%s %s (%s; harness %s label %q)\n", prop, f.What, f.ID, p.r.Name, p.v.label)
					}
				} else {
					mismatches++
					fmt.Printf("ENGINE-MISMATCH %s: known finding %s predicted to fail at %q but native run: %s %s\n", p.r.Name, p.v.known, p.v.label, o.Result, o.Msg)
				}
			case "cex":
				confirmed := (o.Result == "fail" || o.Result == "panic")
				if rn := raceDirective(P.harnesses[p.r.Name]); !confirmed && rn != "" {
					// a shared-write finding: confirmed by the race detector on a concurrent native run
					raced, rout := P.runRace(rel, rn, scratch)
					if raced {
						confirmed = true
						o.Result, o.Msg = "fail", "race detector: DATA RACE in "+rn
					} else if os.Getenv("VP_DEBUG") != "" {
						fmt.Println(rout)
					}
				}
				if confirmed {
					validated++
					violations++
					path := filepath.Join(verif, "replays", fmt.Sprintf("%s-%s-%s.json", prop, sanitize(p.r.Name), caseHash(p.c)))
					p.c.Note = fmt.Sprintf("native: %s %s %s", o.Result, o.Label, o.Msg)
					b, _ := json.MarshalIndent(replayFile{Cases: []replayCase{p.c}}, "", " ")
					os.WriteFile(path, b, 0o644)
					violationLines = append(violationLines, fmt.Sprintf("VIOLATION property=%s replay=%s", prop, path))
					fmt.Printf("  violated: %s label=%q native=%s %s %s\n", p.r.Name, p.v.label, o.Result, o.Label, o.Msg)
				} else {
					mismatches++
					fmt.Printf("ENGINE-MISMATCH %s: counterexample for %q does not reproduce natively (%s %s %s) inputs=%v\n", p.r.Name, p.v.label, o.Result, o.Label, o.Msg, p.c.Inputs)
					if o.Result == "error" && !rawShown {
						fmt.Println(raw)
						rawShown = true
					}
				}
			}
		}
	}
	incon := mismatches
	for _, r := range results {
		incon += len(r.Incon)
	}
	// findings listed as known for this property but not observed any more
	for id, f := range gFindings {
		if f.Property == prop && f.Status == "known" && !knownPrinted[id] {
			fmt.Printf("note: known finding %s was not reproduced by this run\n", id)
		}
	}
	writeEvidence(P, verif, prop, tier, seed, results, validated, violations, incon, time.Since(start))
	for _, l := range violationLines {
		fmt.Println(l)
	}
	switch {
	case violations > 0:
		return 1
	case incon > 0:
		fmt.Printf("INCONCLUSIVE property=%s (%d inconclusive items)\n", prop, incon)
		return 2
	}
	fmt.Printf("OK property=%s tier=%s wall=%.1fs\n", prop, tier, time.Since(start).Seconds())
	return 0
}

// ---- evidence -------------------------------------------------------------

func writeEvidenceFailure(verif, prop, tier string, seed int, why string, wall time.Duration) {
	ev := map[string]interface{}{
		"property_id": prop, "tier": tier, "seed": seed, "level": "model_checking",
		"coverage":    map[string]interface{}{"evaluations": 0, "distinct_nontrivial": 0, "explanation": why},
		"assumptions": []string{}, "wall_s": wall.Seconds(), "violations": 0,
	}
	b, _ := json.MarshalIndent(ev, "", " ")
	os.MkdirAll(filepath.Join(verif, "evidence"), 0o755)
	os.WriteFile(filepath.Join(verif, "evidence", prop+".json"), b, 0o644)
}

func writeEvidence(P *Program, verif, prop, tier string, seed int, results []*HarnessResult, validated, violations, incon int, wall time.Duration) {
	paths, branches, queries, qunsat, qsat, qunk := 0, int64(0), 0, 0, 0, 0
	var asserts, steps int64
	var solverT time.Duration
	funcs := map[string]bool{}
	stubs := map[string]bool{}
	var samples []interface{}
	var harnessRows []interface{}
	knownSeen := map[string]bool{}
	for _, r := range results {
		paths += r.Paths
		branches += r.Branches
		asserts += r.Asserts
		steps += r.Steps
		queries += r.Queries
		qunsat += r.QUnsat
		qsat += r.QSat
		qunk += r.QUnk
		solverT += r.SolverTime
		for f := range r.Funcs {
			if f.Pkg != nil && isRepoPkg(f.Pkg.Pkg.Path()) && !strings.HasPrefix(f.Name(), "vp") && !strings.HasPrefix(f.Name(), "H_") {
				funcs[funcPos(P, f)] = true
			}
		}
		for s := range r.Stubs {
			stubs[s] = true
		}
		for k := range r.KnownSeen {
			knownSeen[k] = true
		}
		var vars []string
		for _, v := range r.SampleVars {
			vars = append(vars, fmt.Sprintf("%s=%d", v.Kind, v.Val))
		}
		row := map[string]interface{}{"harness": r.Name, "paths": r.Paths, "branch_decisions": r.Branches, "assertions_checked": r.Asserts,
			"queries": r.Queries, "wall_s": r.Wall.Seconds(), "covers": keys(r.Covers), "inconclusive": r.Incon}
		harnessRows = append(harnessRows, row)
		if len(samples) < 12 && len(vars) > 0 {
			samples = append(samples, map[string]interface{}{"harness": r.Name, "one_explored_path_inputs": vars})
		}
	}
	if len(samples) == 0 {
		samples = append(samples, map[string]interface{}{"note": "no path completed"})
	}
	tr := branches
	if tr < 1 {
		tr = 1
	}
	st := paths
	if st < 1 {
		st = 1
	}
	cov := map[string]interface{}{
		"states":                        st,
		"transitions":                   tr,
		"traces_validated_against_impl": validated,
		"samples":                       samples,
		"harnesses":                     harnessRows,
		"functions_encoded":             keys(funcs),
		"stubs_hit":                     keys(stubs),
		"assertions_checked":            asserts,
		"ssa_steps_interpreted":         steps,
		"queries":                       queries,
		"queries_unsat":                 qunsat,
		"queries_sat":                   qsat,
		"queries_unknown":               qunk,
		"solver_time_s":                 solverT.Seconds(),
		"solver":                        "z3 5.1.0 (z3-new; one process per worker, check-sat-assuming); floating-point and timed-out queries one-shot on z3 4.8.12, z3 5.1.0, cvc5 1.0",
		"known_findings_seen":           keys(knownSeen),
		"cross_solver_agreed":           crossAgreed,
		"cross_solver_unknown":          crossUnknown,
		"inconclusive_items":            incon,
		"explanation":                   "states = completed feasible paths of the symbolically executed harnesses; transitions = symbolic branch decisions; every assertion is decided by an SMT query over all values of the symbolic inputs within the harness bounds",
	}
	assum := []string{
		"SSA built by golang.org/x/tools/go/ssa v0.29.0 from /repo's current working tree with harness overlays",
		"int/uint are 64-bit; float->int conversion out of range yields an unconstrained value",
		"library models listed in coverage.stubs_hit; everything else is interpreted from source",
	}
	ev := map[string]interface{}{
		"property_id": prop, "tier": tier, "seed": seed, "level": "model_checking",
		"coverage": cov, "assumptions": assum, "wall_s": wall.Seconds(), "violations": violations,
	}
	b, _ := json.MarshalIndent(ev, "", " ")
	os.MkdirAll(filepath.Join(verif, "evidence"), 0o755)
	os.WriteFile(filepath.Join(verif, "evidence", prop+".json"), b, 0o644)
}

func funcPos(P *Program, f *ssa.Function) string {
	pos := P.prog.Fset.Position(f.Pos())
	file := strings.TrimPrefix(pos.Filename, P.repoDir+"/")
	return fmt.Sprintf("%s (%s:%d)", f.String(), file, pos.Line)
}

func keys(m map[string]bool) []string {
	out := make([]string, 0, len(m))
	for k := range m {
		out = append(out, k)
	}
	sort.Strings(out)
	return out
}

func obsEqual(pred, nat []string) bool {
	if len(pred) != len(nat) {
		return false
	}
	for i := range pred {
		if strings.HasSuffix(pred[i], "=?") {
			continue
		}
		if pred[i] != nat[i] {
			return false
		}
	}
	return true
}
