package main

// Models of library functions that cannot (or should not) be interpreted
// from their source.  Each model is part of the trusted base and is recorded
// in evidence when hit.

import (
	"bytes"
	"encoding/base64"
	"fmt"
	"go/types"
	"math"
	"net/url"
	"path"
	"reflect"
	"regexp"
	"strconv"
	"strings"
	"unicode"
	"unicode/utf8"

	"golang.org/x/tools/go/ssa"
)

var modelTable = map[string]modelFn{}

// notHandled is returned by a model that wants the real body interpreted.
type notHandledT struct{}

var notHandled = notHandledT{}

// natives: pure library functions executed by the real Go implementation when
// every argument is concrete (and no non-nil error is returned).
var natives = map[string]interface{}{
	"strings.Index": strings.Index, "strings.IndexByte": strings.IndexByte, "strings.IndexRune": strings.IndexRune,
	"strings.IndexAny": strings.IndexAny, "strings.LastIndex": strings.LastIndex, "strings.LastIndexByte": strings.LastIndexByte,
	"strings.Contains": strings.Contains, "strings.ContainsRune": strings.ContainsRune, "strings.ContainsAny": strings.ContainsAny,
	"strings.HasPrefix": strings.HasPrefix, "strings.HasSuffix": strings.HasSuffix, "strings.Split": strings.Split,
	"strings.SplitN": strings.SplitN, "strings.Join": strings.Join, "strings.TrimSpace": strings.TrimSpace,
	"strings.Trim": strings.Trim, "strings.TrimLeft": strings.TrimLeft, "strings.TrimRight": strings.TrimRight,
	"strings.TrimPrefix": strings.TrimPrefix, "strings.TrimSuffix": strings.TrimSuffix, "strings.ToLower": strings.ToLower,
	"strings.ToUpper": strings.ToUpper, "strings.Repeat": strings.Repeat, "strings.Replace": strings.Replace,
	"strings.ReplaceAll": strings.ReplaceAll, "strings.Fields": strings.Fields, "strings.Count": strings.Count,
	"strings.EqualFold": strings.EqualFold, "strings.Compare": strings.Compare, "strings.Title": strings.Title,
	"strings.Cut": strings.Cut, "strings.LastIndexAny": strings.LastIndexAny,
	"strconv.Itoa": strconv.Itoa, "strconv.FormatInt": strconv.FormatInt, "strconv.FormatUint": strconv.FormatUint,
	"strconv.FormatFloat": strconv.FormatFloat, "strconv.FormatBool": strconv.FormatBool, "strconv.Quote": strconv.Quote,
	"strconv.Atoi": strconv.Atoi, "strconv.ParseInt": strconv.ParseInt, "strconv.ParseUint": strconv.ParseUint,
	"strconv.ParseFloat": strconv.ParseFloat, "strconv.ParseBool": strconv.ParseBool, "strconv.Unquote": strconv.Unquote,
	"unicode.IsSpace": unicode.IsSpace, "unicode.IsLetter": unicode.IsLetter, "unicode.IsDigit": unicode.IsDigit,
	"unicode.IsUpper": unicode.IsUpper, "unicode.IsLower": unicode.IsLower, "unicode.ToUpper": unicode.ToUpper,
	"unicode.ToLower": unicode.ToLower, "unicode.IsPunct": unicode.IsPunct, "unicode.IsControl": unicode.IsControl,
	"unicode.IsNumber": unicode.IsNumber, "unicode.IsPrint": unicode.IsPrint,
	"unicode/utf8.RuneLen": utf8.RuneLen, "unicode/utf8.ValidString": utf8.ValidString, "unicode/utf8.RuneCountInString": utf8.RuneCountInString,
	"unicode/utf8.DecodeRuneInString": utf8.DecodeRuneInString, "unicode/utf8.DecodeLastRuneInString": utf8.DecodeLastRuneInString,
	"unicode/utf8.ValidRune": utf8.ValidRune, "unicode/utf8.FullRuneInString": utf8.FullRuneInString,
	"net/url.QueryUnescape": url.QueryUnescape, "net/url.QueryEscape": url.QueryEscape, "net/url.PathEscape": url.PathEscape, "net/url.PathUnescape": url.PathUnescape,
	"path.Base": path.Base, "path.Dir": path.Dir, "path.Join": path.Join, "path.Ext": path.Ext, "path.Clean": path.Clean,
	"math.Floor": math.Floor, "math.Ceil": math.Ceil, "math.Trunc": math.Trunc, "math.Pow": math.Pow, "math.Abs": math.Abs,
	"math.IsNaN": math.IsNaN, "math.IsInf": math.IsInf, "math.Inf": math.Inf, "math.NaN": math.NaN, "math.Mod": math.Mod,
	"math.Log10": math.Log10, "math.Round": math.Round, "math.Modf": math.Modf, "math.Sqrt": math.Sqrt,
	"bytes.Equal": bytes.Equal, "bytes.Compare": bytes.Compare, "bytes.IndexByte": bytes.IndexByte, "bytes.Index": bytes.Index,
	"bytes.HasPrefix": bytes.HasPrefix, "bytes.HasSuffix": bytes.HasSuffix, "bytes.TrimSpace": bytes.TrimSpace, "bytes.Contains": bytes.Contains,
}

var abstractInErr = map[string]bool{"strconv.Itoa": true, "strconv.FormatInt": true, "strconv.FormatUint": true, "strconv.FormatFloat": true, "strconv.Quote": true}

var errorIface = types.Universe.Lookup("error").Type().Underlying().(*types.Interface)

// toNative converts a concrete engine value into a Go value of type rt.
func (in *Interp) toNative(v Value, rt reflect.Type) (reflect.Value, bool) {
	switch rt.Kind() {
	case reflect.String:
		s, ok := v.(Str)
		if !ok || !s.IsConcrete() {
			return reflect.Value{}, false
		}
		return reflect.ValueOf(s.Concrete()).Convert(rt), true
	case reflect.Bool:
		t := v.(*Term)
		if !t.IsConst() {
			return reflect.Value{}, false
		}
		return reflect.ValueOf(t.val != 0).Convert(rt), true
	case reflect.Int, reflect.Int8, reflect.Int16, reflect.Int32, reflect.Int64:
		t := v.(*Term)
		if !t.IsConst() {
			return reflect.Value{}, false
		}
		r := reflect.New(rt).Elem()
		r.SetInt(sext64(t.val, t.w))
		return r, true
	case reflect.Uint, reflect.Uint8, reflect.Uint16, reflect.Uint32, reflect.Uint64:
		t := v.(*Term)
		if !t.IsConst() {
			return reflect.Value{}, false
		}
		r := reflect.New(rt).Elem()
		r.SetUint(t.val)
		return r, true
	case reflect.Float64, reflect.Float32:
		t := v.(*Term)
		if !t.IsConst() {
			return reflect.Value{}, false
		}
		r := reflect.New(rt).Elem()
		r.SetFloat(bits2f(t.w, t.val))
		return r, true
	case reflect.Slice:
		s, ok := v.(Slice)
		if !ok {
			return reflect.Value{}, false
		}
		out := reflect.MakeSlice(rt, s.len, s.len)
		for i := 0; i < s.len; i++ {
			e, ok := in.toNative(s.obj.cells[s.off+i], rt.Elem())
			if !ok {
				return reflect.Value{}, false
			}
			out.Index(i).Set(e)
		}
		if s.obj == nil {
			return reflect.Zero(rt), true
		}
		return out, true
	}
	return reflect.Value{}, false
}

func (in *Interp) fromNative(rv reflect.Value) (Value, bool) {
	switch rv.Kind() {
	case reflect.String:
		return mkStr(rv.String()), true
	case reflect.Bool:
		return mkBool(rv.Bool()), true
	case reflect.Int, reflect.Int64:
		return mkBV(64, uint64(rv.Int())), true
	case reflect.Int8:
		return mkBV(8, uint64(rv.Int())), true
	case reflect.Int16:
		return mkBV(16, uint64(rv.Int())), true
	case reflect.Int32:
		return mkBV(32, uint64(rv.Int())), true
	case reflect.Uint, reflect.Uint64, reflect.Uintptr:
		return mkBV(64, rv.Uint()), true
	case reflect.Uint8:
		return mkBV(8, rv.Uint()), true
	case reflect.Uint16:
		return mkBV(16, rv.Uint()), true
	case reflect.Uint32:
		return mkBV(32, rv.Uint()), true
	case reflect.Float64:
		return mkConst(SFP, 64, math.Float64bits(rv.Float())), true
	case reflect.Float32:
		return mkConst(SFP, 32, uint64(math.Float32bits(float32(rv.Float())))), true
	case reflect.Slice:
		if rv.IsNil() {
			return Slice{}, true
		}
		n := rv.Len()
		o := in.newObj(n, "native result")
		for i := 0; i < n; i++ {
			e, ok := in.fromNative(rv.Index(i))
			if !ok {
				return nil, false
			}
			o.cells[i] = e
		}
		return Slice{o, 0, n, n}, true
	case reflect.Interface:
		if rv.IsNil() {
			return Iface{}, true
		}
		return nil, false
	}
	return nil, false
}

func nativeModel(name string, f interface{}) modelFn {
	fv := reflect.ValueOf(f)
	ft := fv.Type()
	return func(in *Interp, fr *Frame, args []Value, call *ssa.CallCommon) Value {
		if ft.IsVariadic() || len(args) != ft.NumIn() {
			return notHandled
		}
		ins := make([]reflect.Value, len(args))
		for i, a := range args {
			v, ok := in.toNative(a, ft.In(i))
			if !ok {
				if name == "strconv.FormatFloat" && in.errFmt == 0 {
					panic(inconclusive("strconv.FormatFloat of a symbolic float (out of reach)"))
				}
				if in.errFmt > 0 && abstractInErr[name] {
					// building an error message: do not fork on the digits of a symbolic number
					in.stubsHit["error-message text: symbolic numbers rendered as a placeholder"] = true
					return mkStr(symPlaceholder)
				}
				return notHandled
			}
			ins[i] = v
		}
		outs := fv.Call(ins)
		res := make(Tuple, len(outs))
		for i, o := range outs {
			v, ok := in.fromNative(o)
			if !ok {
				return notHandled // e.g. non-nil error: interpret the real body
			}
			res[i] = v
		}
		if len(res) == 1 {
			return res[0]
		}
		return res
	}
}

func init() {
	for name, f := range natives {
		modelTable[name] = nativeModel(name, f)
	}
	m := modelTable
	noop := func(in *Interp, fr *Frame, args []Value, call *ssa.CallCommon) Value { return nil }
	for _, n := range []string{"(*sync.Mutex).Lock", "(*sync.Mutex).Unlock", "(*sync.RWMutex).Lock", "(*sync.RWMutex).Unlock",
		"(*sync.RWMutex).RLock", "(*sync.RWMutex).RUnlock", "log.Printf", "log.Println", "log.Print", "(*log.Logger).Printf",
		"(*log.Logger).Println", "(*log.Logger).Print", "(*log.Logger).Output", "runtime.GC", "runtime.KeepAlive", "runtime.SetFinalizer",
		"internal/race.Acquire", "internal/race.Release", "internal/race.ReleaseMerge", "internal/race.Disable", "internal/race.Enable",
		"internal/race.Read", "internal/race.Write", "internal/race.ReadRange", "internal/race.WriteRange"} {
		m[n] = noop
	}
	m["(*sync.Once).Do"] = func(in *Interp, fr *Frame, args []Value, call *ssa.CallCommon) Value {
		p := args[0].(Ptr)
		if p.obj == nil {
			panic(in.rtPanic("invalid memory address or nil pointer dereference"))
		}
		if d := p.obj.cells[p.off].(*Term); d.IsConst() && d.val == 0 {
			in.callValue(args[1], nil, fr, nil)
			in.writeCheck(p.obj)
			p.obj.cells[p.off] = mkBV(32, 1)
		}
		return nil
	}
	// sort.Slice / sort.SliceStable go through reflectlite.Swapper: modelled as a stable insertion sort over the
	// slice's cells that calls the less closure (a symbolic answer forks like any other branch)
	sortSlice := func(in *Interp, fr *Frame, args []Value, call *ssa.CallCommon) Value {
		ifc, ok := args[0].(Iface)
		if !ok || ifc.t == nil {
			panic(in.rtPanic("sort.Slice: nil or non-slice argument"))
		}
		st, isSlice := ifc.t.Underlying().(*types.Slice)
		sl, isVal := ifc.v.(Slice)
		if !isSlice || !isVal {
			panic(inconclusive("sort.Slice on a non-slice value"))
		}
		stride := in.ti.of(st.Elem()).n
		less := func(i, j int) bool {
			r := in.callValue(args[1], []Value{mkBV(64, uint64(i)), mkBV(64, uint64(j))}, fr, nil)
			return in.branch(r.(*Term))
		}
		if sl.len > 1 {
			in.writeCheck(sl.obj)
		}
		for i := 1; i < sl.len; i++ {
			for j := i; j > 0 && less(j, j-1); j-- {
				a, b := sl.off+j*stride, sl.off+(j-1)*stride
				for k := 0; k < stride; k++ {
					sl.obj.cells[a+k], sl.obj.cells[b+k] = sl.obj.cells[b+k], sl.obj.cells[a+k]
				}
			}
		}
		return nil
	}
	// sync.Map, sequential semantics: the entries live in a MapObj parked in the cell of the struct's "dirty" field
	// (so snapshots copy it); its epoch is the epoch of the sync.Map itself, so storing into a sync.Map that existed
	// before the checkpoint counts as a write to shared state
	syncMap := func(in *Interp, call *ssa.CallCommon, recv Value) *MapObj {
		p := recv.(Ptr)
		if p.obj == nil {
			panic(in.rtPanic("invalid memory address or nil pointer dereference"))
		}
		st := call.StaticCallee().Signature.Recv().Type().Underlying().(*types.Pointer).Elem()
		su := st.Underlying().(*types.Struct)
		fi := -1
		for i := 0; i < su.NumFields(); i++ {
			if su.Field(i).Name() == "dirty" {
				fi = i
			}
		}
		if fi < 0 {
			panic(inconclusive("sync.Map layout without a dirty field"))
		}
		off := p.off + in.ti.of(st).fields[fi]
		if mo, ok := p.obj.cells[off].(*MapObj); ok && mo != nil {
			return mo
		}
		any := types.NewInterfaceType(nil, nil)
		mo := &MapObj{index: map[string]int{}, epoch: p.obj.epoch, keyT: any, valT: any}
		p.obj.cells[off] = mo
		return mo
	}
	nilAny := Iface{}
	m["(*sync.Map).Load"] = func(in *Interp, fr *Frame, args []Value, call *ssa.CallCommon) Value {
		mo := syncMap(in, call, args[0])
		if i := in.mapFind(mo, args[1]); i >= 0 {
			return Tuple{mo.entries[i].v, tTrue}
		}
		return Tuple{nilAny, tFalse}
	}
	m["(*sync.Map).Store"] = func(in *Interp, fr *Frame, args []Value, call *ssa.CallCommon) Value {
		in.mapSet(syncMap(in, call, args[0]), args[1], args[2])
		return nil
	}
	m["(*sync.Map).LoadOrStore"] = func(in *Interp, fr *Frame, args []Value, call *ssa.CallCommon) Value {
		mo := syncMap(in, call, args[0])
		if i := in.mapFind(mo, args[1]); i >= 0 {
			return Tuple{mo.entries[i].v, tTrue}
		}
		in.mapSet(mo, args[1], args[2])
		return Tuple{args[2], tFalse}
	}
	m["(*sync.Map).LoadAndDelete"] = func(in *Interp, fr *Frame, args []Value, call *ssa.CallCommon) Value {
		mo := syncMap(in, call, args[0])
		if i := in.mapFind(mo, args[1]); i >= 0 {
			v := mo.entries[i].v
			in.mapDelete(mo, args[1])
			return Tuple{v, tTrue}
		}
		return Tuple{nilAny, tFalse}
	}
	m["(*sync.Map).Delete"] = func(in *Interp, fr *Frame, args []Value, call *ssa.CallCommon) Value {
		in.mapDelete(syncMap(in, call, args[0]), args[1])
		return nil
	}
	m["(*sync.Map).Range"] = func(in *Interp, fr *Frame, args []Value, call *ssa.CallCommon) Value {
		mo := syncMap(in, call, args[0])
		it := in.rangeOp(mo).(*RangeIter)
		for _, k := range it.keys {
			i := in.mapFind(mo, k)
			if i < 0 {
				continue
			}
			r := in.callValue(args[1], []Value{k, mo.entries[i].v}, fr, nil)
			if !in.branch(r.(*Term)) {
				break
			}
		}
		return nil
	}
	m["sort.Slice"] = sortSlice
	m["sort.SliceStable"] = sortSlice
	m["(*sync.Mutex).TryLock"] = func(in *Interp, fr *Frame, args []Value, call *ssa.CallCommon) Value { return tTrue }
	m["internal/abi.NoEscape"] = func(in *Interp, fr *Frame, args []Value, call *ssa.CallCommon) Value { return args[0] }
	m["internal/abi.Escape"] = func(in *Interp, fr *Frame, args []Value, call *ssa.CallCommon) Value { return args[0] }

	// ---- sync/atomic (sequential semantics) ----
	atomLoad := func(in *Interp, fr *Frame, args []Value, call *ssa.CallCommon) Value {
		return in.load(call.Args[0].Type().Underlying().(*types.Pointer).Elem(), args[0])
	}
	atomStore := func(in *Interp, fr *Frame, args []Value, call *ssa.CallCommon) Value {
		in.store(call.Args[1].Type(), args[0], args[1])
		return nil
	}
	atomAdd := func(in *Interp, fr *Frame, args []Value, call *ssa.CallCommon) Value {
		et := call.Args[0].Type().Underlying().(*types.Pointer).Elem()
		nv := tBin(OpAdd, in.load(et, args[0]).(*Term), args[1].(*Term))
		in.atomicW++ // synchronised write: not a race, counted apart by the shared-write monitor
		in.store(et, args[0], nv)
		in.atomicW--
		return nv
	}
	atomSwap := func(in *Interp, fr *Frame, args []Value, call *ssa.CallCommon) Value {
		et := call.Args[0].Type().Underlying().(*types.Pointer).Elem()
		old := in.load(et, args[0])
		in.store(et, args[0], args[1])
		return old
	}
	atomCAS := func(in *Interp, fr *Frame, args []Value, call *ssa.CallCommon) Value {
		et := call.Args[0].Type().Underlying().(*types.Pointer).Elem()
		old := in.load(et, args[0])
		if in.branch(in.eqValue(old, args[1])) {
			in.store(et, args[0], args[2])
			return tTrue
		}
		return tFalse
	}
	for _, ty := range []string{"Int32", "Int64", "Uint32", "Uint64", "Uintptr", "Pointer"} {
		m["sync/atomic.Load"+ty] = atomLoad
		m["sync/atomic.Store"+ty] = atomStore
		m["sync/atomic.Swap"+ty] = atomSwap
		m["sync/atomic.CompareAndSwap"+ty] = atomCAS
		if ty != "Pointer" {
			m["sync/atomic.Add"+ty] = atomAdd
		}
	}

	// ---- math bit casts ----
	m["math.Float64bits"] = func(in *Interp, fr *Frame, args []Value, call *ssa.CallCommon) Value {
		return fpBits(args[0].(*Term), 64)
	}
	m["math.Float32bits"] = func(in *Interp, fr *Frame, args []Value, call *ssa.CallCommon) Value {
		return fpBits(args[0].(*Term), 32)
	}
	m["math.Float64frombits"] = func(in *Interp, fr *Frame, args []Value, call *ssa.CallCommon) Value {
		return tConv(OpFFromBits, args[0].(*Term), SFP, 64)
	}
	m["math.Float32frombits"] = func(in *Interp, fr *Frame, args []Value, call *ssa.CallCommon) Value {
		return tConv(OpFFromBits, args[0].(*Term), SFP, 32)
	}

	round := func(op Op) modelFn {
		return func(in *Interp, fr *Frame, args []Value, call *ssa.CallCommon) Value { return tUn(op, args[0].(*Term)) }
	}
	m["math.Trunc"], m["math.Floor"], m["math.Ceil"] = round(OpFRoundZ), round(OpFRoundN), round(OpFRoundP)
	m["math.archTrunc"], m["math.archFloor"], m["math.archCeil"] = round(OpFRoundZ), round(OpFRoundN), round(OpFRoundP)
	m["math.IsNaN"] = func(in *Interp, fr *Frame, args []Value, call *ssa.CallCommon) Value { return tUn(OpFIsNaN, args[0].(*Term)) }

	// ---- bytealg leaves ----
	m["internal/bytealg.IndexByteString"] = func(in *Interp, fr *Frame, args []Value, call *ssa.CallCommon) Value {
		return in.indexByte(args[0].(Str), args[1].(*Term))
	}
	m["internal/bytealg.IndexByte"] = func(in *Interp, fr *Frame, args []Value, call *ssa.CallCommon) Value {
		return in.indexByte(in.bytesToStr(args[0].(Slice)), args[1].(*Term))
	}
	m["internal/bytealg.CountString"] = func(in *Interp, fr *Frame, args []Value, call *ssa.CallCommon) Value {
		s := args[0].(Str)
		c := args[1].(*Term)
		cnt := 0 // concrete per path: callers size slices with it
		for i := 0; i < s.Len(); i++ {
			if in.branch(tEq(s.At(i), c)) {
				cnt++
			}
		}
		return mkBV(64, uint64(cnt))
	}
	m["internal/bytealg.Equal"] = func(in *Interp, fr *Frame, args []Value, call *ssa.CallCommon) Value {
		return in.strEq(in.bytesToStr(args[0].(Slice)), in.bytesToStr(args[1].(Slice)))
	}
	cmp3 := func(in *Interp, a, b Str) Value {
		return tIte(in.strEq(a, b), mkBV(64, 0), tIte(in.strLess(a, b), mkBV(64, ^uint64(0)), mkBV(64, 1)))
	}
	m["internal/bytealg.Compare"] = func(in *Interp, fr *Frame, args []Value, call *ssa.CallCommon) Value {
		return cmp3(in, in.bytesToStr(args[0].(Slice)), in.bytesToStr(args[1].(Slice)))
	}
	m["internal/bytealg.CompareString"] = func(in *Interp, fr *Frame, args []Value, call *ssa.CallCommon) Value {
		return cmp3(in, args[0].(Str), args[1].(Str))
	}
	// strings.Fields counts the fields before it allocates (a symbolic length): modelled byte by byte, forking
	// on "is ASCII white space"; a byte >= 0x80 is taken as part of a field (lone bytes are not Unicode spaces)
	m["strings.Fields"] = func(in *Interp, fr *Frame, args []Value, call *ssa.CallCommon) Value {
		s := args[0].(Str)
		var fields []Str
		start := -1
		for i := 0; i < s.Len(); i++ {
			c := s.At(i)
			isSp := tOr(tEq(c, mkBV(8, ' ')), tAnd(tBin(OpULe, mkBV(8, 9), c), tBin(OpULe, c, mkBV(8, 13))))
			if in.branch(isSp) {
				if start >= 0 {
					fields = append(fields, s.Slice(start, i))
					start = -1
				}
			} else if start < 0 {
				start = i
			}
		}
		if start >= 0 {
			fields = append(fields, s.Slice(start, s.Len()))
		}
		o := in.newObj(0, "strings.Fields")
		for _, f := range fields {
			o.cells = append(o.cells, f.Norm())
		}
		return Slice{obj: o, off: 0, len: len(fields), cap: len(fields)}
	}
	m["strings.Compare"] = func(in *Interp, fr *Frame, args []Value, call *ssa.CallCommon) Value {
		return cmp3(in, args[0].(Str), args[1].(Str))
	}
	m["bytes.Compare"] = m["internal/bytealg.Compare"]
	m["bytes.Equal"] = m["internal/bytealg.Equal"]
	m["internal/stringslite.Index"] = func(in *Interp, fr *Frame, args []Value, call *ssa.CallCommon) Value {
		return in.indexStr(args[0].(Str), args[1].(Str))
	}
	m["strings.Index"] = m["internal/stringslite.Index"]
	m["internal/bytealg.IndexString"] = m["internal/stringslite.Index"]
	m["bytes.Index"] = func(in *Interp, fr *Frame, args []Value, call *ssa.CallCommon) Value {
		return in.indexStr(in.bytesToStr(args[0].(Slice)), in.bytesToStr(args[1].(Slice)))
	}
	m["internal/bytealg.Index"] = m["bytes.Index"]
	m["strings.HasPrefix"] = func(in *Interp, fr *Frame, args []Value, call *ssa.CallCommon) Value {
		s, p := args[0].(Str), args[1].(Str)
		if s.Len() < p.Len() {
			return tFalse
		}
		return in.strEq(s.Slice(0, p.Len()), p)
	}
	m["strings.HasSuffix"] = func(in *Interp, fr *Frame, args []Value, call *ssa.CallCommon) Value {
		s, p := args[0].(Str), args[1].(Str)
		if s.Len() < p.Len() {
			return tFalse
		}
		return in.strEq(s.Slice(s.Len()-p.Len(), s.Len()), p)
	}
	// IndexAny / IndexRune / ContainsRune / ContainsAny with concrete ASCII needles over symbolic subjects
	asciiNeedle := func(v Value) (string, bool) {
		s := v.(Str)
		if !s.IsConcrete() {
			return "", false
		}
		c := s.Concrete()
		for i := 0; i < len(c); i++ {
			if c[i] >= 0x80 {
				return "", false
			}
		}
		return c, true
	}
	indexAny := func(in *Interp, s Str, chars string) int {
		for i := 0; i < s.Len(); i++ {
			c := tFalse
			for j := 0; j < len(chars); j++ {
				c = tOr(c, tEq(s.At(i), mkBV(8, uint64(chars[j]))))
			}
			if in.branch(c) {
				return i
			}
		}
		return -1
	}
	m["strings.IndexAny"] = func(in *Interp, fr *Frame, args []Value, call *ssa.CallCommon) Value {
		s := args[0].(Str)
		chars, ok := asciiNeedle(args[1])
		if s.IsConcrete() || !ok {
			return notHandled
		}
		return mkBV(64, uint64(int64(indexAny(in, s, chars))))
	}
	m["strings.ContainsAny"] = func(in *Interp, fr *Frame, args []Value, call *ssa.CallCommon) Value {
		s := args[0].(Str)
		chars, ok := asciiNeedle(args[1])
		if s.IsConcrete() || !ok {
			return notHandled
		}
		return mkBool(indexAny(in, s, chars) >= 0)
	}
	runeNeedle := func(v Value) (string, bool) {
		t := v.(*Term)
		if !t.IsConst() || t.val >= 0x80 {
			return "", false
		}
		return string(rune(t.val)), true
	}
	m["strings.IndexRune"] = func(in *Interp, fr *Frame, args []Value, call *ssa.CallCommon) Value {
		s := args[0].(Str)
		c, ok := runeNeedle(args[1])
		if s.IsConcrete() || !ok {
			return notHandled
		}
		return mkBV(64, uint64(int64(indexAny(in, s, c))))
	}
	m["strings.ContainsRune"] = func(in *Interp, fr *Frame, args []Value, call *ssa.CallCommon) Value {
		s := args[0].(Str)
		c, ok := runeNeedle(args[1])
		if s.IsConcrete() || !ok {
			return notHandled
		}
		return mkBool(indexAny(in, s, c) >= 0)
	}
	m["strings.IndexByte"] = func(in *Interp, fr *Frame, args []Value, call *ssa.CallCommon) Value {
		return in.indexByte(args[0].(Str), args[1].(*Term))
	}
	m["internal/stringslite.HasPrefix"] = m["strings.HasPrefix"]
	m["internal/stringslite.HasSuffix"] = m["strings.HasSuffix"]

	// ---- regexp: native when concrete ----
	m["regexp.MatchString"] = func(in *Interp, fr *Frame, args []Value, call *ssa.CallCommon) Value {
		p, s := args[0].(Str), args[1].(Str)
		if !p.IsConcrete() {
			panic(inconclusive("symbolic regexp pattern"))
		}
		in.stubsHit["regexp.MatchString (native when concrete, unconstrained Bool on symbolic subject)"] = true
		re, err := regexp.Compile(p.Concrete())
		if err != nil {
			return Tuple{tFalse, in.mkError("regexp: " + err.Error())}
		}
		if !s.IsConcrete() {
			return Tuple{in.freshVar("_regexp", SBool, 1), Iface{}}
		}
		return Tuple{mkBool(re.MatchString(s.Concrete())), Iface{}}
	}
	// *regexp.Regexp as an opaque object: the pattern lives in its first field
	// (expr); matching is native on concrete subjects and an unconstrained Bool
	// on symbolic ones.
	m["regexp.Compile"] = func(in *Interp, fr *Frame, args []Value, call *ssa.CallCommon) Value {
		if ps := args[0].(Str); !ps.IsConcrete() {
			// a pattern with symbolic bytes may or may not compile: both outcomes are explored
			in.stubsHit["regexp.Compile of a symbolic pattern: both outcomes (error / opaque regexp) explored"] = true
			if in.branch(in.freshVar("_regexpok", SBool, 1)) {
				t := in.P.byPath["regexp"].Type("Regexp").Type()
				o := in.allocType(t, "regexp.Regexp")
				o.cells[0] = mkStr(".*")
				return Tuple{Ptr{o, 0}, Iface{}}
			}
			return Tuple{Ptr{}, in.mkError("error parsing regexp: symbolic pattern")}
		}
		p := concreteStr(args[0], "regexp pattern")
		in.stubsHit["regexp (native on concrete subjects; unconstrained Bool on symbolic subjects)"] = true
		if _, err := regexp.Compile(p); err != nil {
			return Tuple{Ptr{}, in.mkError("error parsing regexp: " + err.Error())}
		}
		t := in.P.byPath["regexp"].Type("Regexp").Type()
		o := in.allocType(t, "regexp.Regexp")
		o.cells[0] = mkStr(p)
		return Tuple{Ptr{o, 0}, Iface{}}
	}
	m["regexp.MustCompile"] = func(in *Interp, fr *Frame, args []Value, call *ssa.CallCommon) Value {
		r := m["regexp.Compile"](in, fr, args, call).(Tuple)
		if r[1].(Iface).t != nil {
			panic(targetPanic{msg: "regexp: Compile failed", val: r[1]})
		}
		return r[0]
	}
	m["(*regexp.Regexp).MatchString"] = func(in *Interp, fr *Frame, args []Value, call *ssa.CallCommon) Value {
		p := args[0].(Ptr)
		if p.obj == nil {
			panic(in.rtPanic("invalid memory address or nil pointer dereference"))
		}
		re := regexp.MustCompile(p.obj.cells[p.off].(Str).Concrete())
		s := args[1].(Str)
		if !s.IsConcrete() {
			return in.freshVar("_regexp", SBool, 1)
		}
		return mkBool(re.MatchString(s.Concrete()))
	}
	m["(*regexp.Regexp).String"] = func(in *Interp, fr *Frame, args []Value, call *ssa.CallCommon) Value {
		p := args[0].(Ptr)
		return p.obj.cells[p.off]
	}
	m["context.Background"] = func(in *Interp, fr *Frame, args []Value, call *ssa.CallCommon) Value {
		t := in.P.byPath["context"].Type("backgroundCtx").Type()
		return Iface{t: in.canon(t), v: in.ti.zero(t)}
	}
	m["context.TODO"] = m["context.Background"]
	m["internal/bytealg.MakeNoZero"] = func(in *Interp, fr *Frame, args []Value, call *ssa.CallCommon) Value {
		n := mustConstInt(args[0], "MakeNoZero len")
		o := in.newObj(n, "MakeNoZero")
		for i := range o.cells {
			o.cells[i] = mkBV(8, 0)
		}
		return Slice{o, 0, n, n}
	}
	m["os.Getenv"] = func(in *Interp, fr *Frame, args []Value, call *ssa.CallCommon) Value { return Str{} }
	m["encoding/base64.(*Encoding).EncodeToString"] = nil
	delete(m, "encoding/base64.(*Encoding).EncodeToString")
	_ = base64.StdEncoding
}

func fpBits(t *Term, w uint8) *Term {
	if t.IsConst() {
		return mkBV(w, t.val)
	}
	if t.op == OpFFromBits {
		return t.args[0]
	}
	panic(inconclusive("bit pattern of a computed symbolic float"))
}

func (in *Interp) indexByte(s Str, c *Term) Value {
	for i := 0; i < s.Len(); i++ {
		if in.branch(tEq(s.At(i), c)) {
			return mkBV(64, uint64(i))
		}
	}
	return mkBV(64, ^uint64(0))
}

func (in *Interp) indexStr(s, sub Str) Value {
	if s.sym == nil && sub.sym == nil {
		return mkBV(64, uint64(int64(strings.Index(s.s, sub.s))))
	}
	n := sub.Len()
	for i := 0; i+n <= s.Len(); i++ {
		if in.branch(in.strEq(s.Slice(i, i+n), sub)) {
			return mkBV(64, uint64(i))
		}
	}
	return mkBV(64, ^uint64(0))
}

// mkError builds an *errors.errorString.
func (in *Interp) mkError(msg string) Value {
	ep := in.P.byPath["errors"]
	t := ep.Type("errorString").Type()
	o := in.newObj(1, "errors.errorString")
	o.cells[0] = mkStr(msg)
	return Iface{t: in.canon(types.NewPointer(t)), v: Ptr{o, 0}}
}

var _ = fmt.Sprintf
