package main

// fmt / errors / log models.

import (
	"fmt"
	"go/types"
	"strings"

	"golang.org/x/tools/go/ssa"
)

const symPlaceholder = "⟪SYM⟫"

func qualName(p *types.Package) string { return p.Name() }

// findMethod looks up an exported (or pkg-local) method by name on t.
func (in *Interp) findMethod(t types.Type, name string, pkg *types.Package) *ssa.Function {
	k := methodKey{t, name, pkg}
	if f, ok := in.methods[k]; ok {
		return f
	}
	ms := in.P.prog.MethodSets.MethodSet(t)
	var f *ssa.Function
	if sel := ms.Lookup(pkg, name); sel != nil {
		f = in.P.prog.MethodValue(sel)
	}
	in.methods[k] = f
	return f
}

func sigIs(f *ssa.Function, nparams int, result string) bool {
	if f == nil {
		return false
	}
	sig := f.Signature
	if sig.Params().Len() != nparams || sig.Results().Len() != 1 {
		return false
	}
	return types.TypeString(sig.Results().At(0).Type(), nil) == result
}

// callMethod0 calls a niladic method returning one value.
func (in *Interp) callMethod(f *ssa.Function, recv Value, args ...Value) Value {
	return in.callFunction(f, append([]Value{recv}, args...), nil, nil, nil)
}

func isNilRef(v Value) bool {
	switch x := v.(type) {
	case Ptr:
		return x.obj == nil
	case *MapObj:
		return x == nil
	case *Closure:
		return x == nil
	}
	return false
}

// fmtValue renders an engine value of static/dynamic type t the way %v does.
func (in *Interp) fmtValue(t types.Type, v Value, verb rune, plus bool, depth int) string {
	if depth > 6 {
		return "..."
	}
	if i, ok := v.(Iface); ok {
		if i.t == nil {
			return "<nil>"
		}
		return in.fmtValue(i.t, i.v, verb, plus, depth)
	}
	if verb == 'v' || verb == 's' || verb == 'q' {
		if f := in.findMethod(t, "Error", nil); sigIs(f, 0, "string") {
			if isNilRef(v) {
				return "<nil>"
			}
			return in.strOrSym(in.callMethod(f, v))
		}
		if f := in.findMethod(t, "String", nil); sigIs(f, 0, "string") {
			if isNilRef(v) {
				return "<nil>"
			}
			return in.strOrSym(in.callMethod(f, v))
		}
	}
	switch u := t.Underlying().(type) {
	case *types.Basic:
		switch x := v.(type) {
		case Str:
			return in.strOrSym(x)
		case *Term:
			if !x.IsConst() && x.sort == SBool {
				// a symbolic bool has only two renderings: fork
				if in.branch(x) {
					return "true"
				}
				return "false"
			}
			if !x.IsConst() {
				if s, w, signed, _ := scalarSort(t); s == SBV && (verb == 'v' || verb == 'd') && in.symFmtInts {
					// decimal rendering by the real strconv, interpreted symbolically
					var r Value
					if signed {
						r = in.callFunction(in.P.funcByName("strconv", "FormatInt"), []Value{tSExt(x, 64), mkBV(64, 10)}, nil, nil, nil)
					} else {
						r = in.callFunction(in.P.funcByName("strconv", "FormatUint"), []Value{tZExt(x, 64), mkBV(64, 10)}, nil, nil, nil)
					}
					_ = w
					in.symParts = append(in.symParts, r.(Str))
					return fmt.Sprintf("\x00SYM%d\x00", len(in.symParts)-1)
				}
				in.stubsHit["fmt: symbolic scalar rendered as placeholder"] = true
				return symPlaceholder
			}
			s, w, signed, _ := scalarSort(t)
			switch s {
			case SBool:
				return fmt.Sprint(x.val != 0)
			case SFP:
				if w == 32 {
					return fmt.Sprint(float32(bits2f(32, x.val)))
				}
				return fmt.Sprint(bits2f(64, x.val))
			default:
				if signed {
					return fmt.Sprint(sext64(x.val, w))
				}
				return fmt.Sprint(x.val)
			}
		case Ptr:
			return fmt.Sprintf("0xc%09x", ptrNum(x))
		}
	case *types.Pointer:
		p := v.(Ptr)
		if p.obj == nil {
			return "<nil>"
		}
		if _, ok := u.Elem().Underlying().(*types.Struct); ok && depth == 0 {
			return "&" + in.fmtValue(u.Elem(), in.load(u.Elem(), p), verb, plus, depth+1)
		}
		return fmt.Sprintf("0xc%09x", ptrNum(p))
	case *types.Struct:
		a := v.(Agg)
		l := in.ti.of(t)
		var parts []string
		for i := 0; i < u.NumFields(); i++ {
			ft := u.Field(i).Type()
			var fv Value
			if isAggType(ft) {
				fv = Agg(a[l.fields[i] : l.fields[i]+in.ti.of(ft).n])
			} else {
				fv = a[l.fields[i]]
			}
			s := in.fmtValue(ft, fv, 'v', plus, depth+1)
			if plus {
				s = u.Field(i).Name() + ":" + s
			}
			parts = append(parts, s)
		}
		return "{" + strings.Join(parts, " ") + "}"
	case *types.Slice:
		s := v.(Slice)
		if b, ok := u.Elem().Underlying().(*types.Basic); ok && b.Kind() == types.Uint8 && (verb == 's' || verb == 'q') {
			return in.strOrSym(in.bytesToStr(s))
		}
		stride := in.ti.of(u.Elem()).n
		var parts []string
		for i := 0; i < s.len; i++ {
			var ev Value
			if isAggType(u.Elem()) {
				ev = Agg(s.obj.cells[s.off+i*stride : s.off+(i+1)*stride])
			} else {
				ev = s.obj.cells[s.off+i*stride]
			}
			parts = append(parts, in.fmtValue(u.Elem(), ev, verb, plus, depth+1))
		}
		return "[" + strings.Join(parts, " ") + "]"
	case *types.Array:
		a := v.(Agg)
		stride := in.ti.of(u.Elem()).n
		var parts []string
		for i := 0; i < int(u.Len()); i++ {
			var ev Value
			if isAggType(u.Elem()) {
				ev = Agg(a[i*stride : (i+1)*stride])
			} else {
				ev = a[i*stride]
			}
			parts = append(parts, in.fmtValue(u.Elem(), ev, verb, plus, depth+1))
		}
		return "[" + strings.Join(parts, " ") + "]"
	case *types.Map:
		m := v.(*MapObj)
		if m == nil {
			return "map[]"
		}
		var parts []string
		for _, e := range m.entries {
			if !e.deleted {
				parts = append(parts, in.fmtValue(u.Key(), e.k, verb, plus, depth+1)+":"+in.fmtValue(u.Elem(), e.v, verb, plus, depth+1))
			}
		}
		return "map[" + strings.Join(parts, " ") + "]"
	case *types.Signature:
		return "0xfunc"
	case *types.Interface:
		return "<nil>"
	}
	return fmt.Sprintf("<%s>", t.String())
}

func ptrNum(p Ptr) int {
	if p.obj == nil {
		return 0
	}
	return int(p.obj.id)*64 + p.off
}

func (in *Interp) strOrSym(v Value) string {
	s := v.(Str)
	if s.IsConcrete() {
		return s.Concrete()
	}
	if in.symFmtInts {
		in.symParts = append(in.symParts, s)
		return fmt.Sprintf("\x00SYM%d\x00", len(in.symParts)-1)
	}
	in.stubsHit["fmt: symbolic string bytes rendered as placeholder"] = true
	var sb strings.Builder
	for _, b := range s.sym {
		if b.IsConst() {
			sb.WriteByte(byte(b.val))
		} else {
			sb.WriteString("⟪?⟫")
		}
	}
	return sb.String()
}

// nativeArg converts a concrete basic value to a native Go value for real fmt.
func (in *Interp) nativeArg(a Iface) (interface{}, bool) {
	if a.t == nil {
		return nil, true
	}
	if in.findMethod(a.t, "Error", nil) != nil || in.findMethod(a.t, "String", nil) != nil || in.findMethod(a.t, "Format", nil) != nil {
		return nil, false
	}
	switch x := a.v.(type) {
	case Str:
		if x.IsConcrete() {
			return x.Concrete(), true
		}
	case *Term:
		if !x.IsConst() {
			return nil, false
		}
		s, w, signed, ok := scalarSort(a.t)
		if !ok {
			return nil, false
		}
		switch s {
		case SBool:
			return x.val != 0, true
		case SFP:
			if w == 32 {
				return float32(bits2f(32, x.val)), true
			}
			return bits2f(64, x.val), true
		default:
			if signed {
				switch w {
				case 8:
					return int8(x.val), true
				case 16:
					return int16(x.val), true
				case 32:
					return int32(x.val), true
				}
				return int64(x.val), true
			}
			switch w {
			case 8:
				return uint8(x.val), true
			case 16:
				return uint16(x.val), true
			case 32:
				return uint32(x.val), true
			}
			return x.val, true
		}
	}
	return nil, false
}

type fmtResult struct {
	s       string
	wrapped []Iface
}

func (in *Interp) sprintf(format string, args []Iface) fmtResult {
	var sb strings.Builder
	var res fmtResult
	ai := 0
	for i := 0; i < len(format); {
		c := format[i]
		if c != '%' {
			sb.WriteByte(c)
			i++
			continue
		}
		j := i + 1
		for j < len(format) && strings.IndexByte("#+- 0", format[j]) >= 0 {
			j++
		}
		for j < len(format) && (format[j] >= '0' && format[j] <= '9' || format[j] == '.' || format[j] == '*' || format[j] == '[' || format[j] == ']') {
			if format[j] == '*' || format[j] == '[' {
				panic(inconclusive("fmt: * or [n] in format " + format))
			}
			j++
		}
		if j >= len(format) {
			sb.WriteString("%!(NOVERB)")
			break
		}
		verb := rune(format[j])
		spec := format[i : j+1]
		i = j + 1
		if verb == '%' {
			sb.WriteByte('%')
			continue
		}
		if ai >= len(args) {
			sb.WriteString("%!" + string(verb) + "(MISSING)")
			continue
		}
		a := args[ai]
		ai++
		if verb == 'T' {
			if a.t == nil {
				sb.WriteString("<nil>")
			} else {
				sb.WriteString(types.TypeString(a.t, qualName))
			}
			continue
		}
		if verb == 'w' {
			res.wrapped = append(res.wrapped, a)
			verb = 'v'
			spec = spec[:len(spec)-1] + "v"
		}
		if nv, ok := in.nativeArg(a); ok && a.t != nil {
			sb.WriteString(fmt.Sprintf(spec, nv))
			continue
		}
		s := in.fmtValue(a.t, a, verb, strings.Contains(spec, "+"), 0)
		switch verb {
		case 'q':
			sb.WriteString(fmt.Sprintf("%q", s))
		case 'v', 's':
			sb.WriteString(fmt.Sprintf(strings.Replace(strings.Replace(spec[:len(spec)-1], "+", "", -1), "#", "", -1)+"s", s))
		default:
			sb.WriteString(s)
		}
	}
	if ai < len(args) {
		sb.WriteString("%!(EXTRA ")
		for k := ai; k < len(args); k++ {
			if k > ai {
				sb.WriteString(", ")
			}
			if args[k].t == nil {
				sb.WriteString("<nil>")
			} else {
				sb.WriteString(types.TypeString(args[k].t, qualName) + "=" + in.fmtValue(args[k].t, args[k], 'v', false, 0))
			}
		}
		sb.WriteString(")")
	}
	res.s = sb.String()
	return res
}

func (in *Interp) ifaceArgs(v Value) []Iface {
	s := v.(Slice)
	out := make([]Iface, s.len)
	for i := range out {
		out[i] = s.obj.cells[s.off+i].(Iface)
	}
	return out
}

func (in *Interp) sprint(args []Iface, ln bool) string {
	var sb strings.Builder
	prevStr := false
	for i, a := range args {
		isStr := false
		if a.t != nil {
			if b, ok := a.t.Underlying().(*types.Basic); ok && b.Info()&types.IsString != 0 {
				isStr = true
			}
		}
		if i > 0 && (ln || (!isStr && !prevStr)) {
			sb.WriteByte(' ')
		}
		sb.WriteString(in.fmtValue(a.t, a, 'v', false, 0))
		prevStr = isStr
	}
	if ln {
		sb.WriteByte('\n')
	}
	return sb.String()
}

// writeTo calls w.Write(p) on an io.Writer interface value.
func (in *Interp) writeTo(w Iface, s string) Value {
	if w.t == nil {
		panic(in.rtPanic("invalid memory address or nil pointer dereference"))
	}
	f := in.findMethod(w.t, "Write", nil)
	if f == nil {
		panic(inconclusive("Write method not found on " + w.t.String()))
	}
	o := in.newObj(len(s), "fmt bytes")
	for i := 0; i < len(s); i++ {
		o.cells[i] = mkBV(8, uint64(s[i]))
	}
	return in.callMethod(f, w.v, Slice{o, 0, len(s), len(s)})
}

func (in *Interp) newStructPtr(pkg, typ string, cells ...Value) Value {
	sp := in.P.byPath[pkg]
	t := sp.Type(typ).Type()
	o := in.allocType(t, pkg+"."+typ)
	copy(o.cells, cells)
	return Iface{t: in.canon(types.NewPointer(t)), v: Ptr{o, 0}}
}

func init() {
	m := modelTable
	m["fmt.Sprintf"] = func(in *Interp, fr *Frame, args []Value, call *ssa.CallCommon) Value {
		in.symFmtInts = true
		defer func() { in.symFmtInts = false; in.symParts = nil }()
		return in.spliceSym(in.sprintf(concreteStr(args[0], "format string"), in.ifaceArgs(args[1])).s)
	}
	m["fmt.Sprint"] = func(in *Interp, fr *Frame, args []Value, call *ssa.CallCommon) Value {
		in.symFmtInts = true
		defer func() { in.symFmtInts = false; in.symParts = nil }()
		return in.spliceSym(in.sprint(in.ifaceArgs(args[0]), false))
	}
	m["fmt.Sprintln"] = func(in *Interp, fr *Frame, args []Value, call *ssa.CallCommon) Value {
		return mkStr(in.sprint(in.ifaceArgs(args[0]), true))
	}
	m["fmt.Errorf"] = func(in *Interp, fr *Frame, args []Value, call *ssa.CallCommon) Value {
		in.errFmt++
		defer func() { in.errFmt-- }()
		r := in.sprintf(concreteStr(args[0], "format string"), in.ifaceArgs(args[1]))
		switch len(r.wrapped) {
		case 0:
			return in.mkError(r.s)
		case 1:
			return in.newStructPtr("fmt", "wrapError", mkStr(r.s), r.wrapped[0])
		}
		// *fmt.wrapErrors{msg string, errs []error}
		o := in.newObj(len(r.wrapped), "wrapErrors.errs")
		for i, w := range r.wrapped {
			o.cells[i] = w
		}
		return in.newStructPtr("fmt", "wrapErrors", mkStr(r.s), Slice{o, 0, len(r.wrapped), len(r.wrapped)})
	}
	fprint := func(kind int) modelFn {
		return func(in *Interp, fr *Frame, args []Value, call *ssa.CallCommon) Value {
			var s string
			switch kind {
			case 0:
				s = in.sprintf(concreteStr(args[1], "format string"), in.ifaceArgs(args[2])).s
			case 1:
				s = in.sprint(in.ifaceArgs(args[1]), false)
			default:
				s = in.sprint(in.ifaceArgs(args[1]), true)
			}
			return in.writeTo(args[0].(Iface), s)
		}
	}
	m["fmt.Fprintf"] = fprint(0)
	m["fmt.Fprint"] = fprint(1)
	m["fmt.Fprintln"] = fprint(2)
	discard := func(in *Interp, fr *Frame, args []Value, call *ssa.CallCommon) Value {
		return Tuple{mkBV(64, 0), Iface{}}
	}
	m["fmt.Printf"] = discard
	m["fmt.Println"] = discard
	m["fmt.Print"] = discard

	m["log.New"] = func(in *Interp, fr *Frame, args []Value, call *ssa.CallCommon) Value {
		t := in.P.byPath["log"].Type("Logger").Type()
		return Ptr{in.allocType(t, "log.Logger"), 0}
	}
	m["log.Fatalf"] = func(in *Interp, fr *Frame, args []Value, call *ssa.CallCommon) Value {
		panic(targetPanic{msg: "log.Fatalf: " + in.sprintf(concreteStr(args[0], "format"), in.ifaceArgs(args[1])).s, exit: true})
	}
	m["log.Fatal"] = func(in *Interp, fr *Frame, args []Value, call *ssa.CallCommon) Value {
		panic(targetPanic{msg: "log.Fatal: " + in.sprint(in.ifaceArgs(args[0]), false), exit: true})
	}
	m["os.Exit"] = func(in *Interp, fr *Frame, args []Value, call *ssa.CallCommon) Value {
		panic(targetPanic{msg: "os.Exit", exit: true})
	}

	// ---- errors ----
	m["errors.Is"] = func(in *Interp, fr *Frame, args []Value, call *ssa.CallCommon) Value {
		return mkBool(in.errorsIs(args[0].(Iface), args[1].(Iface), 0))
	}
	m["errors.Unwrap"] = func(in *Interp, fr *Frame, args []Value, call *ssa.CallCommon) Value {
		e := args[0].(Iface)
		if e.t == nil {
			return Iface{}
		}
		if f := in.findMethod(e.t, "Unwrap", nil); sigIs(f, 0, "error") {
			return in.callMethod(f, e.v)
		}
		return Iface{}
	}
	m["errors.As"] = func(in *Interp, fr *Frame, args []Value, call *ssa.CallCommon) Value {
		return mkBool(in.errorsAs(args[0].(Iface), args[1].(Iface), 0))
	}
	// errors.Join is interpreted from the standard library's source (joinError has Unwrap() []error, which errorsIs follows)
}

func (in *Interp) errorsIs(err, target Iface, depth int) bool {
	if depth > 50 {
		panic(inconclusive("errors.Is chain too deep"))
	}
	for {
		if err.t == nil {
			return target.t == nil
		}
		if target.t == nil {
			// err != nil
		} else if types.Comparable(target.t) && err.t != nil && (err.t == target.t || types.Identical(err.t, target.t)) {
			if in.branch(in.eqValue(err.v, target.v)) {
				return true
			}
		}
		if f := in.findMethod(err.t, "Is", nil); sigIs(f, 1, "bool") {
			if in.branch(in.callMethod(f, err.v, target).(*Term)) {
				return true
			}
		}
		f := in.findMethod(err.t, "Unwrap", nil)
		switch {
		case sigIs(f, 0, "error"):
			err = in.callMethod(f, err.v).(Iface)
			if err.t == nil {
				return false
			}
		case sigIs(f, 0, "[]error"):
			s := in.callMethod(f, err.v).(Slice)
			for i := 0; i < s.len; i++ {
				if in.errorsIs(s.obj.cells[s.off+i].(Iface), target, depth+1) {
					return true
				}
			}
			return false
		default:
			return false
		}
	}
}

func (in *Interp) errorsAs(err, target Iface, depth int) bool {
	if target.t == nil {
		panic(targetPanic{msg: "errors: target cannot be nil"})
	}
	pt, ok := target.t.Underlying().(*types.Pointer)
	if !ok {
		panic(targetPanic{msg: "errors: target must be a non-nil pointer"})
	}
	elem := pt.Elem()
	for err.t != nil {
		match := false
		if it, isI := elem.Underlying().(*types.Interface); isI {
			match = types.Implements(err.t, it)
		} else {
			match = types.Identical(err.t, elem)
		}
		if match {
			if _, isI := elem.Underlying().(*types.Interface); isI {
				in.store(elem, target.v, err)
			} else {
				in.store(elem, target.v, err.v)
			}
			return true
		}
		f := in.findMethod(err.t, "Unwrap", nil)
		if !sigIs(f, 0, "error") {
			return false
		}
		err = in.callMethod(f, err.v).(Iface)
	}
	return false
}

// spliceSym replaces the \x00SYMn\x00 markers left by fmtValue with the
// symbolic decimal strings they stand for.
func (in *Interp) spliceSym(s string) Value {
	if len(in.symParts) == 0 || !strings.Contains(s, "\x00SYM") {
		return mkStr(s)
	}
	res := Str{}
	for {
		i := strings.Index(s, "\x00SYM")
		if i < 0 {
			break
		}
		j := strings.Index(s[i+1:], "\x00") + i + 1
		var n int
		fmt.Sscanf(s[i+4:j], "%d", &n)
		res = strConcat(res, mkStr(s[:i]))
		res = strConcat(res, in.symParts[n])
		s = s[j+1:]
	}
	return strConcat(res, mkStr(s))
}
