package main

// A model of the small reflect subset used by val/conv.go, val/util.go and
// node/value.go. A reflect.Value is represented by its real layout (3 leaf
// cells) with the wrapped (type, value) pair stashed in cell 1.

import (
	"go/types"

	"golang.org/x/tools/go/ssa"
)

func kindOf(t types.Type) uint64 {
	if t == nil {
		return 0
	}
	switch u := t.Underlying().(type) {
	case *types.Basic:
		switch u.Kind() {
		case types.Bool:
			return 1
		case types.Int:
			return 2
		case types.Int8:
			return 3
		case types.Int16:
			return 4
		case types.Int32:
			return 5
		case types.Int64:
			return 6
		case types.Uint:
			return 7
		case types.Uint8:
			return 8
		case types.Uint16:
			return 9
		case types.Uint32:
			return 10
		case types.Uint64:
			return 11
		case types.Uintptr:
			return 12
		case types.Float32:
			return 13
		case types.Float64:
			return 14
		case types.String:
			return 24
		case types.UnsafePointer:
			return 26
		}
	case *types.Array:
		return 17
	case *types.Chan:
		return 18
	case *types.Signature:
		return 19
	case *types.Interface:
		return 20
	case *types.Map:
		return 21
	case *types.Pointer:
		return 22
	case *types.Slice:
		return 23
	case *types.Struct:
		return 25
	}
	return 0
}

func mkRV(t types.Type, v Value) Value {
	return Agg{Ptr{}, Iface{t: t, v: v}, mkBV(64, 1)}
}

func rvOf(v Value) Iface { return v.(Agg)[1].(Iface) }

func (in *Interp) deepEq(t types.Type, a, b Value, depth int) *Term {
	if depth > 20 {
		panic(inconclusive("DeepEqual too deep"))
	}
	switch u := t.Underlying().(type) {
	case *types.Basic:
		return in.eqValue(a, b)
	case *types.Interface:
		x, y := a.(Iface), b.(Iface)
		if x.t == nil || y.t == nil {
			return mkBool(x.t == nil && y.t == nil)
		}
		if !types.Identical(x.t, y.t) {
			return tFalse
		}
		return in.deepEq(x.t, x.v, y.v, depth+1)
	case *types.Slice:
		x, y := a.(Slice), b.(Slice)
		if (x.obj == nil) != (y.obj == nil) {
			return tFalse
		}
		if x.len != y.len {
			return tFalse
		}
		stride := in.ti.of(u.Elem()).n
		r := tTrue
		for i := 0; i < x.len; i++ {
			var ev, fv Value
			if isAggType(u.Elem()) {
				ev = Agg(x.obj.cells[x.off+i*stride : x.off+(i+1)*stride])
				fv = Agg(y.obj.cells[y.off+i*stride : y.off+(i+1)*stride])
			} else {
				ev, fv = x.obj.cells[x.off+i*stride], y.obj.cells[y.off+i*stride]
			}
			r = tAnd(r, in.deepEq(u.Elem(), ev, fv, depth+1))
			if r == tFalse {
				return r
			}
		}
		return r
	case *types.Pointer:
		x, y := a.(Ptr), b.(Ptr)
		if x.obj == nil || y.obj == nil {
			return mkBool(x.obj == nil && y.obj == nil)
		}
		if x == y {
			return tTrue
		}
		return in.deepEq(u.Elem(), in.load(u.Elem(), x), in.load(u.Elem(), y), depth+1)
	case *types.Struct:
		x, y := a.(Agg), b.(Agg)
		l := in.ti.of(t)
		r := tTrue
		for i := 0; i < u.NumFields(); i++ {
			ft := u.Field(i).Type()
			var ev, fv Value
			if isAggType(ft) {
				n := in.ti.of(ft).n
				ev, fv = Agg(x[l.fields[i]:l.fields[i]+n]), Agg(y[l.fields[i]:l.fields[i]+n])
			} else {
				ev, fv = x[l.fields[i]], y[l.fields[i]]
			}
			r = tAnd(r, in.deepEq(ft, ev, fv, depth+1))
		}
		return r
	case *types.Array:
		x, y := a.(Agg), b.(Agg)
		stride := in.ti.of(u.Elem()).n
		r := tTrue
		for i := 0; i < int(u.Len()); i++ {
			var ev, fv Value
			if isAggType(u.Elem()) {
				ev, fv = Agg(x[i*stride:(i+1)*stride]), Agg(y[i*stride:(i+1)*stride])
			} else {
				ev, fv = x[i*stride], y[i*stride]
			}
			r = tAnd(r, in.deepEq(u.Elem(), ev, fv, depth+1))
		}
		return r
	case *types.Map:
		x, y := a.(*MapObj), b.(*MapObj)
		if (x == nil) != (y == nil) {
			return tFalse
		}
		if x == nil || x == y {
			return tTrue
		}
		if x.n != y.n {
			return tFalse
		}
		r := tTrue
		for _, e := range x.entries {
			if e.deleted {
				continue
			}
			j := in.mapFind(y, e.k)
			if j < 0 {
				return tFalse
			}
			r = tAnd(r, in.deepEq(u.Elem(), e.v, y.entries[j].v, depth+1))
		}
		return r
	case *types.Signature:
		x, y := a.(*Closure), b.(*Closure)
		return mkBool(x == nil && y == nil)
	}
	panic(inconclusive("DeepEqual on " + t.String()))
}

func init() {
	m := modelTable
	m["reflect.ValueOf"] = func(in *Interp, fr *Frame, args []Value, call *ssa.CallCommon) Value {
		i := args[0].(Iface)
		in.stubsHit["reflect.Value subset model (ValueOf/Kind/Can*/Int/Uint/Float/Len/Index/Interface/IsValid/IsNil)"] = true
		return mkRV(i.t, i.v)
	}
	m["(reflect.Value).IsValid"] = func(in *Interp, fr *Frame, args []Value, call *ssa.CallCommon) Value {
		return mkBool(rvOf(args[0]).t != nil)
	}
	m["(reflect.Value).Kind"] = func(in *Interp, fr *Frame, args []Value, call *ssa.CallCommon) Value {
		return mkBV(64, kindOf(rvOf(args[0]).t))
	}
	m["(reflect.Value).CanInt"] = func(in *Interp, fr *Frame, args []Value, call *ssa.CallCommon) Value {
		k := kindOf(rvOf(args[0]).t)
		return mkBool(k >= 2 && k <= 6)
	}
	m["(reflect.Value).CanUint"] = func(in *Interp, fr *Frame, args []Value, call *ssa.CallCommon) Value {
		k := kindOf(rvOf(args[0]).t)
		return mkBool(k >= 7 && k <= 12)
	}
	m["(reflect.Value).CanFloat"] = func(in *Interp, fr *Frame, args []Value, call *ssa.CallCommon) Value {
		k := kindOf(rvOf(args[0]).t)
		return mkBool(k == 13 || k == 14)
	}
	m["(reflect.Value).Int"] = func(in *Interp, fr *Frame, args []Value, call *ssa.CallCommon) Value {
		r := rvOf(args[0])
		k := kindOf(r.t)
		if k < 2 || k > 6 {
			panic(targetPanic{msg: "reflect: call of reflect.Value.Int on non-int Value", val: in.mkError("reflect: call of reflect.Value.Int on non-int Value")})
		}
		return tSExt(r.v.(*Term), 64)
	}
	m["(reflect.Value).Uint"] = func(in *Interp, fr *Frame, args []Value, call *ssa.CallCommon) Value {
		r := rvOf(args[0])
		k := kindOf(r.t)
		if k < 7 || k > 12 {
			panic(targetPanic{msg: "reflect: call of reflect.Value.Uint on non-uint Value", val: in.mkError("reflect: call of reflect.Value.Uint on non-uint Value")})
		}
		return tZExt(r.v.(*Term), 64)
	}
	m["(reflect.Value).Float"] = func(in *Interp, fr *Frame, args []Value, call *ssa.CallCommon) Value {
		r := rvOf(args[0])
		switch kindOf(r.t) {
		case 14:
			return r.v
		case 13:
			return tConv(OpFToF, r.v.(*Term), SFP, 64)
		}
		panic(targetPanic{msg: "reflect: call of reflect.Value.Float on non-float Value", val: in.mkError("reflect: call of reflect.Value.Float on non-float Value")})
	}
	m["(reflect.Value).String"] = func(in *Interp, fr *Frame, args []Value, call *ssa.CallCommon) Value {
		r := rvOf(args[0])
		if kindOf(r.t) == 24 {
			return r.v
		}
		return mkStr("<" + r.t.String() + " Value>")
	}
	m["(reflect.Value).Len"] = func(in *Interp, fr *Frame, args []Value, call *ssa.CallCommon) Value {
		r := rvOf(args[0])
		switch x := r.v.(type) {
		case Slice:
			return mkBV(64, uint64(x.len))
		case Str:
			return mkBV(64, uint64(x.Len()))
		case *MapObj:
			if x == nil {
				return mkBV(64, 0)
			}
			return mkBV(64, uint64(x.n))
		case Agg:
			if at, ok := r.t.Underlying().(*types.Array); ok {
				return mkBV(64, uint64(at.Len()))
			}
		}
		panic(targetPanic{msg: "reflect: call of reflect.Value.Len on unsupported Value", val: in.mkError("reflect: Len")})
	}
	m["(reflect.Value).Index"] = func(in *Interp, fr *Frame, args []Value, call *ssa.CallCommon) Value {
		r := rvOf(args[0])
		i := mustConstInt(args[1], "reflect index")
		switch x := r.v.(type) {
		case Slice:
			et := r.t.Underlying().(*types.Slice).Elem()
			if i < 0 || i >= x.len {
				panic(targetPanic{msg: "reflect: slice index out of range", val: in.mkError("reflect: slice index out of range")})
			}
			stride := in.ti.of(et).n
			if isAggType(et) {
				return mkRV(et, Agg(append([]Value(nil), x.obj.cells[x.off+i*stride:x.off+(i+1)*stride]...)))
			}
			return mkRV(et, x.obj.cells[x.off+i*stride])
		case Str:
			return mkRV(types.Typ[types.Uint8], x.At(i))
		}
		panic(inconclusive("reflect.Value.Index on " + r.t.String()))
	}
	m["(reflect.Value).Interface"] = func(in *Interp, fr *Frame, args []Value, call *ssa.CallCommon) Value {
		r := rvOf(args[0])
		if r.t == nil {
			panic(targetPanic{msg: "reflect: call of reflect.Value.Interface on zero Value", val: in.mkError("reflect: Interface on zero Value")})
		}
		if _, ok := r.t.Underlying().(*types.Interface); ok {
			return r.v // the element already is an interface value
		}
		return Iface{t: in.canon(r.t), v: r.v}
	}
	m["(reflect.Value).Elem"] = func(in *Interp, fr *Frame, args []Value, call *ssa.CallCommon) Value {
		r := rvOf(args[0])
		if _, ok := r.t.Underlying().(*types.Interface); ok {
			inner := r.v.(Iface)
			return mkRV(inner.t, inner.v)
		}
		if pt, ok := r.t.Underlying().(*types.Pointer); ok {
			p := r.v.(Ptr)
			if p.obj == nil {
				return mkRV(nil, nil)
			}
			return mkRV(pt.Elem(), in.load(pt.Elem(), p))
		}
		panic(inconclusive("reflect.Value.Elem on " + r.t.String()))
	}
	m["(reflect.Value).IsNil"] = func(in *Interp, fr *Frame, args []Value, call *ssa.CallCommon) Value {
		r := rvOf(args[0])
		switch x := r.v.(type) {
		case Ptr:
			return mkBool(x.obj == nil)
		case Slice:
			return mkBool(x.obj == nil)
		case *MapObj:
			return mkBool(x == nil)
		case *Closure:
			return mkBool(x == nil)
		case Iface:
			return mkBool(x.t == nil)
		}
		panic(targetPanic{msg: "reflect: call of reflect.Value.IsNil on non-nillable Value", val: in.mkError("reflect: IsNil")})
	}
	// opaque reflect.Type: *reflect.rtype whose single cell stashes the go/types type
	mkRT := func(in *Interp, t types.Type) Value {
		rt := in.P.byPath["reflect"].Type("rtype").Type()
		o := in.newObj(in.ti.of(rt).n, "reflect.rtype model")
		for i := range o.cells {
			o.cells[i] = Ptr{}
		}
		o.cells[0] = Iface{t: t, v: nil}
		return Iface{t: in.canon(types.NewPointer(rt)), v: Ptr{o, 0}}
	}
	rtOf := func(v Value) types.Type { return v.(Ptr).obj.cells[0].(Iface).t }
	m["reflect.TypeOf"] = func(in *Interp, fr *Frame, args []Value, call *ssa.CallCommon) Value {
		i := args[0].(Iface)
		if i.t == nil {
			return Iface{}
		}
		in.stubsHit["reflect.TypeOf (opaque type token: Elem/Name/Kind/String only)"] = true
		return mkRT(in, i.t)
	}
	m["(*reflect.rtype).Elem"] = func(in *Interp, fr *Frame, args []Value, call *ssa.CallCommon) Value {
		switch u := rtOf(args[0]).Underlying().(type) {
		case *types.Pointer:
			return mkRT(in, u.Elem())
		case *types.Slice:
			return mkRT(in, u.Elem())
		case *types.Array:
			return mkRT(in, u.Elem())
		case *types.Map:
			return mkRT(in, u.Elem())
		}
		panic(inconclusive("reflect.Type.Elem"))
	}
	m["(*reflect.rtype).Name"] = func(in *Interp, fr *Frame, args []Value, call *ssa.CallCommon) Value {
		if n, ok := rtOf(args[0]).(*types.Named); ok {
			return mkStr(n.Obj().Name())
		}
		return mkStr("")
	}
	m["(*reflect.rtype).String"] = func(in *Interp, fr *Frame, args []Value, call *ssa.CallCommon) Value {
		return mkStr(types.TypeString(rtOf(args[0]), qualName))
	}
	m["(*reflect.rtype).Kind"] = func(in *Interp, fr *Frame, args []Value, call *ssa.CallCommon) Value {
		return mkBV(64, kindOf(rtOf(args[0])))
	}
	m["reflect.DeepEqual"] = func(in *Interp, fr *Frame, args []Value, call *ssa.CallCommon) Value {
		a, b := args[0].(Iface), args[1].(Iface)
		in.stubsHit["reflect.DeepEqual (structural model)"] = true
		if a.t == nil || b.t == nil {
			return mkBool(a.t == nil && b.t == nil)
		}
		if !types.Identical(a.t, b.t) {
			return tFalse
		}
		return in.deepEq(a.t, a.v, b.v, 0)
	}
}
