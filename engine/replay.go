package main

// Native replay: counterexamples and sampled path witnesses are executed by
// the real build (go test -overlay) and compared with what the interpreter
// predicted.

import (
	"crypto/sha1"
	"encoding/json"
	"fmt"
	"os"
	"os/exec"
	"path/filepath"
	"sort"
	"strings"

	"golang.org/x/tools/go/ssa"
)

type replayInput struct {
	Kind string `json:"kind"`
	Val  uint64 `json:"val"`
}
type replayCase struct {
	Property string        `json:"property"`
	Harness  string        `json:"harness"`
	Pkg      string        `json:"pkg"` // directory relative to repo
	Tier     int           `json:"tier"`
	Inputs   []replayInput `json:"inputs"`
	Expect   string        `json:"expect"` // pass | fail | panic
	Label    string        `json:"label"`
	Note     string        `json:"note,omitempty"`
	Obs      []string      `json:"obs,omitempty"`
	Known    []string      `json:"known"` // finding ids with status known
}
type replayFile struct {
	Cases []replayCase `json:"cases"`
}

type replayOutcome struct {
	Result string // pass | fail | panic | assume | error
	Label  string
	Msg    string
	Obs    []string
	Covers string
	Known  []string // labels of known-finding assertions that failed natively
}

func inputsOf(vars []varRec, m Model) []replayInput {
	out := make([]replayInput, 0, len(vars))
	for _, v := range vars {
		if strings.HasPrefix(v.Kind, "_") {
			continue // engine-internal unconstrained value, not a harness input
		}
		val := v.Val
		if v.term != nil {
			val = m[v.Name]
		}
		out = append(out, replayInput{Kind: v.Kind, Val: val})
	}
	return out
}

func pkgRelDir(pkgPath string) string {
	if pkgPath == repoMod {
		return "."
	}
	return strings.TrimPrefix(pkgPath, repoMod+"/")
}

// writeNativeOverlay materialises the overlay used by `go test`: harness
// files, intrinsics and a generated _test file with the harness registry.
func (p *Program) writeNativeOverlay(dir string, onlyRel string) (string, error) {
	repl := map[string]string{}
	os.MkdirAll(dir, 0o755)
	i := 0
	byPkg := map[string][]string{} // rel dir -> harness names
	setupOf := map[string]string{}
	pkgName := map[string]string{}
	takesArg := map[string]bool{}
	for name, fn := range p.harnesses {
		rel := pkgRelDir(fn.Pkg.Pkg.Path())
		byPkg[rel] = append(byPkg[rel], name)
		pkgName[rel] = fn.Pkg.Pkg.Name()
		setupOf[name] = setupDirective(fn)
		takesArg[name] = len(fn.Params) == 1
	}
	for virt, src := range p.overlay {
		if filepath.Dir(virt) != filepath.Join(p.repoDir, onlyRel) {
			continue // other packages' harnesses stay out (they may import this package)
		}
		real := filepath.Join(dir, fmt.Sprintf("f%d_%s", i, filepath.Base(virt)))
		i++
		if err := os.WriteFile(real, src, 0o644); err != nil {
			return "", err
		}
		repl[virt] = real
	}
	for rel, names := range byPkg {
		if rel != onlyRel {
			continue
		}
		sort.Strings(names)
		var sb strings.Builder
		fmt.Fprintf(&sb, "package %s\n\nimport \"testing\"\n\nvar vpHarnessTable = map[string]func(){\n", pkgName[rel])
		for _, n := range names {
			switch {
			case takesArg[n] && setupOf[n] != "":
				fmt.Fprintf(&sb, "\t%q: func() { %s(%s()) },\n", n, n, setupOf[n])
			case takesArg[n]:
				fmt.Fprintf(&sb, "\t%q: func() { %s(nil) },\n", n, n)
			default:
				fmt.Fprintf(&sb, "\t%q: %s,\n", n, n)
			}
		}
		sb.WriteString("}\n\nfunc TestVPReplay(t *testing.T) { vpReplayMain(t, vpHarnessTable) }\n")
		// race companions (functions named R_*) of this package
		sb.WriteString("\nvar vpRaceTable = map[string]func(){\n")
		if sp := p.byPath[pkgPathOf(rel)]; sp != nil {
			var rn []string
			for name, m := range sp.Members {
				if _, ok := m.(*ssa.Function); ok && strings.HasPrefix(name, "R_") {
					rn = append(rn, name)
				}
			}
			sort.Strings(rn)
			for _, n := range rn {
				fmt.Fprintf(&sb, "\t%q: %s,\n", n, n)
			}
		}
		sb.WriteString("}\n\nfunc TestVPRace(t *testing.T) {\n\tif f := vpRaceTable[vpRaceName()]; f != nil {\n\t\tf()\n\t}\n}\n")
		real := filepath.Join(dir, fmt.Sprintf("reg_%s_test.go", strings.ReplaceAll(rel, "/", "_")))
		if err := os.WriteFile(real, []byte(sb.String()), 0o644); err != nil {
			return "", err
		}
		repl[filepath.Join(p.repoDir, rel, "zz_vp_registry_test.go")] = real
	}
	ovPath := filepath.Join(dir, "overlay.json")
	b, _ := json.Marshal(map[string]interface{}{"Replace": repl})
	if err := os.WriteFile(ovPath, b, 0o644); err != nil {
		return "", err
	}
	return ovPath, nil
}

// runNative executes all cases of one package in one go test process.
// runNative runs the cases in one go test process; if that process dies (a
// fatal stack overflow or a hang cannot be recovered in-process) the cases
// without a verdict are re-run one per process, with a time limit each.
func (p *Program) runNative(rel string, cases []replayCase, scratch string) ([]replayOutcome, string, error) {
	outs, raw, err := p.runNativeOnce(rel, cases, scratch, "5m")
	if err != nil {
		return outs, raw, err
	}
	missing := 0
	for _, o := range outs {
		if o.Result == "error" {
			missing++
		}
	}
	if missing == 0 || len(cases) == 1 {
		for i := range outs {
			if outs[i].Result == "error" && len(cases) == 1 {
				outs[i] = classifyDeath(raw)
			}
		}
		return outs, raw, nil
	}
	for i := range cases {
		if outs[i].Result != "error" {
			continue
		}
		o1, raw1, err1 := p.runNativeOnce(rel, cases[i:i+1], scratch, "60s")
		if err1 != nil {
			continue
		}
		if o1[0].Result == "error" {
			o1[0] = classifyDeath(raw1)
		}
		outs[i] = o1[0]
	}
	return outs, raw, nil
}

// classifyDeath turns the output of a go test process that produced no verdict into one.
func classifyDeath(raw string) replayOutcome {
	switch {
	case strings.Contains(raw, "stack overflow") || strings.Contains(raw, "goroutine stack exceeds"):
		return replayOutcome{Result: "panic", Msg: "fatal: stack overflow (process died)"}
	case strings.Contains(raw, "test timed out") || strings.Contains(raw, "panic: test timed out"):
		return replayOutcome{Result: "panic", Msg: "hang: test timed out"}
	case strings.Contains(raw, "fatal error:") || strings.Contains(raw, "panic:"):
		return replayOutcome{Result: "panic", Msg: "process died: " + firstLine(raw[strings.Index(raw, "a")+0:])}
	}
	return replayOutcome{Result: "error"}
}

func (p *Program) runNativeOnce(rel string, cases []replayCase, scratch string, timeout string) ([]replayOutcome, string, error) {
	ov, err := p.writeNativeOverlay(filepath.Join(scratch, "ov-"+strings.ReplaceAll(rel, "/", "_")), rel)
	if err != nil {
		return nil, "", err
	}
	cf := filepath.Join(scratch, "cases-"+strings.ReplaceAll(rel, "/", "_")+".json")
	b, _ := json.Marshal(replayFile{Cases: cases})
	if err := os.WriteFile(cf, b, 0o644); err != nil {
		return nil, "", err
	}
	cmd := exec.Command("go", "test", "-v", "-vet=off", "-count=1", "-overlay", ov, "-run", "^TestVPReplay$", "-timeout", timeout, "./"+rel)
	cmd.Dir = p.repoDir
	cmd.Env = append(os.Environ(), "GOFLAGS=-mod=mod", "GOPROXY=off", "GOSUMDB=off", "GOTOOLCHAIN=local", "VP_REPLAY="+cf)
	out, _ := cmd.CombinedOutput()
	outs := make([]replayOutcome, len(cases))
	for i := range outs {
		outs[i].Result = "error"
	}
	obs := map[int][]string{}
	known := map[int][]string{}
	for _, line := range strings.Split(string(out), "\n") {
		line = strings.TrimSpace(line)
		if strings.HasPrefix(line, "VP-KNOWN ") {
			parts := strings.SplitN(strings.TrimPrefix(line, "VP-KNOWN "), " ", 2)
			var idx int
			fmt.Sscanf(parts[0], "%d", &idx)
			var l []string
			if len(parts) > 1 {
				json.Unmarshal([]byte(parts[1]), &l)
			}
			known[idx] = l
			continue
		}
		if strings.HasPrefix(line, "VP-OBS ") {
			parts := strings.SplitN(strings.TrimPrefix(line, "VP-OBS "), " ", 2)
			var idx int
			fmt.Sscanf(parts[0], "%d", &idx)
			var l []string
			if len(parts) > 1 {
				json.Unmarshal([]byte(parts[1]), &l)
			}
			obs[idx] = l
			continue
		}
		if !strings.HasPrefix(line, "VP-CASE ") {
			continue
		}
		parts := strings.SplitN(strings.TrimPrefix(line, "VP-CASE "), " ", 3)
		var idx int
		fmt.Sscanf(parts[0], "%d", &idx)
		if idx < 0 || idx >= len(outs) || len(parts) < 2 {
			continue
		}
		o := replayOutcome{Result: strings.TrimPrefix(parts[1], "result="), Obs: obs[idx], Known: known[idx]}
		if len(parts) > 2 {
			switch {
			case strings.HasPrefix(parts[2], "label="):
				o.Label = strings.TrimPrefix(parts[2], "label=")
			case strings.HasPrefix(parts[2], "msg="):
				o.Msg = strings.TrimPrefix(parts[2], "msg=")
			case strings.HasPrefix(parts[2], "covers="):
				o.Covers = strings.TrimPrefix(parts[2], "covers=")
			}
		}
		outs[idx] = o
	}
	return outs, string(out), nil
}

func pkgPathOf(rel string) string {
	if rel == "." {
		return repoMod
	}
	return repoMod + "/" + rel
}

// runRace runs the named companion under the race detector; true = a data race was reported.
func (p *Program) runRace(rel, name, scratch string) (bool, string) {
	ov, err := p.writeNativeOverlay(filepath.Join(scratch, "ovrace-"+strings.ReplaceAll(rel, "/", "_")), rel)
	if err != nil {
		return false, err.Error()
	}
	cmd := exec.Command("go", "test", "-race", "-v", "-vet=off", "-count=1", "-overlay", ov, "-run", "^TestVPRace$", "-timeout", "10m", "./"+rel)
	cmd.Dir = p.repoDir
	cmd.Env = append(os.Environ(), "GOFLAGS=-mod=mod", "GOPROXY=off", "GOSUMDB=off", "GOTOOLCHAIN=local", "VP_RACE="+name)
	out, _ := cmd.CombinedOutput()
	return strings.Contains(string(out), "WARNING: DATA RACE"), string(out)
}

func caseHash(c replayCase) string {
	b, _ := json.Marshal(c)
	return fmt.Sprintf("%x", sha1.Sum(b))[:10]
}

func sanitize(s string) string {
	var sb strings.Builder
	for _, r := range s {
		if r >= 'a' && r <= 'z' || r >= 'A' && r <= 'Z' || r >= '0' && r <= '9' || r == '_' || r == '-' {
			sb.WriteRune(r)
		} else {
			sb.WriteByte('_')
		}
	}
	return sb.String()
}
