package main

// Path exploration driver: a shared work list of decision prefixes, N workers
// each with a private interpreter state (deep copy of a snapshot) and a
// private solver process.

import (
	"fmt"
	"go/ast"
	"os"
	"runtime/debug"
	"sort"
	"strings"
	"sync"
	"time"

	"golang.org/x/tools/go/ssa"
)

type pathRecord struct {
	inputs  []varRec
	outcome string // pass | fail:<label> | panic
	covers  []string
	obs     []string
}

// maxViolPaths bounds the work spent on a harness that is already violated: every further path costs a native
// replay, and hanging targets cost a full step budget each.
const maxViolPaths = 40

type HarnessResult struct {
	Name       string
	Paths      int
	Branches   int64
	Asserts    int64
	Steps      int64
	Violations []violation
	Incon      []string
	// exploration was cut short after maxViolPaths violating paths (the outcome is "violated" anyway)
	StoppedOnViolations bool
	Covers              map[string]bool
	Declared            []string
	KnownSeen           map[string]bool
	Funcs               map[*ssa.Function]bool
	Stubs               map[string]bool
	Queries             int
	QUnsat              int
	QSat                int
	QUnk                int
	SolverTime          time.Duration
	Wall                time.Duration
	Witnesses           []pathRecord
	SampleVars          []varRec
	Permute             bool
	SharedW             []string
}

type runOpts struct {
	workers   int
	maxPaths  int
	timeoutMs int
	witnesses int
	deadline  time.Time
}

func setupDirective(fn *ssa.Function) string {
	if fd, ok := fn.Syntax().(*ast.FuncDecl); ok && fd.Doc != nil {
		for _, c := range fd.Doc.List {
			if strings.HasPrefix(c.Text, "//vp:setup ") {
				return strings.TrimSpace(strings.TrimPrefix(c.Text, "//vp:setup "))
			}
		}
	}
	return ""
}

// raceDirective names the companion function that stresses the same operation
// from several goroutines; it is run natively under the race detector to
// confirm a shared-write finding (the engine itself never runs goroutines).
func raceDirective(fn *ssa.Function) string {
	if fd, ok := fn.Syntax().(*ast.FuncDecl); ok && fd.Doc != nil {
		for _, c := range fd.Doc.List {
			if strings.HasPrefix(c.Text, "//vp:race ") {
				return strings.TrimSpace(strings.TrimPrefix(c.Text, "//vp:race "))
			}
		}
	}
	return ""
}

func declaredCovers(fn *ssa.Function) []string {
	var out []string
	seen := map[*ssa.Function]bool{}
	var scan func(f *ssa.Function, depth int)
	scan = func(f *ssa.Function, depth int) {
		if seen[f] || depth > 2 {
			return
		}
		seen[f] = true
		for _, b := range f.Blocks {
			for _, i := range b.Instrs {
				c, ok := i.(*ssa.Call)
				if !ok {
					continue
				}
				if cf, ok := c.Call.Value.(*ssa.Function); ok {
					if cf.Name() == "vpCover" && len(c.Call.Args) == 1 {
						if k, ok := c.Call.Args[0].(*ssa.Const); ok {
							out = append(out, strings.Trim(k.Value.ExactString(), "\""))
						}
					}
				}
			}
		}
		for _, af := range f.AnonFuncs {
			scan(af, depth+1)
		}
	}
	scan(fn, 0)
	return out
}

func (p *Program) runHarness(name string, fn *ssa.Function, o runOpts) *HarnessResult {
	start := time.Now()
	res := &HarnessResult{Name: name, Covers: map[string]bool{}, KnownSeen: map[string]bool{}, Funcs: map[*ssa.Function]bool{}, Stubs: map[string]bool{}}
	res.Declared = declaredCovers(fn)
	snap := p.base
	if sname := setupDirective(fn); sname != "" {
		s, err := p.setupSnapshot(sname, fn.Pkg)
		if err != nil {
			res.Incon = append(res.Incon, err.Error())
			res.Wall = time.Since(start)
			return res
		}
		snap = s
	}
	var mu sync.Mutex
	cond := sync.NewCond(&mu)
	queue := []workItem{{decisions: nil, model: Model{}}}
	active := 0
	stopped := false
	seenViol := map[string]bool{}
	violPaths := 0

	var spawn func()
	worker := func() {
		solver, err := NewSolver(envOr("VP_SOLVER", "z3-new"), o.timeoutMs)
		if err != nil {
			mu.Lock()
			res.Incon = append(res.Incon, "cannot start solver: "+err.Error())
			mu.Unlock()
			return
		}
		defer solver.Close()
		in := newInterp(p, solver)
		for {
			mu.Lock()
			for len(queue) == 0 && active > 0 && !stopped {
				cond.Wait()
			}
			if len(queue) == 0 || stopped {
				mu.Unlock()
				cond.Broadcast()
				break
			}
			// DFS-ish: take from the end
			item := queue[len(queue)-1]
			queue = queue[:len(queue)-1]
			active++
			mu.Unlock()

			rec := in.runPath(fn, item, snap)

			mu.Lock()
			active--
			res.Paths++
			res.Branches += in.branches
			res.Asserts += in.nAsserts
			res.Steps += in.steps
			queue = append(queue, in.newWork...)
			for k := 0; k < len(queue)/2 && k < 4; k++ {
				spawn()
			}
			if len(in.violations) > 0 {
				violPaths++
			}
			for _, v := range in.violations {
				k := v.label + "|" + v.known
				if !seenViol[k] {
					seenViol[k] = true
					res.Violations = append(res.Violations, v)
				}
			}
			for _, s := range in.incon {
				if len(res.Incon) < 20 {
					res.Incon = append(res.Incon, s)
				}
			}
			for k := range in.covers {
				res.Covers[k] = true
			}
			for k := range in.knownSeen {
				res.KnownSeen[k] = true
			}
			for k := range in.funcsHit {
				res.Funcs[k] = true
			}
			for k := range in.stubsHit {
				res.Stubs[k] = true
			}
			if in.permute {
				res.Permute = true
			}
			for _, w := range in.sharedW {
				if len(res.SharedW) < 20 {
					res.SharedW = append(res.SharedW, w)
				}
			}
			if rec != nil && len(res.Witnesses) < o.witnesses {
				res.Witnesses = append(res.Witnesses, *rec)
			}
			if res.SampleVars == nil && rec != nil {
				res.SampleVars = rec.inputs
			}
			if !stopped && violPaths >= maxViolPaths && (len(queue) > 0 || active > 0) {
				// the harness has decided (violated); more paths only add replays of the same defect
				res.StoppedOnViolations = true
				stopped = true
			}
			if !stopped && res.Paths >= o.maxPaths && (len(queue) > 0 || active > 0) {
				res.Incon = append(res.Incon, fmt.Sprintf("path budget %d exhausted with %d pending", o.maxPaths, len(queue)))
				stopped = true
			}
			if !stopped && !o.deadline.IsZero() && time.Now().After(o.deadline) && (len(queue) > 0 || active > 0) {
				res.Incon = append(res.Incon, "time budget exhausted")
				stopped = true
			}
			mu.Unlock()
			cond.Broadcast()
		}
		mu.Lock()
		res.Queries += solver.Queries
		res.QSat += solver.NSat
		res.QUnsat += solver.NUnsat
		res.QUnk += solver.NUnk
		res.SolverTime += solver.Time
		mu.Unlock()
	}
	var wg sync.WaitGroup
	nworkers := 0
	spawn = func() { // called with mu held (or before any worker runs)
		if nworkers >= o.workers {
			return
		}
		nworkers++
		wg.Add(1)
		go func() { defer wg.Done(); worker() }()
	}
	mu.Lock()
	spawn()
	mu.Unlock()
	wg.Wait()
	for _, d := range res.Declared {
		if !res.Covers[d] && !res.StoppedOnViolations {
			res.Incon = append(res.Incon, "vacuity: cover label never reached: "+d)
		}
	}
	sort.Slice(res.Violations, func(i, j int) bool { return res.Violations[i].label < res.Violations[j].label })
	res.Wall = time.Since(start)
	return res
}

// runPath executes one path and returns its witness record (nil if the path
// ended early by assume/infeasibility).
func (in *Interp) runPath(fn *ssa.Function, item workItem, snap *snapshot) (rec *pathRecord) {
	in.pc = nil
	in.decisions = append([]int(nil), item.decisions...)
	in.prefixLen = len(item.decisions)
	in.decIdx = 0
	in.newWork = nil
	in.vars = nil
	in.nvar = 0
	in.steps = 0
	in.depth = 0
	in.callStack = nil
	in.branches = 0
	in.nAsserts = 0
	in.violations = nil
	in.incon = nil
	in.covers = map[string]bool{}
	in.knownSeen = map[string]bool{}
	in.sharedW = nil
	in.sharedAtomic = 0
	in.atomicW = 0
	in.observes = nil
	in.ckEpoch = 0
	in.permute = false
	in.permMode = 0
	in.unwind = 10000
	in.maxSteps = 8_000_000
	in.maxDepth = 3000
	in.curHarness = fn.Name()
	m := item.model
	if m == nil {
		m = Model{}
	}
	in.setModel(m)
	arg := in.restore(snap)
	var args []Value
	if len(fn.Params) == 1 {
		args = []Value{arg}
	}
	outcome := "pass"
	completed := false
	func() {
		defer func() {
			r := recover()
			if r == nil {
				return
			}
			switch e := r.(type) {
			case pathEnd:
				outcome = "end"
			case inconclusiveErr:
				where := ""
				for i := len(in.callStack) - 1; i >= 0 && i >= len(in.callStack)-4; i-- {
					where += " < " + in.callStack[i].Name()
				}
				in.incon = append(in.incon, e.why+" [in"+where+"]")
				outcome = "inconclusive"
			case targetPanic:
				outcome = "panic"
				in.violations = append(in.violations, violation{harness: in.curHarness, label: "uncaught panic", model: in.model,
					vars: append([]varRec(nil), in.vars...), pc: append([]*Term(nil), in.pc...), panicS: e.msg})
			default:
				in.incon = append(in.incon, fmt.Sprintf("engine crash: %v\n%s", r, trimStack(debug.Stack())))
				outcome = "inconclusive"
			}
		}()
		in.callFunction(fn, args, nil, nil, nil)
		completed = true
	}()
	if len(in.violations) > 0 && outcome == "pass" {
		outcome = "fail"
	}
	if !completed || outcome != "pass" {
		return nil
	}
	r := &pathRecord{inputs: in.concreteInputs(in.vars, in.model), outcome: outcome}
	for k := range in.covers {
		r.covers = append(r.covers, k)
	}
	sort.Strings(r.covers)
	for _, o := range in.observes {
		r.obs = append(r.obs, in.renderObs(o, in.ev))
	}
	return r
}

func (in *Interp) concreteInputs(vars []varRec, m Model) []varRec {
	out := make([]varRec, len(vars))
	for i, v := range vars {
		out[i] = v
		if v.term != nil {
			out[i].Val = m[v.Name]
		}
	}
	return out
}

func trimStack(b []byte) string {
	lines := strings.Split(string(b), "\n")
	var keep []string
	for _, l := range lines {
		if strings.Contains(l, "/verif/engine/") || strings.Contains(l, "main.(") {
			keep = append(keep, strings.TrimSpace(l))
		}
		if len(keep) > 24 {
			break
		}
	}
	return strings.Join(keep, "\n")
}

func debugf(format string, a ...interface{}) {
	if os.Getenv("VP_DEBUG") != "" {
		fmt.Fprintf(os.Stderr, format+"\n", a...)
	}
}
