package main

// One long-lived SMT solver process per worker.  All definitions are made at
// the top level (never inside push/pop); a query is a check-sat-assuming over
// the Boolean names of the path-condition conjuncts.  Any "(error" line in the
// solver's output makes the query inconclusive.

import (
	"bufio"
	"bytes"
	"fmt"
	"io"
	"os"
	"os/exec"
	"strconv"
	"strings"
	"sync/atomic"
	"time"
)

type SatResult int

const (
	Unsat SatResult = iota
	Sat
	Unknown
)

type Solver struct {
	kind    string // z3 | z3-new | cvc5
	cmd     *exec.Cmd
	in      io.WriteCloser
	out     *bufio.Reader
	defined map[*Term]bool
	buf     bytes.Buffer
	Queries int
	OneShots int
	NSat    int
	NUnsat  int
	NUnk    int
	Time    time.Duration
	logf    *os.File
	timeout int // ms
	dead    bool
}

var solverLogSeq int32

func NewSolver(kind string, timeoutMs int) (*Solver, error) {
	var cmd *exec.Cmd
	switch kind {
	case "z3":
		cmd = exec.Command("z3", "-in", fmt.Sprintf("-t:%d", timeoutMs))
	case "z3-new":
		cmd = exec.Command("z3-new", "-in", fmt.Sprintf("-t:%d", timeoutMs))
	case "cvc5":
		cmd = exec.Command("cvc5", "--incremental", "--lang=smt2", "--produce-models", fmt.Sprintf("--tlimit-per=%d", timeoutMs))
	default:
		return nil, fmt.Errorf("unknown solver %s", kind)
	}
	in, err := cmd.StdinPipe()
	if err != nil {
		return nil, err
	}
	out, err := cmd.StdoutPipe()
	if err != nil {
		return nil, err
	}
	cmd.Stderr = cmd.Stdout
	if err := cmd.Start(); err != nil {
		return nil, err
	}
	s := &Solver{kind: kind, cmd: cmd, in: in, out: bufio.NewReaderSize(out, 1<<16), defined: map[*Term]bool{}, timeout: timeoutMs}
	if d := os.Getenv("VP_SMTLOG"); d != "" {
		n := atomic.AddInt32(&solverLogSeq, 1)
		s.logf, _ = os.Create(fmt.Sprintf("%s/solver-%s-%d.smt2", d, kind, n))
	}
	s.send("(set-option :produce-models true)\n")
	if kind == "cvc5" {
		s.send("(set-logic ALL)\n")
	}
	return s, nil
}

func (s *Solver) Close() {
	if s == nil || s.cmd == nil {
		return
	}
	s.in.Close()
	done := make(chan struct{})
	go func() { s.cmd.Wait(); close(done) }()
	select {
	case <-done:
	case <-time.After(2 * time.Second):
		s.cmd.Process.Kill()
	}
	if s.logf != nil {
		s.logf.Close()
	}
}

func (s *Solver) send(str string) {
	if s.logf != nil {
		s.logf.WriteString(str)
	}
	io.WriteString(s.in, str)
}

// define emits declarations/definitions for t and everything below it.
func (s *Solver) define(t *Term) {
	if t.op == OpConst || s.defined[t] {
		return
	}
	// iterative post-order to survive deep ite chains
	type fr struct {
		t *Term
		i int
	}
	stack := []fr{{t, 0}}
	for len(stack) > 0 {
		f := &stack[len(stack)-1]
		if f.i < len(f.t.args) {
			a := f.t.args[f.i]
			f.i++
			if a.op != OpConst && !s.defined[a] {
				stack = append(stack, fr{a, 0})
			}
			continue
		}
		x := f.t
		stack = stack[:len(stack)-1]
		if s.defined[x] {
			continue
		}
		s.defined[x] = true
		if x.op == OpVar {
			fmt.Fprintf(&s.buf, "(declare-const %s %s)\n", x.name, sortStr(x.sort, x.w))
		} else {
			fmt.Fprintf(&s.buf, "(define-fun t%d () %s %s)\n", x.id, sortStr(x.sort, x.w), body(x))
		}
	}
}

// readResponse reads one complete s-expression or atom line from the solver.
func (s *Solver) readSexp() (string, error) {
	var sb strings.Builder
	depth := 0
	started := false
	for {
		line, err := s.out.ReadString('\n')
		if err != nil {
			s.dead = true
			return sb.String(), err
		}
		trim := strings.TrimSpace(line)
		if trim == "" && !started {
			continue
		}
		started = true
		sb.WriteString(line)
		inStr := false
		for _, c := range line {
			switch {
			case c == '"':
				inStr = !inStr
			case inStr:
			case c == '(':
				depth++
			case c == ')':
				depth--
			}
		}
		if depth <= 0 {
			return sb.String(), nil
		}
	}
}

// Check decides the conjunction of assumptions. With wantModel the values of
// all variables occurring in the assumptions are returned.
func (s *Solver) Check(assumptions []*Term, wantModel bool) (SatResult, Model, string) {
	if s.dead {
		return Unknown, nil, "solver process died"
	}
	start := time.Now()
	defer func() { s.Time += time.Since(start) }()
	s.Queries++
	if os.Getenv("VP_FP_INCREMENTAL") == "" {
		// incremental cores do badly on floating point (measured: 4x slower even on z3 5.1): go one-shot
		for _, a := range assumptions {
			if a.fp {
				return s.oneShot(assumptions, wantModel)
			}
		}
	}
	if s.Queries%2000 == 0 {
		s.restart() // definitions and learnt clauses accumulate; start afresh now and then
	}
	s.buf.Reset()
	var lits []string
	for _, a := range assumptions {
		if a.op == OpConst {
			if a.val == 0 {
				s.NUnsat++
				return Unsat, nil, ""
			}
			continue
		}
		s.define(a)
		switch {
		case a.op == OpVar:
			lits = append(lits, a.name)
		case a.op == OpNot && a.args[0].op != OpNot:
			s.define(a.args[0])
			lits = append(lits, "(not "+ref(a.args[0])+")")
		default:
			lits = append(lits, ref(a))
		}
	}
	fmt.Fprintf(&s.buf, "(check-sat-assuming (%s))\n", strings.Join(lits, " "))
	s.send(s.buf.String())
	resp, err := s.readSexp()
	if err != nil {
		s.NUnk++
		return Unknown, nil, "solver io: " + err.Error() + " " + resp
	}
	r := strings.TrimSpace(resp)
	switch {
	case strings.Contains(r, "(error"):
		s.NUnk++
		// drain is not needed: every command yields exactly one response
		return Unknown, nil, "solver error: " + r
	case r == "unsat":
		s.NUnsat++
		return Unsat, nil, ""
	case r == "sat":
		s.NSat++
	default:
		// incremental mode gave up: retry as a one-shot query (full preprocessing)
		return s.oneShot(assumptions, wantModel)
	}
	if !wantModel {
		return Sat, nil, ""
	}
	var vars []*Term
	seen := map[*Term]bool{}
	for _, a := range assumptions {
		collectVars(a, seen, &vars)
	}
	m := Model{}
	if len(vars) == 0 {
		return Sat, m, ""
	}
	var names []string
	for _, v := range vars {
		names = append(names, v.name)
	}
	s.send("(get-value (" + strings.Join(names, " ") + "))\n")
	resp, err = s.readSexp()
	if err != nil || strings.Contains(resp, "(error") {
		s.NUnk++
		return Unknown, nil, "get-value failed: " + resp
	}
	if err := parseValues(resp, m); err != nil {
		s.NUnk++
		return Unknown, nil, err.Error()
	}
	return Sat, m, ""
}

// parseValues parses ((name value) ...) with values #x.., #b.., true/false, (_ bvN w).
func parseValues(resp string, m Model) error {
	toks := tokenize(resp)
	// expect ( ( name val ) ( name val ) ... )
	i := 0
	if len(toks) == 0 || toks[0] != "(" {
		return fmt.Errorf("bad get-value response: %s", resp)
	}
	i = 1
	for i < len(toks) && toks[i] == "(" {
		i++
		name := toks[i]
		i++
		var v uint64
		switch {
		case toks[i] == "(":
			// (_ bvN w)
			if i+3 < len(toks) && toks[i+1] == "_" && strings.HasPrefix(toks[i+2], "bv") {
				x, err := strconv.ParseUint(toks[i+2][2:], 10, 64)
				if err != nil {
					return err
				}
				v = x
				i += 5
			} else {
				return fmt.Errorf("unparsed value for %s in %s", name, resp)
			}
		case strings.HasPrefix(toks[i], "#x"):
			x, err := strconv.ParseUint(toks[i][2:], 16, 64)
			if err != nil {
				return err
			}
			v = x
			i++
		case strings.HasPrefix(toks[i], "#b"):
			x, err := strconv.ParseUint(toks[i][2:], 2, 64)
			if err != nil {
				return err
			}
			v = x
			i++
		case toks[i] == "true":
			v = 1
			i++
		case toks[i] == "false":
			v = 0
			i++
		default:
			return fmt.Errorf("unparsed value %q for %s", toks[i], name)
		}
		if toks[i] != ")" {
			return fmt.Errorf("expected ) in %s", resp)
		}
		i++
		m[name] = v
	}
	return nil
}

func tokenize(s string) []string {
	var out []string
	i := 0
	for i < len(s) {
		c := s[i]
		switch {
		case c == ' ' || c == '\n' || c == '\t' || c == '\r':
			i++
		case c == '(' || c == ')':
			out = append(out, string(c))
			i++
		default:
			j := i
			for j < len(s) && !strings.ContainsRune(" \n\t\r()", rune(s[j])) {
				j++
			}
			out = append(out, s[i:j])
			i = j
		}
	}
	return out
}

// Standalone renders a self-contained script deciding the conjunction (for
// cross-checking with other solvers).
func Standalone(assumptions []*Term) string {
	tmp := &Solver{defined: map[*Term]bool{}}
	var sb strings.Builder
	sb.WriteString("(set-logic ALL)\n")
	for _, a := range assumptions {
		tmp.define(a)
	}
	sb.WriteString(tmp.buf.String())
	for _, a := range assumptions {
		fmt.Fprintf(&sb, "(assert %s)\n", ref(a))
	}
	sb.WriteString("(check-sat)\n")
	return sb.String()
}

// RunStandalone runs a script on the named solver binary once.
func RunStandalone(kind, script string, timeoutMs int) (SatResult, string) {
	var cmd *exec.Cmd
	switch kind {
	case "cvc5":
		cmd = exec.Command("cvc5", "--lang=smt2", fmt.Sprintf("--tlimit=%d", timeoutMs))
	default:
		cmd = exec.Command(kind, "-in", fmt.Sprintf("-T:%d", timeoutMs/1000+1))
	}
	cmd.Stdin = strings.NewReader(script)
	out, _ := cmd.CombinedOutput()
	r := strings.TrimSpace(string(out))
	switch {
	case strings.Contains(r, "(error"):
		return Unknown, r
	case r == "sat":
		return Sat, ""
	case r == "unsat":
		return Unsat, ""
	}
	return Unknown, r
}

// oneShot decides the query with fresh solver processes (z3, then z3-new, then
// cvc5): the non-incremental pipeline preprocesses floating-point and other
// hard queries far better than check-sat-assuming does.
func (s *Solver) oneShot(assumptions []*Term, wantModel bool) (SatResult, Model, string) {
	script := Standalone(assumptions)
	var vars []*Term
	seen := map[*Term]bool{}
	for _, a := range assumptions {
		collectVars(a, seen, &vars)
	}
	if wantModel && len(vars) > 0 {
		var names []string
		for _, v := range vars {
			names = append(names, v.name)
		}
		script += "(get-value (" + strings.Join(names, " ") + "))\n"
	}
	script = "(set-option :produce-models true)\n" + script
	why := ""
	for _, kind := range []string{"z3", "z3-new", "cvc5"} {
		var cmd *exec.Cmd
		secs := s.timeout/1000 + 1
		if kind == "cvc5" {
			cmd = exec.Command("cvc5", "--lang=smt2", "--produce-models", fmt.Sprintf("--tlimit=%d", s.timeout))
		} else {
			cmd = exec.Command(kind, "-in", fmt.Sprintf("-T:%d", secs))
		}
		cmd.Stdin = strings.NewReader(script)
		out, _ := cmd.CombinedOutput()
		r := string(out)
		s.OneShots++
		if strings.Contains(r, "(error") && !strings.HasPrefix(strings.TrimSpace(r), "unsat") {
			why = kind + ": " + firstLine(r)
			continue
		}
		first := firstLine(r)
		switch first {
		case "unsat":
			s.NUnsat++
			return Unsat, nil, ""
		case "sat":
			m := Model{}
			if wantModel && len(vars) > 0 {
				rest := r[strings.Index(r, "sat")+3:]
				if err := parseValues(rest, m); err != nil {
					why = kind + ": " + err.Error()
					continue
				}
			}
			s.NSat++
			return Sat, m, ""
		default:
			why = kind + ": " + first
		}
	}
	s.NUnk++
	return Unknown, nil, "one-shot solvers: " + why
}

func firstLine(s string) string {
	s = strings.TrimSpace(s)
	if i := strings.IndexByte(s, '\n'); i >= 0 {
		return strings.TrimSpace(s[:i])
	}
	return s
}

func (s *Solver) restart() {
	n, err := NewSolver(s.kind, s.timeout)
	if err != nil {
		return
	}
	old := *s
	s.cmd, s.in, s.out, s.defined, s.logf, s.dead = n.cmd, n.in, n.out, n.defined, n.logf, false
	go func() {
		old.in.Close()
		old.cmd.Wait()
		if old.logf != nil {
			old.logf.Close()
		}
	}()
}
