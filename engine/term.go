package main

// Hash-consed SMT terms with constant folding, an evaluator under a model and
// an SMT-LIB2 printer.  Constants are never interned (concrete execution
// creates millions of them); every other term is interned in one global table.

import (
	"fmt"
	"math"
	"math/bits"
	"strings"
	"sync"
)

type Sort uint8

const (
	SBool Sort = iota
	SBV
	SFP // floating point, width 32 or 64
)

type Op uint8

const (
	OpConst Op = iota
	OpVar
	OpNot
	OpAnd
	OpOr
	OpEq
	OpIte
	OpAdd
	OpSub
	OpMul
	OpUDiv
	OpSDiv
	OpURem
	OpSRem
	OpShl
	OpLShr
	OpAShr
	OpBAnd
	OpBOr
	OpBXor
	OpBNot
	OpNeg
	OpULt
	OpULe
	OpSLt
	OpSLe
	OpExtract // aux = hi<<8|lo
	OpZExt
	OpSExt
	OpConcat
	OpFAdd
	OpFSub
	OpFMul
	OpFDiv
	OpFNeg
	OpFLt
	OpFLe
	OpFEq
	OpFIsNaN
	OpFFromBits
	OpFFromS
	OpFFromU
	OpFToS
	OpFToU
	OpFToF
	OpFRoundZ // roundToIntegral toward zero (math.Trunc)
	OpFRoundN // toward -inf (math.Floor)
	OpFRoundP // toward +inf (math.Ceil)
)

var opNames = map[Op]string{
	OpNot: "not", OpAnd: "and", OpOr: "or", OpEq: "=", OpIte: "ite",
	OpAdd: "bvadd", OpSub: "bvsub", OpMul: "bvmul", OpUDiv: "bvudiv", OpSDiv: "bvsdiv",
	OpURem: "bvurem", OpSRem: "bvsrem", OpShl: "bvshl", OpLShr: "bvlshr", OpAShr: "bvashr",
	OpBAnd: "bvand", OpBOr: "bvor", OpBXor: "bvxor", OpBNot: "bvnot", OpNeg: "bvneg",
	OpULt: "bvult", OpULe: "bvule", OpSLt: "bvslt", OpSLe: "bvsle", OpConcat: "concat",
	OpFAdd: "fp.add RNE", OpFSub: "fp.sub RNE", OpFMul: "fp.mul RNE", OpFDiv: "fp.div RNE",
	OpFNeg: "fp.neg", OpFRoundZ: "fp.roundToIntegral RTZ", OpFRoundN: "fp.roundToIntegral RTN", OpFRoundP: "fp.roundToIntegral RTP", OpFLt: "fp.lt", OpFLe: "fp.leq", OpFEq: "fp.eq", OpFIsNaN: "fp.isNaN",
}

type Term struct {
	op   Op
	sort Sort
	w    uint8 // bit width (1 for Bool)
	aux  uint16
	id   int32
	val  uint64 // constants
	name string // variables
	args []*Term
	fp   bool // some FP operation below (such queries go to a one-shot solver run)
}

type argKey struct {
	c bool
	w uint8
	s Sort
	v uint64
}
type termKey struct {
	op   Op
	sort Sort
	w    uint8
	aux  uint16
	n    uint8
	a    [3]argKey
	name string
}

var (
	termMu    sync.Mutex
	termTable = map[termKey]*Term{}
	termList  []*Term // by id
)

func mask(w uint8) uint64 {
	if w >= 64 {
		return ^uint64(0)
	}
	return (uint64(1) << w) - 1
}

func (t *Term) IsConst() bool { return t.op == OpConst }

func mkConst(sort Sort, w uint8, v uint64) *Term {
	if sort != SFP {
		v &= mask(w)
	}
	return &Term{op: OpConst, sort: sort, w: w, val: v, id: -1}
}

var (
	tTrue  = &Term{op: OpConst, sort: SBool, w: 1, val: 1, id: -1}
	tFalse = &Term{op: OpConst, sort: SBool, w: 1, val: 0, id: -1}
)

func mkBool(b bool) *Term {
	if b {
		return tTrue
	}
	return tFalse
}
func mkBV(w uint8, v uint64) *Term { return mkConst(SBV, w, v) }

func ak(t *Term) argKey {
	if t.op == OpConst {
		return argKey{true, t.w, t.sort, t.val}
	}
	return argKey{false, 0, 0, uint64(t.id)}
}

func intern(op Op, sort Sort, w uint8, aux uint16, name string, args ...*Term) *Term {
	k := termKey{op: op, sort: sort, w: w, aux: aux, n: uint8(len(args)), name: name}
	for i, a := range args {
		k.a[i] = ak(a)
	}
	termMu.Lock()
	defer termMu.Unlock()
	if t, ok := termTable[k]; ok {
		return t
	}
	t := &Term{op: op, sort: sort, w: w, aux: aux, name: name, id: int32(len(termList))}
	if len(args) > 0 {
		t.args = append([]*Term(nil), args...)
	}
	t.fp = sort == SFP
	for _, a := range args {
		if a.fp || a.sort == SFP {
			t.fp = true
		}
	}
	termList = append(termList, t)
	termTable[k] = t
	return t
}

func mkVar(sort Sort, w uint8, name string) *Term { return intern(OpVar, sort, w, 0, name) }

func sameTerm(a, b *Term) bool {
	if a == b {
		return true
	}
	if a.op == OpConst && b.op == OpConst {
		return a.sort == b.sort && a.w == b.w && a.val == b.val
	}
	return false
}

func sext64(v uint64, w uint8) int64 {
	if w >= 64 {
		return int64(v)
	}
	sh := 64 - w
	return int64(v<<sh) >> sh
}

// ---- constant folding --------------------------------------------------

func f2bits(w uint8, f float64) uint64 {
	if w == 32 {
		return uint64(math.Float32bits(float32(f)))
	}
	return math.Float64bits(f)
}
func bits2f(w uint8, v uint64) float64 {
	if w == 32 {
		return float64(math.Float32frombits(uint32(v)))
	}
	return math.Float64frombits(v)
}

// evalOp computes the op on constant operand values. ok=false when undefined
// (division by zero is SMT-defined but the interpreter guards it beforehand).
func evalOp(op Op, sort Sort, w uint8, aux uint16, args []*Term, av []uint64) uint64 {
	b2u := func(b bool) uint64 {
		if b {
			return 1
		}
		return 0
	}
	var aw uint8
	if len(args) > 0 {
		aw = args[0].w
	}
	switch op {
	case OpNot:
		return av[0] ^ 1
	case OpAnd:
		return av[0] & av[1]
	case OpOr:
		return av[0] | av[1]
	case OpEq:
		if args[0].sort == SFP {
			// structural equality on bit patterns except NaN canonical
			a, b := bits2f(aw, av[0]), bits2f(aw, av[1])
			if a != a && b != b {
				return 1
			}
			return b2u(av[0] == av[1])
		}
		return b2u(av[0] == av[1])
	case OpIte:
		if av[0] != 0 {
			return av[1]
		}
		return av[2]
	case OpAdd:
		return (av[0] + av[1]) & mask(w)
	case OpSub:
		return (av[0] - av[1]) & mask(w)
	case OpMul:
		return (av[0] * av[1]) & mask(w)
	case OpUDiv:
		if av[1] == 0 {
			return mask(w)
		}
		return av[0] / av[1]
	case OpURem:
		if av[1] == 0 {
			return av[0]
		}
		return av[0] % av[1]
	case OpSDiv:
		a, b := sext64(av[0], w), sext64(av[1], w)
		if b == 0 {
			if a >= 0 {
				return mask(w)
			}
			return 1
		}
		if b == -1 {
			return uint64(-a) & mask(w)
		}
		return uint64(a/b) & mask(w)
	case OpSRem:
		a, b := sext64(av[0], w), sext64(av[1], w)
		if b == 0 {
			return av[0]
		}
		if b == -1 {
			return 0
		}
		return uint64(a%b) & mask(w)
	case OpShl:
		if av[1] >= uint64(w) {
			return 0
		}
		return (av[0] << av[1]) & mask(w)
	case OpLShr:
		if av[1] >= uint64(w) {
			return 0
		}
		return av[0] >> av[1]
	case OpAShr:
		a := sext64(av[0], w)
		s := av[1]
		if s >= uint64(w) {
			s = uint64(w) - 1
		}
		return uint64(a>>s) & mask(w)
	case OpBAnd:
		return av[0] & av[1]
	case OpBOr:
		return av[0] | av[1]
	case OpBXor:
		return av[0] ^ av[1]
	case OpBNot:
		return ^av[0] & mask(w)
	case OpNeg:
		return (-av[0]) & mask(w)
	case OpULt:
		return b2u(av[0] < av[1])
	case OpULe:
		return b2u(av[0] <= av[1])
	case OpSLt:
		return b2u(sext64(av[0], aw) < sext64(av[1], aw))
	case OpSLe:
		return b2u(sext64(av[0], aw) <= sext64(av[1], aw))
	case OpExtract:
		lo := uint8(aux & 0xff)
		return (av[0] >> lo) & mask(w)
	case OpZExt:
		return av[0]
	case OpSExt:
		return uint64(sext64(av[0], aw)) & mask(w)
	case OpConcat:
		return (av[0]<<args[1].w | av[1]) & mask(w)
	case OpFAdd, OpFSub, OpFMul, OpFDiv:
		a, b := bits2f(w, av[0]), bits2f(w, av[1])
		var r float64
		if w == 32 {
			x, y := float32(a), float32(b)
			var z float32
			switch op {
			case OpFAdd:
				z = x + y
			case OpFSub:
				z = x - y
			case OpFMul:
				z = x * y
			default:
				z = x / y
			}
			return uint64(math.Float32bits(z))
		}
		switch op {
		case OpFAdd:
			r = a + b
		case OpFSub:
			r = a - b
		case OpFMul:
			r = a * b
		default:
			r = a / b
		}
		return math.Float64bits(r)
	case OpFRoundZ, OpFRoundN, OpFRoundP:
		f := bits2f(w, av[0])
		switch op {
		case OpFRoundZ:
			f = math.Trunc(f)
		case OpFRoundN:
			f = math.Floor(f)
		default:
			f = math.Ceil(f)
		}
		return f2bits(w, f)
	case OpFNeg:
		if w == 32 {
			return av[0] ^ (1 << 31)
		}
		return av[0] ^ (1 << 63)
	case OpFLt:
		return b2u(bits2f(aw, av[0]) < bits2f(aw, av[1]))
	case OpFLe:
		return b2u(bits2f(aw, av[0]) <= bits2f(aw, av[1]))
	case OpFEq:
		return b2u(bits2f(aw, av[0]) == bits2f(aw, av[1]))
	case OpFIsNaN:
		f := bits2f(aw, av[0])
		return b2u(f != f)
	case OpFFromBits:
		return av[0]
	case OpFFromS:
		return f2bitsInt(w, sext64(av[0], aw), true, av[0])
	case OpFFromU:
		return f2bitsInt(w, 0, false, av[0])
	case OpFToS:
		f := bits2f(aw, av[0])
		return uint64(int64(f)) & mask(w)
	case OpFToU:
		f := bits2f(aw, av[0])
		if f >= 9223372036854775808.0 {
			return (uint64(int64(f-9223372036854775808.0)) + (1 << 63)) & mask(w)
		}
		return uint64(int64(f)) & mask(w)
	case OpFToF:
		return f2bits(w, bits2f(aw, av[0]))
	}
	panic(fmt.Sprintf("evalOp: op %d", op))
}

func f2bitsInt(w uint8, s int64, signed bool, u uint64) uint64 {
	if w == 32 {
		if signed {
			return uint64(math.Float32bits(float32(s)))
		}
		return uint64(math.Float32bits(float32(u)))
	}
	if signed {
		return math.Float64bits(float64(s))
	}
	return math.Float64bits(float64(u))
}

func mk(op Op, sort Sort, w uint8, aux uint16, args ...*Term) *Term {
	allc := true
	for _, a := range args {
		if a.op != OpConst {
			allc = false
			break
		}
	}
	if allc {
		var av [3]uint64
		for i, a := range args {
			av[i] = a.val
		}
		v := evalOp(op, sort, w, aux, args, av[:len(args)])
		if sort == SBool {
			return mkBool(v != 0)
		}
		return mkConst(sort, w, v)
	}
	return intern(op, sort, w, aux, "", args...)
}

// ---- smart constructors --------------------------------------------------

func tNot(a *Term) *Term {
	if a.op == OpNot {
		return a.args[0]
	}
	return mk(OpNot, SBool, 1, 0, a)
}
func tAnd(a, b *Term) *Term {
	if a.op == OpConst {
		if a.val == 0 {
			return tFalse
		}
		return b
	}
	if b.op == OpConst {
		if b.val == 0 {
			return tFalse
		}
		return a
	}
	if a == b {
		return a
	}
	return mk(OpAnd, SBool, 1, 0, a, b)
}
func tOr(a, b *Term) *Term {
	if a.op == OpConst {
		if a.val != 0 {
			return tTrue
		}
		return b
	}
	if b.op == OpConst {
		if b.val != 0 {
			return tTrue
		}
		return a
	}
	if a == b {
		return a
	}
	return mk(OpOr, SBool, 1, 0, a, b)
}
func tEq(a, b *Term) *Term {
	if a.sort != b.sort || a.w != b.w {
		panic(fmt.Sprintf("tEq sort mismatch %v/%d vs %v/%d", a.sort, a.w, b.sort, b.w))
	}
	if a == b && a.sort != SFP {
		return tTrue
	}
	if a.sort == SBool {
		if a.op == OpConst {
			if a.val != 0 {
				return b
			}
			return tNot(b)
		}
		if b.op == OpConst {
			if b.val != 0 {
				return a
			}
			return tNot(a)
		}
	}
	if a.sort == SFP {
		// Go == on floats is IEEE equality
		return mk(OpFEq, SBool, 1, 0, a, b)
	}
	if a.op == OpConst && b.op == OpIte {
		a, b = b, a
	}
	if b.op == OpConst && a.op == OpIte {
		if r, ok := iteLeavesAgree(a, func(l *Term) bool { return l.val == b.val }); ok {
			return mkBool(r)
		}
	}
	return mk(OpEq, SBool, 1, 0, a, b)
}
func tIte(c, a, b *Term) *Term {
	if c.op == OpConst {
		if c.val != 0 {
			return a
		}
		return b
	}
	if sameTerm(a, b) {
		return a
	}
	if a.sort == SBool {
		if a.op == OpConst && b.op == OpConst {
			if a.val != 0 {
				return c
			}
			return tNot(c)
		}
	}
	return mk(OpIte, a.sort, a.w, 0, c, a, b)
}
// iteLeavesAgree: t is a tree of ite nodes whose leaves are all constants; if
// f gives the same answer on every leaf that answer is returned. (Digits
// produced by table lookups are such trees; without this every byte test of a
// parser over them would cost a solver query.)
func iteLeavesAgree(t *Term, f func(leaf *Term) bool) (bool, bool) {
	first, have := false, false
	n := 0
	var walk func(t *Term) bool
	walk = func(t *Term) bool {
		n++
		if n > 2000 {
			return false
		}
		switch t.op {
		case OpConst:
			r := f(t)
			if !have {
				first, have = r, true
				return true
			}
			return r == first
		case OpIte:
			return walk(t.args[1]) && walk(t.args[2])
		}
		return false
	}
	if t.op != OpIte || !walk(t) {
		return false, false
	}
	return first, true
}

func tBin(op Op, a, b *Term) *Term {
	if a.w != b.w {
		panic(fmt.Sprintf("tBin width mismatch op=%d %d vs %d", op, a.w, b.w))
	}
	switch op {
	case OpULt, OpULe, OpSLt, OpSLe:
		if b.op == OpConst && a.op == OpIte {
			if r, ok := iteLeavesAgree(a, func(l *Term) bool { return mk(op, SBool, 1, 0, l, b).val != 0 }); ok {
				return mkBool(r)
			}
		}
		if a.op == OpConst && b.op == OpIte {
			if r, ok := iteLeavesAgree(b, func(l *Term) bool { return mk(op, SBool, 1, 0, a, l).val != 0 }); ok {
				return mkBool(r)
			}
		}
		return mk(op, SBool, 1, 0, a, b)
	case OpFLt, OpFLe, OpFEq:
		return mk(op, SBool, 1, 0, a, b)
	case OpAdd, OpBOr, OpBXor:
		if a.op == OpConst && a.val == 0 {
			return b
		}
		if b.op == OpConst && b.val == 0 {
			return a
		}
	case OpSub, OpShl, OpLShr, OpAShr:
		if b.op == OpConst && b.val == 0 {
			return a
		}
	case OpUDiv, OpURem:
		// dividing a zero-extended narrow value by a small constant: do it at the
		// narrow width (a 64-bit divider per query is what stalls bit-blasting)
		if a.op == OpZExt && b.op == OpConst && b.val != 0 {
			n := a.args[0]
			if n.w < a.w && b.val <= mask(n.w) {
				return tZExt(mk(op, SBV, n.w, 0, n, mkBV(n.w, b.val)), a.w)
			}
		}
	}
	return mk(op, a.sort, a.w, 0, a, b)
}
func tUn(op Op, a *Term) *Term {
	if op == OpFIsNaN {
		return mk(op, SBool, 1, 0, a)
	}
	return mk(op, a.sort, a.w, 0, a)
}
func tExtract(a *Term, hi, lo uint8) *Term {
	if lo == 0 && hi == a.w-1 {
		return a
	}
	return mk(OpExtract, SBV, hi-lo+1, uint16(hi)<<8|uint16(lo), a)
}
func tZExt(a *Term, w uint8) *Term {
	if w == a.w {
		return a
	}
	return mk(OpZExt, SBV, w, 0, a)
}
func tSExt(a *Term, w uint8) *Term {
	if w == a.w {
		return a
	}
	return mk(OpSExt, SBV, w, 0, a)
}

// tResize converts a BV term of (signed?) source to width w, Go conversion semantics.
func tResize(a *Term, signed bool, w uint8) *Term {
	switch {
	case w == a.w:
		return a
	case w < a.w:
		return tExtract(a, w-1, 0)
	case signed:
		return tSExt(a, w)
	default:
		return tZExt(a, w)
	}
}
func tConv(op Op, a *Term, sort Sort, w uint8) *Term { return mk(op, sort, w, 0, a) }

// bool -> bv1 style helpers
func tBoolToBV(c *Term, w uint8) *Term { return tIte(c, mkBV(w, 1), mkBV(w, 0)) }

// ---- evaluation under a model ---------------------------------------------

type Model map[string]uint64

type evalCtx struct {
	m    Model
	memo map[*Term]uint64
}

func newEval(m Model) *evalCtx { return &evalCtx{m: m, memo: map[*Term]uint64{}} }

func (e *evalCtx) eval(t *Term) uint64 {
	switch t.op {
	case OpConst:
		return t.val
	case OpVar:
		return e.m[t.name]
	}
	if v, ok := e.memo[t]; ok {
		return v
	}
	var av [3]uint64
	// short-circuit ite to avoid evaluating huge dead chains
	if t.op == OpIte {
		c := e.eval(t.args[0])
		var v uint64
		if c != 0 {
			v = e.eval(t.args[1])
		} else {
			v = e.eval(t.args[2])
		}
		e.memo[t] = v
		return v
	}
	for i, a := range t.args {
		av[i] = e.eval(a)
	}
	v := evalOp(t.op, t.sort, t.w, t.aux, t.args, av[:len(t.args)])
	e.memo[t] = v
	return v
}

// ---- printing ------------------------------------------------------------

func sortStr(s Sort, w uint8) string {
	switch s {
	case SBool:
		return "Bool"
	case SBV:
		return fmt.Sprintf("(_ BitVec %d)", w)
	default:
		if w == 32 {
			return "(_ FloatingPoint 8 24)"
		}
		return "(_ FloatingPoint 11 53)"
	}
}

func constStr(t *Term) string {
	switch t.sort {
	case SBool:
		if t.val != 0 {
			return "true"
		}
		return "false"
	case SBV:
		if t.w%4 == 0 {
			return fmt.Sprintf("#x%0*x", int(t.w/4), t.val)
		}
		return fmt.Sprintf("#b%0*b", int(t.w), t.val)
	default:
		if t.w == 32 {
			return fmt.Sprintf("((_ to_fp 8 24) #x%08x)", t.val)
		}
		return fmt.Sprintf("((_ to_fp 11 53) #x%016x)", t.val)
	}
}

// ref is how a term is referred to inside another term.
func ref(t *Term) string {
	switch t.op {
	case OpConst:
		return constStr(t)
	case OpVar:
		return t.name
	}
	return fmt.Sprintf("t%d", t.id)
}

// body prints the defining expression of a non-leaf term using refs of args.
func body(t *Term) string {
	var sb strings.Builder
	a := func(i int) string { return ref(t.args[i]) }
	fpS := func(w uint8) string {
		if w == 32 {
			return "8 24"
		}
		return "11 53"
	}
	switch t.op {
	case OpExtract:
		fmt.Fprintf(&sb, "((_ extract %d %d) %s)", t.aux>>8, t.aux&0xff, a(0))
	case OpZExt:
		fmt.Fprintf(&sb, "((_ zero_extend %d) %s)", t.w-t.args[0].w, a(0))
	case OpSExt:
		fmt.Fprintf(&sb, "((_ sign_extend %d) %s)", t.w-t.args[0].w, a(0))
	case OpFFromBits:
		fmt.Fprintf(&sb, "((_ to_fp %s) %s)", fpS(t.w), a(0))
	case OpFFromS:
		fmt.Fprintf(&sb, "((_ to_fp %s) RNE %s)", fpS(t.w), a(0))
	case OpFFromU:
		fmt.Fprintf(&sb, "((_ to_fp_unsigned %s) RNE %s)", fpS(t.w), a(0))
	case OpFToF:
		fmt.Fprintf(&sb, "((_ to_fp %s) RNE %s)", fpS(t.w), a(0))
	case OpFToS:
		fmt.Fprintf(&sb, "((_ fp.to_sbv %d) RTZ %s)", t.w, a(0))
	case OpFToU:
		fmt.Fprintf(&sb, "((_ fp.to_ubv %d) RTZ %s)", t.w, a(0))
	case OpEq:
		fmt.Fprintf(&sb, "(= %s %s)", a(0), a(1))
	default:
		sb.WriteString("(")
		sb.WriteString(opNames[t.op])
		for i := range t.args {
			sb.WriteString(" ")
			sb.WriteString(a(i))
		}
		sb.WriteString(")")
	}
	return sb.String()
}

// String renders a term fully inlined (debugging, evidence samples); capped.
func (t *Term) String() string {
	var sb strings.Builder
	var rec func(t *Term, d int)
	rec = func(t *Term, d int) {
		if sb.Len() > 400 {
			sb.WriteString("…")
			return
		}
		switch t.op {
		case OpConst:
			if t.sort == SBV {
				fmt.Fprintf(&sb, "%d:%d", t.val, t.w)
			} else {
				sb.WriteString(constStr(t))
			}
		case OpVar:
			sb.WriteString(t.name)
		default:
			sb.WriteString("(")
			if n, ok := opNames[t.op]; ok {
				sb.WriteString(n)
			} else {
				fmt.Fprintf(&sb, "op%d", t.op)
			}
			for _, a := range t.args {
				sb.WriteString(" ")
				rec(a, d+1)
			}
			sb.WriteString(")")
		}
	}
	rec(t, 0)
	return sb.String()
}

func popcount(x uint64) int { return bits.OnesCount64(x) }

// collectVars appends all variables below t (deduplicated through seen).
func collectVars(t *Term, seen map[*Term]bool, out *[]*Term) {
	if t.op == OpConst || seen[t] {
		return
	}
	seen[t] = true
	if t.op == OpVar {
		*out = append(*out, t)
		return
	}
	for _, a := range t.args {
		collectVars(a, seen, out)
	}
}
