package main

// Interpreter values and the flattened memory model.

import (
	"fmt"
	"go/types"
	"strings"

	"golang.org/x/tools/go/ssa"
)

// Value is one of:
//   *Term            bool / integer / float scalar (constant or symbolic)
//   Str              string
//   Ptr              pointer (also unsafe.Pointer)
//   Slice            slice
//   *MapObj          map (nil map = (*MapObj)(nil))
//   Iface            interface value
//   *Closure         func value (nil func = (*Closure)(nil))
//   Agg              struct or array value (flattened leaves)
//   Tuple            multiple results
//   *RangeIter       result of ssa.Range
//   SymPtr           pointer with symbolic element index
type Value interface{}

type Obj struct {
	cells  []Value
	epoch  int32 // allocation epoch (for shared-write monitor)
	frozen bool  // immutable, shared between paths (stdlib init data)
	id     int32
	what   string
}

type Ptr struct {
	obj *Obj
	off int
}

type SymPtr struct {
	obj    *Obj
	off    int // base offset
	stride int
	n      int
	idx    *Term // 64-bit index term, known in [0,n)
}

type Slice struct {
	obj *Obj
	off int // in cells
	len int // in elements
	cap int
	// stride is implied by the static element type at each use site
}

type Str struct {
	s   string
	sym []*Term // non-nil => symbolic bytes (each BV8, possibly const)
}

type Iface struct {
	t types.Type // nil => nil interface
	v Value
}

type Closure struct {
	fn *ssa.Function
	fv []Value
	// builtin-like native closures used by models
	native func(in *Interp, args []Value) Value
}

type Agg []Value
type Tuple []Value

type mapEntry struct {
	k, v    Value
	deleted bool
	conc    bool // key fully concrete (present in index)
}
type MapObj struct {
	entries []mapEntry
	index   map[string]int // canonical concrete key -> entry index
	n       int
	nsym    int // live entries with symbolic keys
	epoch   int32
	frozen  bool
	keyT    types.Type
	valT    types.Type
}

type RangeIter struct {
	m    *MapObj
	keys []Value
	i    int
	s    Str
	pos  int
	isS  bool
}

func (s Str) Len() int {
	if s.sym != nil {
		return len(s.sym)
	}
	return len(s.s)
}
func (s Str) IsConcrete() bool {
	if s.sym == nil {
		return true
	}
	for _, b := range s.sym {
		if !b.IsConst() {
			return false
		}
	}
	return true
}
func (s Str) Concrete() string {
	if s.sym == nil {
		return s.s
	}
	var sb strings.Builder
	for _, b := range s.sym {
		sb.WriteByte(byte(b.val))
	}
	return sb.String()
}
func (s Str) Norm() Str {
	if s.sym != nil && s.IsConcrete() {
		return Str{s: s.Concrete()}
	}
	return s
}
func (s Str) At(i int) *Term {
	if s.sym != nil {
		return s.sym[i]
	}
	return mkBV(8, uint64(s.s[i]))
}
func (s Str) Slice(lo, hi int) Str {
	if s.sym != nil {
		return Str{sym: s.sym[lo:hi:hi]}.Norm()
	}
	return Str{s: s.s[lo:hi]}
}
func (s Str) Bytes() []*Term {
	if s.sym != nil {
		return s.sym
	}
	out := make([]*Term, len(s.s))
	for i := 0; i < len(s.s); i++ {
		out[i] = mkBV(8, uint64(s.s[i]))
	}
	return out
}
func strConcat(a, b Str) Str {
	if a.sym == nil && b.sym == nil {
		return Str{s: a.s + b.s}
	}
	if a.Len() == 0 {
		return b
	}
	if b.Len() == 0 {
		return a
	}
	out := make([]*Term, 0, a.Len()+b.Len())
	out = append(out, a.Bytes()...)
	out = append(out, b.Bytes()...)
	return Str{sym: out}
}
func mkStr(s string) Str { return Str{s: s} }

// ---- type layout --------------------------------------------------------

type layout struct {
	n      int   // leaf count
	fields []int // struct: leaf offset of field i
	elem   int   // array: leaf count of element
}

type typeInfo struct {
	layouts map[types.Type]*layout
}

func (ti *typeInfo) of(t types.Type) *layout {
	if l, ok := ti.layouts[t]; ok {
		return l
	}
	l := &layout{}
	switch u := t.Underlying().(type) {
	case *types.Struct:
		off := 0
		l.fields = make([]int, u.NumFields())
		for i := 0; i < u.NumFields(); i++ {
			l.fields[i] = off
			off += ti.of(u.Field(i).Type()).n
		}
		l.n = off
	case *types.Array:
		l.elem = ti.of(u.Elem()).n
		l.n = l.elem * int(u.Len())
	case *types.Tuple:
		l.n = u.Len()
	default:
		l.n = 1
	}
	ti.layouts[t] = l
	return l
}

func isAggType(t types.Type) bool {
	switch t.Underlying().(type) {
	case *types.Struct, *types.Array:
		return true
	}
	return false
}

// scalarSort returns the sort/width of a basic scalar type.
func scalarSort(t types.Type) (Sort, uint8, bool, bool) { // sort, width, signed, ok
	b, ok := t.Underlying().(*types.Basic)
	if !ok {
		return 0, 0, false, false
	}
	switch b.Kind() {
	case types.Bool, types.UntypedBool:
		return SBool, 1, false, true
	case types.Int8:
		return SBV, 8, true, true
	case types.Int16:
		return SBV, 16, true, true
	case types.Int32, types.UntypedRune:
		return SBV, 32, true, true
	case types.Int64, types.Int, types.UntypedInt:
		return SBV, 64, true, true
	case types.Uint8:
		return SBV, 8, false, true
	case types.Uint16:
		return SBV, 16, false, true
	case types.Uint32:
		return SBV, 32, false, true
	case types.Uint64, types.Uint, types.Uintptr:
		return SBV, 64, false, true
	case types.Float32:
		return SFP, 32, true, true
	case types.Float64, types.UntypedFloat:
		return SFP, 64, true, true
	}
	return 0, 0, false, false
}

func (ti *typeInfo) zeroLeaf(t types.Type) Value {
	switch u := t.Underlying().(type) {
	case *types.Basic:
		if u.Info()&types.IsString != 0 {
			return Str{}
		}
		if u.Kind() == types.UnsafePointer {
			return Ptr{}
		}
		if s, w, _, ok := scalarSort(t); ok {
			return mkConst(s, w, 0)
		}
		panic(inconclusive("unsupported basic type " + t.String()))
	case *types.Pointer:
		return Ptr{}
	case *types.Slice:
		return Slice{}
	case *types.Map:
		return (*MapObj)(nil)
	case *types.Signature:
		return (*Closure)(nil)
	case *types.Interface:
		return Iface{}
	case *types.Chan:
		return Ptr{} // nil channel; any operation on it is unsupported
	case *types.TypeParam:
		panic(inconclusive("type parameter at run time"))
	}
	panic(inconclusive("zeroLeaf: " + t.String()))
}

func (ti *typeInfo) appendZero(dst []Value, t types.Type) []Value {
	switch u := t.Underlying().(type) {
	case *types.Struct:
		for i := 0; i < u.NumFields(); i++ {
			dst = ti.appendZero(dst, u.Field(i).Type())
		}
		return dst
	case *types.Array:
		n := int(u.Len())
		if n == 0 {
			return dst
		}
		first := len(dst)
		dst = ti.appendZero(dst, u.Elem())
		en := len(dst) - first
		for i := 1; i < n; i++ {
			dst = append(dst, dst[first:first+en]...)
		}
		return dst
	}
	return append(dst, ti.zeroLeaf(t))
}

// zero returns the zero Value of type t (Agg for aggregates).
func (ti *typeInfo) zero(t types.Type) Value {
	if isAggType(t) {
		return Agg(ti.appendZero(nil, t))
	}
	if tt, ok := t.(*types.Tuple); ok {
		out := make(Tuple, tt.Len())
		for i := range out {
			out[i] = ti.zero(tt.At(i).Type())
		}
		return out
	}
	return ti.zeroLeaf(t)
}

// ---- deep copy -----------------------------------------------------------

type copier struct {
	objs map[*Obj]*Obj
	maps map[*MapObj]*MapObj
}

func newCopier() *copier {
	return &copier{objs: map[*Obj]*Obj{}, maps: map[*MapObj]*MapObj{}}
}

func (c *copier) obj(o *Obj) *Obj {
	if o == nil || o.frozen {
		return o
	}
	if n, ok := c.objs[o]; ok {
		return n
	}
	n := &Obj{cells: make([]Value, len(o.cells)), epoch: o.epoch, id: o.id, what: o.what}
	c.objs[o] = n
	for i, v := range o.cells {
		n.cells[i] = c.val(v)
	}
	return n
}

func (c *copier) mapObj(m *MapObj) *MapObj {
	if m == nil || m.frozen {
		return m
	}
	if n, ok := c.maps[m]; ok {
		return n
	}
	n := &MapObj{entries: make([]mapEntry, len(m.entries)), n: m.n, nsym: m.nsym, epoch: m.epoch, keyT: m.keyT, valT: m.valT}
	c.maps[m] = n
	if m.index != nil {
		n.index = make(map[string]int, len(m.index))
		for k, v := range m.index {
			n.index[k] = v
		}
	}
	for i, e := range m.entries {
		n.entries[i] = mapEntry{k: c.val(e.k), v: c.val(e.v), deleted: e.deleted, conc: e.conc}
	}
	return n
}

func (c *copier) vals(vs []Value) []Value {
	if vs == nil {
		return nil
	}
	out := make([]Value, len(vs))
	for i, v := range vs {
		out[i] = c.val(v)
	}
	return out
}

func (c *copier) val(v Value) Value {
	switch x := v.(type) {
	case nil, *Term, Str:
		return v
	case Ptr:
		if x.obj == nil {
			return v
		}
		return Ptr{c.obj(x.obj), x.off}
	case SymPtr:
		x.obj = c.obj(x.obj)
		return x
	case Slice:
		if x.obj == nil {
			return v
		}
		x.obj = c.obj(x.obj)
		return x
	case *MapObj:
		return c.mapObj(x)
	case Iface:
		if x.t == nil {
			return v
		}
		return Iface{x.t, c.val(x.v)}
	case *Closure:
		if x == nil || len(x.fv) == 0 {
			return v
		}
		return &Closure{fn: x.fn, fv: c.vals(x.fv), native: x.native}
	case Agg:
		return Agg(c.vals(x))
	case Tuple:
		return Tuple(c.vals(x))
	case *RangeIter:
		return &RangeIter{m: c.mapObj(x.m), keys: c.vals(x.keys), i: x.i, s: x.s, pos: x.pos, isS: x.isS}
	}
	panic(fmt.Sprintf("copier: unknown value %T", v))
}

// ---- misc ----------------------------------------------------------------

type inconclusiveErr struct{ why string }

func inconclusive(why string) inconclusiveErr { return inconclusiveErr{why} }

func constInt(v Value) (int64, bool) {
	t, ok := v.(*Term)
	if !ok || !t.IsConst() {
		return 0, false
	}
	return sext64(t.val, t.w), true
}

func mustConstInt(v Value, what string) int {
	n, ok := constInt(v)
	if !ok {
		panic(inconclusive("symbolic " + what))
	}
	return int(n)
}

func showValue(v Value) string {
	switch x := v.(type) {
	case nil:
		return "<nil>"
	case *Term:
		return x.String()
	case Str:
		if x.sym == nil {
			return fmt.Sprintf("%q", x.s)
		}
		var sb strings.Builder
		sb.WriteString("sym\"")
		for _, b := range x.sym {
			if b.IsConst() {
				sb.WriteByte(byte(b.val))
			} else {
				sb.WriteString("{" + b.String() + "}")
			}
		}
		sb.WriteString("\"")
		return sb.String()
	case Ptr:
		if x.obj == nil {
			return "nilptr"
		}
		return fmt.Sprintf("&o%d+%d", x.obj.id, x.off)
	case Slice:
		return fmt.Sprintf("slice(len=%d)", x.len)
	case Iface:
		if x.t == nil {
			return "nil-iface"
		}
		return fmt.Sprintf("iface(%s:%s)", x.t, showValue(x.v))
	case Agg:
		var parts []string
		for _, c := range x {
			parts = append(parts, showValue(c))
		}
		return "{" + strings.Join(parts, ",") + "}"
	case Tuple:
		var parts []string
		for _, c := range x {
			parts = append(parts, showValue(c))
		}
		return "(" + strings.Join(parts, ",") + ")"
	case *Closure:
		if x == nil {
			return "nilfunc"
		}
		if x.fn != nil {
			return "func:" + x.fn.String()
		}
		return "func:native"
	case *MapObj:
		if x == nil {
			return "nilmap"
		}
		return fmt.Sprintf("map(n=%d)", x.n)
	}
	return fmt.Sprintf("%T", v)
}
