package meta

import "github.com/freeconf/yang/val"

// C02 (enum values / bit positions): RFC 7950 9.6.4.2 / 9.7.4.2 - a stated
// value wins, otherwise the value is one greater than the highest so far (the
// first one defaults to 0). The schema is built through the public Builder (the
// same calls the parser makes) with symbolic values and "is stated" flags.

func c02N() int {
	if vpTier() > 0 {
		return 5
	}
	return 4
}

func H_C02_enum_numbering() {
	b := &Builder{}
	m := b.Module("m", nil)
	b.Namespace(m, "urn:m")
	b.Prefix(m, "p")
	leaf := b.Leaf(m, "x")
	t := b.Type(leaf, "enumeration")
	n := c02N()
	want := make([]int, n)
	names := []string{"a", "b", "c", "d", "e"}
	highest := 0
	any := false
	for i := 0; i < n; i++ {
		e := b.Enum(t, names[i])
		stated := vpBool()
		if stated {
			v := vpInt32() // legal range of an enum value
			vpAssume(v >= -1000000 && v <= 1000000)
			// values of one enumeration are unique
			for j := 0; j < i; j++ {
				vpAssume(int(v) != want[j])
			}
			b.EnumValue(e, int(v))
			want[i] = int(v)
		} else if !any {
			want[i] = 0
		} else {
			want[i] = highest + 1
		}
		if !any || want[i] > highest {
			highest = want[i]
		}
		any = true
	}
	vpAssert(b.LastErr == nil, "builder accepts the enumeration")
	err := Compile(m)
	vpAssert(err == nil, "module compiles")
	lt := leaf.Type()
	vpAssert(lt.Format() == val.FmtEnum && len(lt.Enum()) == n && len(lt.Enums()) == n, "all enums present")
	for i := 0; i < n; i++ {
		vpAssertK("C02-enum-numbering", true, lt.Enum()[i].Id == want[i] && lt.Enum()[i].Label == names[i], "enum value: stated value wins, otherwise highest so far + 1 (first = 0)")
		vpAssertK("C02-enum-numbering", true, lt.Enums()[i].Value() == want[i], "Enums()[i].Value() agrees")
	}
	vpCover("reached")
}

func H_C02_bit_positions() {
	b := &Builder{}
	m := b.Module("m", nil)
	b.Namespace(m, "urn:m")
	b.Prefix(m, "p")
	leaf := b.Leaf(m, "x")
	t := b.Type(leaf, "bits")
	n := c02N()
	want := make([]int, n)
	names := []string{"a", "b", "c", "d", "e"}
	highest := 0
	any := false
	for i := 0; i < n; i++ {
		bit := b.Bit(t, names[i])
		stated := vpBool()
		if stated {
			v := vpUint16() // positions are non-negative
			for j := 0; j < i; j++ {
				vpAssume(int(v) != want[j])
			}
			b.Position(bit, int(v))
			want[i] = int(v)
		} else if !any {
			want[i] = 0
		} else {
			want[i] = highest + 1
		}
		if !any || want[i] > highest {
			highest = want[i]
		}
		any = true
	}
	vpAssert(b.LastErr == nil && Compile(m) == nil, "module compiles")
	bits := leaf.Type().Bits()
	vpAssert(len(bits) == n, "all bits present")
	for i := 0; i < n; i++ {
		vpAssertK("C02-bit-positions", true, bits[i].Position == want[i] && bits[i].Ident() == names[i], "bit position: stated position wins, otherwise highest so far + 1 (first = 0)")
	}
	vpCover("reached")
}
