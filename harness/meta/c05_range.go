package meta

import "github.com/freeconf/yang/val"

// C05 (unit level): RangeNumber / RangeEntry / Range decide membership exactly,
// for every bound and every candidate, and never crash (also for min / max).

func rnInt(x int64) RangeNumber   { return RangeNumber{str: "i", integer: &x} }
func rnUint(x uint64) RangeNumber { return RangeNumber{str: "u", unsigned: &x} }
func rnFloat(x float64) RangeNumber {
	return RangeNumber{str: "f", float: &x}
}
func rnMin() RangeNumber { return RangeNumber{str: "min", isMin: true} }
func rnMax() RangeNumber { return RangeNumber{str: "max", isMax: true} }

// entryCheck returns accepted?, panicked?
func entryCheck(e *RangeEntry, v val.Value) (ok bool, panicked bool) {
	panicked = vpCatch(func() { ok = e.CheckValue(v) == nil })
	return
}

// lo..hi with optional open ends, against every signed candidate type.
func c05SignedEntry(v val.Value, x int64) {
	lo, hi := vpInt64(), vpInt64()
	openLo, openHi := vpBool(), vpBool()
	e := &RangeEntry{Min: rnInt(lo), Max: rnInt(hi)}
	if openLo {
		e.Min = rnMin()
	}
	if openHi {
		e.Max = rnMax()
	}
	ok, p := entryCheck(e, v)
	vpAssert(!p, "checking a restriction never crashes (min/max included)")
	want := vpAnd(vpOr(openLo, lo <= x), vpOr(openHi, x <= hi))
	vpAssert(ok == want, "accepted iff lo <= v <= hi (min/max = open end)")
	vpCover("reached")
}

func H_C05_entry_int8()  { x := vpInt8(); c05SignedEntry(val.Int8(x), int64(x)) }
func H_C05_entry_int16() { x := vpInt16(); c05SignedEntry(val.Int16(x), int64(x)) }
func H_C05_entry_int32() { x := vpInt32(); c05SignedEntry(val.Int32(x), int64(x)) }
func H_C05_entry_int64() { x := vpInt64(); c05SignedEntry(val.Int64(x), x) }
func H_C05_entry_uint8() { x := vpUint8(); c05SignedEntry(val.UInt8(x), int64(x)) }
func H_C05_entry_uint16() {
	x := vpUint16()
	c05SignedEntry(val.UInt16(x), int64(x))
}
func H_C05_entry_uint32() {
	x := vpUint32()
	c05SignedEntry(val.UInt32(x), int64(x))
}

// uint64 candidates against bounds written as unsigned or as non-negative signed numbers.
func H_C05_entry_uint64() {
	x := vpUint64()
	lo, hi := vpUint64(), vpUint64()
	loSmall, hiSmall := vpBool(), vpBool() // bound parsed by ParseInt (fits int64) or by ParseUint
	openLo, openHi := vpBool(), vpBool()
	e := &RangeEntry{}
	if loSmall {
		vpAssume(lo <= 1<<63-1)
		e.Min = rnInt(int64(lo))
	} else {
		e.Min = rnUint(lo)
	}
	if hiSmall {
		vpAssume(hi <= 1<<63-1)
		e.Max = rnInt(int64(hi))
	} else {
		e.Max = rnUint(hi)
	}
	if openLo {
		e.Min = rnMin()
	}
	if openHi {
		e.Max = rnMax()
	}
	ok, p := entryCheck(e, val.UInt64(x))
	vpAssert(!p, "never crashes")
	want := vpAnd(vpOr(openLo, lo <= x), vpOr(openHi, x <= hi))
	vpAssert(ok == want, "accepted iff lo <= v <= hi")
	vpCover("reached")
}

// decimal64 candidates against decimal or integer bounds.
func H_C05_entry_decimal64() {
	x := vpFloat64()
	vpAssume(x == x) // not NaN
	lo, hi := vpFloat64(), vpFloat64()
	vpAssume(lo == lo && hi == hi)
	openLo, openHi := vpBool(), vpBool()
	e := &RangeEntry{Min: rnFloat(lo), Max: rnFloat(hi)}
	if openLo {
		e.Min = rnMin()
	}
	if openHi {
		e.Max = rnMax()
	}
	ok, p := entryCheck(e, val.Decimal64(x))
	vpAssert(!p, "never crashes")
	want := vpAnd(vpOr(openLo, lo <= x), vpOr(openHi, x <= hi))
	vpAssert(ok == want, "accepted iff lo <= v <= hi")
	vpCover("reached")
}

// a single value "5" accepts exactly that value
func H_C05_entry_exact() {
	x, k := vpInt32(), vpInt64()
	e := &RangeEntry{Exact: rnInt(k)}
	ok, p := entryCheck(e, val.Int32(x))
	vpAssert(!p, "never crashes")
	vpAssert(ok == (int64(x) == k), "exact value")
	vpCover("reached")
}

// alternatives: a | b..c | d..max
func H_C05_range_alternatives() {
	x := vpInt32()
	a, b, c, d := vpInt64(), vpInt64(), vpInt64(), vpInt64()
	r := &Range{Entries: []*RangeEntry{{Exact: rnInt(a)}, {Min: rnInt(b), Max: rnInt(c)}, {Min: rnInt(d), Max: rnMax()}}}
	var ok bool
	p := vpCatch(func() { ok = r.CheckValue(val.Int32(x)) == nil })
	vpAssert(!p, "never crashes")
	v := int64(x)
	want := vpOr(v == a, vpOr(vpAnd(b <= v, v <= c), d <= v))
	vpAssert(ok == want, "accepted iff inside one alternative")
	vpCover("reached")
}

// each element of a leaf-list is checked individually against the alternatives
func H_C05_range_leaflist() {
	x, y := vpInt32(), vpInt32()
	b, c, d, e := vpInt64(), vpInt64(), vpInt64(), vpInt64()
	r := &Range{Entries: []*RangeEntry{{Min: rnInt(b), Max: rnInt(c)}, {Min: rnInt(d), Max: rnInt(e)}}}
	var ok bool
	p := vpCatch(func() { ok = r.CheckValue(val.Int32List([]int32{x, y})) == nil })
	vpAssert(!p, "never crashes")
	in := func(v int64) bool { return vpOr(vpAnd(b <= v, v <= c), vpAnd(d <= v, v <= e)) }
	vpAssert(ok == vpAnd(in(int64(x)), in(int64(y))), "list accepted iff every element is inside an alternative")
	vpCover("reached")
}

// restriction texts through the real parser of ranges
type c05Text struct {
	text string
	// reference: alternatives as (lo,hi) with open flags
	alts []c05Alt
}
type c05Alt struct {
	lo, hi         int64
	openLo, openHi bool
}

var c05Texts = []c05Text{
	{"0..10", []c05Alt{{0, 10, false, false}}},
	{"min..5", []c05Alt{{0, 5, true, false}}},
	{"10..max", []c05Alt{{10, 0, false, true}}},
	{"min..max", []c05Alt{{0, 0, true, true}}},
	{"7", []c05Alt{{7, 7, false, false}}},
	{"-5..5", []c05Alt{{-5, 5, false, false}}},
	{"-128..-100 | -1 | 100..127", []c05Alt{{-128, -100, false, false}, {-1, -1, false, false}, {100, 127, false, false}}},
	{"1..2|4..5", []c05Alt{{1, 2, false, false}, {4, 5, false, false}}},
	{" 1 .. 3 ", []c05Alt{{1, 3, false, false}}},
	{"-9223372036854775808..9223372036854775807", []c05Alt{{-9223372036854775808, 9223372036854775807, false, false}}},
	{"min..-1 | 1..max", []c05Alt{{0, -1, true, false}, {1, 0, false, true}}},
}

func H_C05_range_text() {
	t := c05Texts[vpChoose(len(c05Texts))]
	x := vpInt64()
	r, err := newRange(t.text)
	vpAssert(err == nil, "restriction text parses")
	var ok bool
	p := vpCatch(func() { ok = r.CheckValue(val.Int64(x)) == nil })
	vpAssert(!p, "never crashes")
	want := false
	for _, a := range t.alts {
		want = vpOr(want, vpAnd(vpOr(a.openLo, a.lo <= x), vpOr(a.openHi, x <= a.hi)))
	}
	vpAssert(ok == want, "membership agrees with the written restriction")
	vpCover("reached")
}

// invert-match honoured
func H_C05_pattern_inverted() {
	inv := vpBool()
	p, err := newPattern("^a+$")
	vpAssert(err == nil, "pattern compiles")
	p.inverted = inv
	strs := []string{"a", "aa", "b", "", "ab"}
	s := strs[vpChoose(len(strs))]
	m := s == "a" || s == "aa"
	vpAssert(p.CheckValue(s) == (m != inv), "pattern with invert-match")
	vpCover("reached")
}
