package meta

// C11 (unit level): IfFeature.Evaluate agrees with RFC 7950 precedence
// (not > and > or, parentheses) for every expression of the catalogue under
// every assignment of the features; malformed text is an error.

// rpnEval: the oracle. Tokens: feature names, ! & |.
func rpnEval(rpn string, on map[string]bool) bool {
	var st []bool
	start := 0
	for i := 0; i <= len(rpn); i++ {
		if i < len(rpn) && rpn[i] != ' ' {
			continue
		}
		tok := rpn[start:i]
		start = i + 1
		switch tok {
		case "":
		case "!":
			st[len(st)-1] = !st[len(st)-1]
		case "&":
			a, b := st[len(st)-2], st[len(st)-1]
			st = append(st[:len(st)-2], vpAnd(a, b))
		case "|":
			a, b := st[len(st)-2], st[len(st)-1]
			st = append(st[:len(st)-2], vpOr(a, b))
		default:
			st = append(st, on[tok])
		}
	}
	return st[0]
}

func c11Features() (map[string]*Feature, map[string]bool) {
	enabled := map[string]*Feature{}
	on := map[string]bool{}
	for _, f := range []string{"a", "b", "c", "d"} {
		if vpBool() {
			enabled[f] = &Feature{ident: f}
			on[f] = true
		} else {
			on[f] = false
		}
	}
	return enabled, on
}

func c11Pick() c11Expr {
	n := 0
	for _, e := range c11Exprs {
		if e.tier <= vpTier() {
			n++
		}
	}
	// catalogue is sorted by tier: the first n entries are eligible
	return c11Exprs[vpChoose(n)]
}

func H_C11_iffeature_expr() {
	e := c11Pick()
	enabled, on := c11Features()
	iff := &IfFeature{expr: e.text}
	got, err := iff.Evaluate(enabled)
	vpAssert(err == nil, "well-formed expression evaluates without error")
	vpAssert(got == rpnEval(e.rpn, on), "value follows RFC 7950 precedence (not, and, or, parentheses)")
	vpCover("reached")
}

func H_C11_iffeature_malformed() {
	text := c11Bad[vpChoose(len(c11Bad))]
	enabled, _ := c11Features()
	iff := &IfFeature{expr: text}
	var err error
	p := vpCatch(func() { _, err = iff.Evaluate(enabled) })
	vpAssert(!p, "malformed expression does not crash")
	vpAssert(err != nil, "malformed expression is an error")
	vpCover("reached")
}

// allow-list / deny-list / all-on configurations and the per-expression cache
func H_C11_featureset() {
	m := &Module{features: map[string]*Feature{"a": {ident: "a"}, "b": {ident: "b"}, "c": {ident: "c"}}}
	la, lb, lx := vpBool(), vpBool(), vpBool() // membership of a, b and an unknown name in the list
	var list []string
	if la {
		list = append(list, "a")
	}
	if lx {
		list = append(list, "zzz")
	}
	if lb {
		list = append(list, "b")
	}
	mode := vpChoose(3)
	var fs FeatureSet
	switch mode {
	case 0:
		fs = FeaturesOn(list)
	case 1:
		fs = FeaturesOff(list)
	default:
		fs = AllFeaturesOn()
	}
	vpAssert(fs.Initialize(m) == nil, "initialize")
	on := func(f string, listed bool) bool {
		switch mode {
		case 0:
			return listed
		case 1:
			return !listed
		}
		return true
	}
	for i := 0; i < 2; i++ { // second round answers from the cache
		ra, _ := fs.Resolve(&IfFeature{expr: "a"})
		rb, _ := fs.Resolve(&IfFeature{expr: "b and c"})
		rz, _ := fs.Resolve(&IfFeature{expr: "zzz or a"})
		vpAssert(ra == on("a", la), "a")
		vpAssert(rb == vpAnd(on("b", lb), on("c", false)), "b and c")
		vpAssert(rz == on("a", la), "unknown feature names are never enabled")
		rn, _ := fs.Resolve(&IfFeature{expr: "not a"})
		vpAssert(rn == !on("a", la), "not a (false when everything is on)")
		_, errBad := fs.Resolve(&IfFeature{expr: "a and"})
		vpAssert(errBad != nil, "a malformed expression is an error in every configuration")
	}
	vpCover("reached")
}
