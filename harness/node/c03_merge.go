package node

import (
	"errors"

	"github.com/freeconf/yang/fc"
	"github.com/freeconf/yang/meta"
	"github.com/freeconf/yang/parser"
	"github.com/freeconf/yang/val"
)

// C03: upsert / insert / update are keyed deep merges with defined failure
// cases. Source and target trees have symbolic shape flags, symbolic leaf
// values and symbolic list keys; the result of the real editor is compared
// with a reference merge executed next to it.

const c03Yang = `module m { namespace "urn:m"; prefix m; revision 2020-01-01;
	container a {
		leaf x { type string; default "dx"; }
		choice ch { case p { leaf p1 { type string; } } case q { leaf q1 { type string; } } }
		leaf n { type int32; }
		container b { leaf y { type int32; default 5; } leaf w { type string; } }
	}
	list l { key "k"; leaf k { type int32; } leaf v { type string; default "dv"; }
		container lc { leaf z { type string; default "dz"; } leaf u { type int32; } } }
	leaf top { type int32; }
}`

func S_c03() any {
	m, err := parser.LoadModuleFromString(nil, c03Yang)
	if err != nil {
		panic(err)
	}
	return m
}

func c03Rows(entry int) int {
	if vpTier() > 0 || entry == 2 {
		return 2 // list-level harnesses are cheap enough for two rows on every change
	}
	return 1
}

// c03Tree builds a tree with symbolic shape and content. isSrc only changes
// nothing but documents intent.
func c03Tree(st *memStore, entry int, withChoice bool, maxRows int) {
	r := st.root
	if entry == 0 && vpBool() {
		r.leaves["top"] = val.Int32(vpInt32())
	}
	if entry == 1 || (entry == 0 && vpBool()) {
		a := r.ensureKid(st, "a")
		if vpBool() {
			a.leaves["x"] = val.String(vpStringN(1))
		}
		if withChoice && entry == 1 {
			switch vpChoose(3) {
			case 1:
				a.leaves["p1"] = val.String(vpStringN(1))
			case 2:
				a.leaves["q1"] = val.String(vpStringN(1))
			}
		} else if withChoice && vpBool() {
			a.leaves["p1"] = val.String(vpStringN(1))
		}
		if entry == 0 || vpBool() {
			a.leaves["n"] = val.Int32(vpInt32())
		}
		if vpBool() {
			b := a.ensureKid(st, "b")
			if entry != 0 && vpBool() {
				b.leaves["w"] = val.String(vpStringN(1))
			}
		}
	}
	if entry == 2 || (entry == 0 && vpBool()) {
		l := r.ensureList(st, "l")
		n := vpChoose(maxRows + 1)
		var keys []int32
		for i := 0; i < n; i++ {
			k := vpInt32()
			for _, o := range keys {
				vpAssume(k != o)
			}
			keys = append(keys, k)
			row := l.addRow(st, val.Int32(k))
			row.leaves["k"] = val.Int32(k)
			if vpBool() {
				row.leaves["v"] = val.String(vpStringN(1))
			}
			if vpBool() {
				lc := row.ensureKid(st, "lc")
				if entry != 0 && vpBool() {
					lc.leaves["u"] = val.Int32(vpInt32())
				}
			}
		}
	}
}

// ---- reference model -------------------------------------------------------

func c03Run(m *meta.Module, strategy int, entry int) {
	c03RunRows(m, strategy, entry, c03Rows(entry), c03Rows(entry))
}

func c03RunRows(m *meta.Module, strategy int, entry int, srcRows, dstRows int) {
	src, dst := newMemStore(), newMemStore()
	c03Tree(src, entry, true, srcRows)
	c03Tree(dst, entry, strategy == c03Upsert, dstRows) // insert/update never clear another case: keep the target's choice empty there
	src.quiet, dst.quiet = true, true
	ref := newMemStore()
	ref.root = c03Clone(ref, dst.root)

	b := NewBrowser(m, dst.node())
	sel := b.Root()
	var srcNode Node = src.node()
	var refErr error
	switch entry {
	case 0: // module root
		refErr = refMerge(ref, m, src.root, ref.root, false, strategy)
	case 1: // container a
		if src.root.kids["a"] == nil || dst.root.kids["a"] == nil {
			return
		}
		var err error
		sel, err = sel.Find("a")
		vpAssert(err == nil && sel != nil, "entry container found")
		srcNode = &memNode{s: src, t: src.root.kids["a"]}
		refErr = refMerge(ref, meta.Find(m, "a").(meta.HasDataDefinitions), src.root.kids["a"], ref.root.kids["a"], false, strategy)
	case 2: // list l
		if src.root.lists["l"] == nil || dst.root.lists["l"] == nil {
			return
		}
		var err error
		sel, err = sel.Find("l")
		vpAssert(err == nil && sel != nil, "entry list found")
		srcNode = &memNode{s: src, l: src.root.lists["l"]}
		refErr = refMergeRows(ref, meta.Find(m, "l").(*meta.List), src.root.lists["l"], ref.root.lists["l"], strategy)
	}
	var err error
	switch strategy {
	case c03Upsert:
		err = sel.UpsertFrom(srcNode)
	case c03Insert:
		err = sel.InsertFrom(srcNode)
	default:
		err = sel.UpdateFrom(srcNode)
	}
	switch refErr {
	case nil:
		vpAssertK("C03-update-below-entry-upserts", false, err == nil, "the edit succeeds when the strategy's precondition holds")
		if err == nil {
			vpAssert(treeEq(dst.root, ref.root), "target equals the keyed deep merge (defaults only in created nodes, unmentioned paths unchanged)")
		}
	case errRefConflict:
		vpAssert(err != nil && errors.Is(err, fc.ConflictError), "insert over an existing container / list / entry fails with a conflict error")
	case errRefNotFound:
		vpAssertK("C03-update-below-entry-upserts", strategy == c03Update, err != nil && errors.Is(err, fc.NotFoundError), "update of a missing container / entry fails with a not-found error")
	}
	vpCover("reached")
}

//vp:setup S_c03
func H_C03_upsert_root(s any) { c03RunRows(s.(*meta.Module), c03Upsert, 0, 1, 1) }

// upsert at the root with two rows on one side (two on both sides exceeds the path budget: 400000 paths explored, more pending)
//
//vp:setup S_c03
func H_C03_T_upsert_root_src2(s any) { c03RunRows(s.(*meta.Module), c03Upsert, 0, 2, 1) }

//vp:setup S_c03
func H_C03_T_upsert_root_dst2(s any) { c03RunRows(s.(*meta.Module), c03Upsert, 0, 1, 2) }

//vp:setup S_c03
func H_C03_insert_root(s any) { c03Run(s.(*meta.Module), c03Insert, 0) }

//vp:setup S_c03
func H_C03_update_root(s any) { c03Run(s.(*meta.Module), c03Update, 0) }

//vp:setup S_c03
func H_C03_upsert_container(s any) { c03Run(s.(*meta.Module), c03Upsert, 1) }

//vp:setup S_c03
func H_C03_update_container(s any) { c03Run(s.(*meta.Module), c03Update, 1) }

//vp:setup S_c03
func H_C03_upsert_list(s any) { c03Run(s.(*meta.Module), c03Upsert, 2) }

//vp:setup S_c03
func H_C03_insert_list(s any) { c03Run(s.(*meta.Module), c03Insert, 2) }

//vp:setup S_c03
func H_C03_update_list(s any) { c03Run(s.(*meta.Module), c03Update, 2) }
