package node

import (
	"math"
	"regexp"

	"github.com/freeconf/yang/meta"
	"github.com/freeconf/yang/parser"
	"github.com/freeconf/yang/val"
)

// C05, further type families: whole-value pattern matching, unions whose members carry restrictions, bits,
// enumeration leaf-lists, decimal64 specials, 64-bit bounds, character length, leafref targets, binary length,
// and list keys.

const c05YangB = `module m {
	namespace "urn:m";
	prefix "m";
	revision 2020-01-01;
	identity base-id; identity kid-id { base base-id; }
	leaf pn { type string { pattern "[0-9]+"; } }
	leaf pinv { type string { pattern "[a-z]+" { modifier invert-match; } } }
	leaf palt { type string { pattern "ab|cd"; } }
	leaf un { type union { type int32 { range "1..10"; } type int64 { range "100..200"; } } }
	leaf us { type union { type uint8 { range "1..9"; } type string { length "2..3"; pattern "x+"; } } }
	leaf ue { type union { type enumeration { enum unbounded; enum none; } type uint16 { range "1..1000"; } } }
	leaf-list unl { type union { type int32 { range "1..10"; } type string { length "1..2"; } } }
	leaf bt { type bits { bit a; bit b { position 4; } } }
	leaf-list el { type enumeration { enum a; enum b; } }
	leaf en { type enumeration { enum "2"; enum "1"; enum "0"; } }
	leaf d { type decimal64 { fraction-digits 2; range "1..10"; } }
	leaf dn { type decimal64 { fraction-digits 2; } }
	leaf l64 { type string { length "0..18446744073709551615"; } }
	leaf l63 { type string { length "1..9223372036854775808"; } }
	leaf lc { type string { length "2..3"; } }
	leaf target { type int32 { range "1..10"; } }
	leaf ref { type leafref { path "../target"; } }
	leaf tstr { type string { length "2"; pattern "a.*"; } }
	leaf refs { type leafref { path "../tstr"; } }
	leaf bin { type binary { length "1..2"; } }
	list l { key "id"; leaf id { type int32 { range "1..10"; } } leaf x { type string; } }
	list ls { key "id"; leaf id { type string { pattern "[a-z]+"; } } }
}`

func S_c05b() any {
	m, err := parser.LoadModuleFromString(nil, c05YangB)
	if err != nil {
		panic(err)
	}
	return m
}

// c05SetValue writes an untyped Go value through Selection.SetValue (the path the JSON / XML readers and users take)
func c05SetValue(m *meta.Module, ident string, v interface{}) (ok bool, panicked bool, writes int, stored val.Value) {
	st := newMemStore()
	b := NewBrowser(m, st.node())
	var err error
	panicked = vpCatch(func() {
		var sel *Selection
		sel, err = b.Root().Find(ident)
		if err == nil {
			err = sel.SetValue(v)
		}
	})
	return err == nil, panicked, st.writes(), st.root.leaves[ident]
}

var c05PatStrs = []string{"123", "abc1def", "1a", "a1", "", "abc", "1abc1", "ABC", "ab", "cd", "abx", "xcd", "abcd", "9"}

//vp:setup S_c05b
func H_C05_pattern_whole_value(s any) {
	m := s.(*meta.Module)
	x := c05PatStrs[vpChoose(len(c05PatStrs))]
	typed := vpBool()
	set := func(leaf string) bool {
		var ok, p bool
		var w int
		if typed {
			ok, p, w, _ = c05Set(m, leaf, val.String(x))
		} else {
			ok, p, w, _ = c05SetValue(m, leaf, x)
		}
		vpAssert(!p, "no crash")
		vpAssert(ok || w == 0, "a rejected write stores nothing")
		return ok
	}
	whole := func(re string) bool { return regexp.MustCompile("^(?:" + re + ")$").MatchString(x) }
	vpAssertK("C05-pattern-unanchored", true, set("pn") == whole("[0-9]+"), "pattern [0-9]+ accepts "+x+" exactly when the whole value matches")
	vpAssertK("C05-pattern-unanchored", true, set("pinv") == !whole("[a-z]+"), "invert-match [a-z]+ accepts "+x+" exactly when the whole value does not match")
	vpAssertK("C05-pattern-unanchored", true, set("palt") == whole("ab|cd"), "pattern ab|cd accepts "+x+" exactly when the whole value matches one branch")
	vpCover("reached")
}

//vp:setup S_c05b
func H_C05_union_members(s any) {
	m := s.(*meta.Module)
	v := vpInt64()
	in := (v >= 1 && v <= 10) || (v >= 100 && v <= 200)
	switch vpChoose(3) {
	case 0:
		ok, p, w, _ := c05SetValue(m, "un", v)
		vpAssert(!p, "no crash")
		vpAssertK("C05-union-unchecked", !in, ok == in, "union { int32 1..10; int64 100..200 } accepts exactly the values of a member (SetValue)")
		vpAssert(ok || w == 0, "a rejected write stores nothing")
	case 1:
		ok, p, w, _ := c05Set(m, "un", val.Int64(v))
		vpAssert(!p, "no crash")
		vpAssertK("C05-union-unchecked", !in, ok == in, "union { int32 1..10; int64 100..200 } accepts exactly the values of a member (typed Set)")
		vpAssert(ok || w == 0, "a rejected write stores nothing")
	case 2:
		vpAssume(v >= -5 && v <= 1005)
		ok, p, _, _ := c05SetValue(m, "ue", int(v))
		vpAssert(!p, "no crash")
		vpAssertK("C05-union-unchecked", true, ok == (v >= 0 && v <= 1000), "union { enumeration; uint16 1..1000 } accepts a number exactly when it is the value of an enum (0, 1) or inside the uint16 member's range")
	}
	vpCover("reached")
}

//vp:setup S_c05b
func H_C05_union_catalogue(s any) {
	m := s.(*meta.Module)
	cases := []struct {
		leaf string
		v    interface{}
		ok   bool
	}{
		{"us", "xx", true}, {"us", "xxx", true}, {"us", "x", false}, {"us", "xxxx", false}, {"us", "ab", false}, {"us", 5, true}, {"us", 0, false}, {"us", 50, false}, {"us", "5", true},
		{"ue", "unbounded", true}, {"ue", "none", true}, {"ue", "bogus", false}, {"ue", 7, true},
		{"unl", []interface{}{float64(500), float64(3)}, false}, {"unl", []interface{}{float64(5), float64(3)}, true}, {"unl", []interface{}{"ab", "c"}, true}, {"unl", []interface{}{"abc"}, false},
	}
	c := cases[vpChoose(len(cases))]
	ok, p, w, _ := c05SetValue(m, c.leaf, c.v)
	vpAssert(!p, "no crash")
	vpAssertK("C05-union-unchecked", true, ok == c.ok, "a union accepts a value exactly when one member type (restrictions included) does: leaf "+c.leaf)
	vpAssert(ok || w == 0, "a rejected write stores nothing")
	vpCover("reached")
}

//vp:setup S_c05b
func H_C05_bits(s any) {
	m := s.(*meta.Module)
	switch vpChoose(2) {
	case 0:
		names := []string{"a", "b", "a b", "b a", "", "bogus", "a bogus", "bogus a", "A", "a b c"}
		want := []bool{true, true, true, true, true, false, false, false, false, false}
		i := vpChoose(len(names))
		ok, p, w, _ := c05SetValue(m, "bt", names[i])
		vpAssert(!p, "no crash")
		vpAssertK("C05-bits-undeclared", !want[i], ok == want[i], "bits value '"+names[i]+"' is accepted exactly when every name is declared")
		vpAssert(ok || w == 0, "a rejected write stores nothing")
	case 1:
		x := vpUint8()
		ok, p, _, _ := c05SetValue(m, "bt", int(x))
		vpAssert(!p, "no crash")
		vpAssertK("C05-bits-undeclared", true, ok == (x&^0x11 == 0), "a bits value given as a number is accepted exactly when only declared positions (0 and 4) are set")
	}
	vpCover("reached")
}

//vp:setup S_c05b
func H_C05_enum_names(s any) {
	m := s.(*meta.Module)
	vals := []interface{}{"a", "b", "bogus", "", []string{"a", "bogus"}, []string{"b", "a"}, []interface{}{"a"}, []interface{}{nil}, []interface{}{"zz"}}
	want := []bool{true, true, false, false, false, true, true, false, false}
	i := vpChoose(len(vals))
	ok, p, w, st := c05SetValue(m, "el", vals[i])
	vpAssertK("C05-enum-list", true, !p, "no crash")
	vpAssertK("C05-enum-list", true, ok == want[i], "an enumeration leaf-list accepts exactly declared names")
	vpAssert(ok || w == 0, "a rejected write stores nothing")
	if ok {
		for _, e := range st.(val.EnumList) {
			vpAssert(e.Label == "a" || e.Label == "b", "what is stored is a declared enum")
		}
	}
	// names that look like numbers: "2" "1" "0" have the values 0 1 2
	lbl := []string{"0", "1", "2", "3", "-5"}[vpChoose(5)]
	ok2, _, _, st2 := c05SetValue(m, "en", lbl)
	vpAssertK("C05-enum-numeric-name", true, ok2 == (lbl == "0" || lbl == "1" || lbl == "2"), "an enum is selected by its name: "+lbl)
	if ok2 {
		vpAssertK("C05-enum-numeric-name", true, st2.(val.Enum).Label == lbl, "the enum stored is the one with the given name")
	}
	vpCover("reached")
}

//vp:setup S_c05b
func H_C05_decimal64_specials(s any) {
	m := s.(*meta.Module)
	fs := []float64{math.NaN(), math.Inf(1), math.Inf(-1), 0.5, 1, 5.25, 10, 10.01}
	in := []bool{false, false, false, false, true, true, true, false}
	i := vpChoose(len(fs))
	var v interface{} = fs[i]
	if vpBool() {
		v = []string{"NaN", "+Inf", "-Inf", "0.5", "1", "5.25", "10", "10.01"}[i]
	}
	ok, p, w, _ := c05SetValue(m, "d", v)
	vpAssert(!p, "no crash")
	vpAssertK("C05-decimal64-nan", i < 3, ok == in[i], "decimal64 range 1..10 accepts exactly the numbers inside")
	vpAssert(ok || w == 0, "a rejected write stores nothing")
	ok2, _, _, _ := c05SetValue(m, "dn", v)
	vpAssertK("C05-decimal64-nan", i < 3, ok2 == (i >= 3), "NaN and the infinities are not decimal64 values")
	vpCover("reached")
}

//vp:setup S_c05b
func H_C05_length_bounds(s any) {
	m := s.(*meta.Module)
	x := vpString(2)
	ok, p, _, _ := c05Set(m, "l64", val.String(x))
	vpAssertK("C05-length-64bit-bound", true, !p && ok, "length 0..18446744073709551615 accepts every string without crashing")
	ok2, p2, _, _ := c05Set(m, "l63", val.String(x))
	vpAssertK("C05-length-64bit-bound", true, !p2 && ok2 == (len(x) >= 1), "length 1..9223372036854775808 accepts every non-empty string without crashing")
	// length counts characters
	strs := []string{"é", "éé", "ééé", "éééé", "aé", "a", "日本", "日本語です"}
	want := []bool{false, true, true, false, true, false, true, false}
	i := vpChoose(len(strs))
	ok3, _, _, _ := c05Set(m, "lc", val.String(strs[i]))
	vpAssertK("C05-length-in-bytes", true, ok3 == want[i], "length 2..3 counts characters: "+strs[i])
	vpCover("reached")
}

//vp:setup S_c05b
func H_C05_leafref_and_binary(s any) {
	m := s.(*meta.Module)
	v := vpInt32()
	switch vpChoose(4) {
	case 0:
		ok, p, w, _ := c05Set(m, "ref", val.Int32(v))
		vpAssert(!p, "no crash")
		vpAssertK("C05-leafref-target-range", true, ok == (v >= 1 && v <= 10), "a leafref accepts exactly the values of the leaf it points at (typed Set)")
		vpAssert(ok || w == 0, "a rejected write stores nothing")
	case 1:
		ok, p, _, _ := c05SetValue(m, "ref", int(v))
		vpAssert(!p, "no crash")
		vpAssertK("C05-leafref-target-range", true, ok == (v >= 1 && v <= 10), "a leafref accepts exactly the values of the leaf it points at (SetValue)")
	case 2:
		strs := []string{"ab", "a", "abc", "xb", "aa"}
		want := []bool{true, false, false, false, true}
		i := vpChoose(len(strs))
		ok, p, _, _ := c05SetValue(m, "refs", strs[i])
		vpAssert(!p, "no crash")
		vpAssertK("C05-leafref-target-range", true, ok == want[i], "a leafref to a string leaf keeps the target's length and pattern")
	case 3:
		n := vpChoose(4)
		ok, p, _, _ := c05SetValue(m, "bin", make([]byte, n)) // stored as base64 text, measured in octets
		vpAssert(!p, "no crash")
		vpAssertK("C05-binary-length", true, ok == (n >= 1 && n <= 2), "binary length 1..2 counts octets")
	}
	vpCover("reached")
}

// a list entry whose key is rejected is not created
//
//vp:setup S_c05b
func H_C05_rejected_key_stores_nothing(s any) {
	m := s.(*meta.Module)
	k := vpInt32()
	src := newMemStore()
	src.quiet = true
	row := src.root.ensureList(src, "l").addRow(src, val.Int32(k))
	row.leaves["id"] = val.Int32(k)
	row.leaves["x"] = val.String("y")
	dst := newMemStore()
	var err error
	p := vpCatch(func() { err = NewBrowser(m, dst.node()).Root().UpsertFrom(src.node()) })
	vpAssert(!p, "no crash")
	in := k >= 1 && k <= 10
	vpAssert((err == nil) == in, "an entry is accepted exactly when its key is inside the key leaf's range")
	if err != nil {
		l := dst.root.lists["l"]
		vpAssertK("C05-rejected-key-leaves-entry", true, l == nil || len(l.rows) == 0, "a rejected list entry stores nothing (no empty entry under the rejected key)")
	}
	vpCover("reached")
}
