package node

import (
	"github.com/freeconf/yang/meta"
	"github.com/freeconf/yang/parser"
	"github.com/freeconf/yang/val"
)

// C05 through the real write path: schema compiled by the real loader, value
// checked by the Browser's base constraints, store = memNode.

const c05Yang = `module m {
	namespace "urn:m";
	prefix "m";
	revision 2020-01-01;
	typedef base { type int32 { range "0..100"; } }
	typedef mid { type base { range "10..50"; } }
	typedef str { type string { length "2..4"; pattern "a.*"; } }
	typedef t1 { type int32 { range "10..100"; } }
	typedef t2 { type t1 { range "min..50"; } }
	typedef s1 { type string { length "2..6"; } }
	typedef s2 { type s1 { length "min..4"; } }
	leaf c3 { type t2 { range "min..20"; } }
	leaf c3x { type t2 { range "15..max"; } }
	leaf sl3 { type s2 { length "min..3"; } }
	leaf a { type base { range "10..20"; } }
	leaf a3 { type mid { range "15..40"; } }
	leaf b { type int32 { range "min..5 | 10..max"; } }
	leaf-list ll { type int32 { range "0..10|50..200"; } }
	leaf s { type string { length "2..4"; } }
	leaf p2 { type string { pattern "a.*"; pattern ".*b"; } }
	leaf pd { type str { pattern ".*b"; } }
	leaf pi { type string { pattern "a.*" { modifier invert-match; } } }
	leaf u { type uint64 { range "10..18446744073709551615"; } }
	leaf u8 { type uint8 { range "1..9"; } }
	leaf e { type enumeration { enum one; enum two { value 5; } } }
	leaf plain { type int16; }
}`

func S_c05() any {
	m, err := parser.LoadModuleFromString(nil, c05Yang)
	if err != nil {
		panic(err)
	}
	return m
}

func c05Leaf(m *meta.Module, ident string) meta.Leafable {
	return meta.Find(m, ident).(meta.Leafable)
}

// setOn writes v to leaf ident of a fresh store through Selection.Set and
// reports (accepted, panicked, fieldWrites, stored value).
func c05Set(m *meta.Module, ident string, v val.Value) (bool, bool, int, val.Value) {
	st := newMemStore()
	b := NewBrowser(m, st.node())
	var err error
	p := vpCatch(func() {
		var sel *Selection
		sel, err = b.Root().Find(ident)
		if err == nil {
			err = sel.Set(v)
		}
	})
	return err == nil, p, st.writes(), st.root.leaves[ident]
}

//vp:setup S_c05
func H_C05_set_typedef_chain(s any) {
	m := s.(*meta.Module)
	x := vpInt32()
	ok, p, w, stored := c05Set(m, "a", val.Int32(x))
	vpAssert(!p, "no crash")
	want := vpAnd(x >= 10, x <= 20) // 10..20 narrows 0..100
	vpAssertK("C05-levels-ored", vpAnd(vpAnd(x >= 0, x <= 100), !want), ok == want, "accepted iff inside the range of every level of the typedef chain")
	if !ok {
		vpAssert(w == 0 && stored == nil, "a rejected write stores nothing")
	} else {
		vpAssert(w == 1 && stored != nil && stored.(val.Int32) == val.Int32(x), "an accepted write stores exactly the value")
	}
	vpCover("reached")
}

//vp:setup S_c05
func H_C05_set_typedef_chain3(s any) {
	m := s.(*meta.Module)
	x := vpInt32()
	ok, p, _, _ := c05Set(m, "a3", val.Int32(x))
	vpAssert(!p, "no crash")
	want := vpAnd(x >= 15, x <= 40)
	vpAssertK("C05-levels-ored", vpAnd(vpAnd(x >= 0, x <= 100), !want), ok == want, "three levels: accepted iff inside every level")
	vpCover("reached")
}

// three levels where the narrower levels only say min/max: the real bound sits in the outermost typedef
//
//vp:setup S_c05
func H_C05_set_typedef_chain_minmax(s any) {
	m := s.(*meta.Module)
	x := vpInt32()
	ok, p, _, _ := c05Set(m, "c3", val.Int32(x))
	vpAssert(!p, "no crash")
	vpAssert(ok == vpAnd(x >= 10, x <= 20), "10..100 / min..50 / min..20 accepts exactly 10..20")
	ok2, _, _, _ := c05Set(m, "c3x", val.Int32(x))
	vpAssert(ok2 == vpAnd(x >= 15, x <= 50), "10..100 / min..50 / 15..max accepts exactly 15..50")
	str := vpString(7)
	for i := 0; i < len(str); i++ {
		vpAssume(str[i] < 0x80) // characters = bytes here; multi-byte characters are in H_C05_length_bounds
	}
	ok3, _, _, _ := c05Set(m, "sl3", val.String(str))
	vpAssert(ok3 == (len(str) >= 2 && len(str) <= 3), "length 2..6 / min..4 / min..3 accepts exactly 2..3")
	vpCover("reached")
}

//vp:setup S_c05
func H_C05_set_minmax(s any) {
	m := s.(*meta.Module)
	x := vpInt32()
	ok, p, w, _ := c05Set(m, "b", val.Int32(x))
	vpAssert(!p, "min/max never crash")
	vpAssert(ok == vpOr(x <= 5, x >= 10), "min..5 | 10..max")
	vpAssert(ok || w == 0, "a rejected write stores nothing")
	vpCover("reached")
}

//vp:setup S_c05
func H_C05_set_leaflist(s any) {
	m := s.(*meta.Module)
	x, y := vpInt32(), vpInt32()
	ok, p, w, _ := c05Set(m, "ll", val.Int32List([]int32{x, y}))
	vpAssert(!p, "no crash")
	in := func(v int32) bool { return vpOr(vpAnd(v >= 0, v <= 10), vpAnd(v >= 50, v <= 200)) }
	vpAssert(ok == vpAnd(in(x), in(y)), "each element checked individually")
	vpAssert(ok || w == 0, "a rejected write stores nothing")
	vpCover("reached")
}

//vp:setup S_c05
func H_C05_set_uint(s any) {
	m := s.(*meta.Module)
	x := vpUint64()
	ok, p, _, _ := c05Set(m, "u", val.UInt64(x))
	vpAssert(!p, "no crash")
	vpAssert(ok == (x >= 10), "uint64 10..max64")
	y := vpUint8()
	ok2, p2, _, _ := c05Set(m, "u8", val.UInt8(y))
	vpAssert(!p2, "no crash")
	vpAssert(ok2 == vpAnd(y >= 1, y <= 9), "uint8 1..9")
	z := vpInt16()
	ok3, _, _, _ := c05Set(m, "plain", val.Int16(z))
	vpAssert(ok3, "an unrestricted leaf accepts every value of its type")
	vpCover("reached")
}

//vp:setup S_c05
func H_C05_set_string_length(s any) {
	m := s.(*meta.Module)
	x := vpString(5)
	for i := 0; i < len(x); i++ {
		vpAssume(x[i] < 0x80) // characters = bytes here; multi-byte characters are in H_C05_length_bounds
	}
	ok, p, w, _ := c05Set(m, "s", val.String(x))
	vpAssert(!p, "no crash")
	vpAssert(ok == (len(x) >= 2 && len(x) <= 4), "length 2..4")
	vpAssert(ok || w == 0, "a rejected write stores nothing")
	vpCover("reached")
}

var c05Strs = []string{"ab", "a", "b", "xb", "ax", "aab", "", "abab", "ababb"}

//vp:setup S_c05
func H_C05_set_patterns(s any) {
	m := s.(*meta.Module)
	x := c05Strs[vpChoose(len(c05Strs))]
	startsA := len(x) > 0 && x[0] == 'a'
	endsB := len(x) > 0 && x[len(x)-1] == 'b'
	// two patterns on one type: both must match
	ok, p, _, _ := c05Set(m, "p2", val.String(x))
	vpAssert(!p, "no crash")
	vpAssertK("C05-patterns-ored", vpOr(startsA, endsB), ok == (startsA && endsB), "every pattern must match")
	// derived pattern + base pattern + base length
	ok2, _, _, _ := c05Set(m, "pd", val.String(x))
	want2 := startsA && endsB && len(x) >= 2 && len(x) <= 4
	vpAssertK("C05-patterns-ored", !want2, ok2 == want2, "derived type keeps the base type's pattern and length")
	// invert-match
	ok3, _, _, _ := c05Set(m, "pi", val.String(x))
	vpAssert(ok3 == !startsA, "invert-match honoured")
	vpCover("reached")
}

// enum membership is enforced at conversion (SetValue)
//
//vp:setup S_c05
func H_C05_setvalue_enum(s any) {
	m := s.(*meta.Module)
	st := newMemStore()
	b := NewBrowser(m, st.node())
	sel, err := b.Root().Find("e")
	vpAssert(err == nil && sel != nil, "leaf found")
	id := vpInt32()
	err = sel.SetValue(int(id))
	vpAssert((err == nil) == vpOr(id == 0, id == 5), "only declared enum values are accepted")
	if err != nil {
		vpAssert(st.writes() == 0, "a rejected write stores nothing")
	}
	lbl := c05Strs[vpChoose(3)]
	_ = lbl
	err = sel.SetValue("three")
	vpAssert(err != nil, "undeclared enum name rejected")
	err = sel.SetValue("two")
	vpAssert(err == nil && st.root.leaves["e"].(val.Enum).Id == 5, "declared name accepted with its value")
	vpCover("reached")
}
