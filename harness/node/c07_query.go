package node

import (
	"strconv"
	"strings"

	"github.com/freeconf/yang/meta"
	"github.com/freeconf/yang/parser"
	"github.com/freeconf/yang/val"
)

// C07: a constrained read returns exactly the defined projection of the
// unconstrained read. Source = memNode with symbolic content, the read is an
// export (UpsertInto) into a fresh store, compared with a reference projection.

const c07Yang = `module m { namespace "urn:m"; prefix m; revision 2020-01-01;
	container a {
		leaf x { type string; default "dx"; }
		leaf ro { config false; type int32; }
		container b { leaf y { type int32; default 5; } container d { leaf z { type string; } } }
		container c { leaf w { type string; } }
		container st { config false; leaf cnt { type int32; } }
	}
	list l { key "k"; leaf k { type int32; } leaf v { type string; }
		list in { key "p"; leaf p { type int32; } leaf iv { type string; } } }
	leaf top { type int32; }
}`

func S_c07() any {
	m, err := parser.LoadModuleFromString(nil, c07Yang)
	if err != nil {
		panic(err)
	}
	return m
}

func c07Rows() int {
	if vpTier() > 0 {
		return 4
	}
	return 3
}

func c07Source(st *memStore, nrows int) {
	r := st.root
	r.leaves["top"] = val.Int32(vpInt32())
	a := r.ensureKid(st, "a")
	if vpBool() {
		a.leaves["x"] = val.String("dx") // equals the default
	} else {
		a.leaves["x"] = val.String("q" + vpStringN(1))
	}
	a.leaves["ro"] = val.Int32(vpInt32())
	b := a.ensureKid(st, "b")
	b.leaves["y"] = val.Int32(vpInt32())
	b.ensureKid(st, "d").leaves["z"] = val.String(vpStringN(1))
	a.ensureKid(st, "c").leaves["w"] = val.String(vpStringN(1))
	a.ensureKid(st, "st").leaves["cnt"] = val.Int32(vpInt32())
	l := r.ensureList(st, "l")
	for i := 0; i < nrows; i++ {
		row := l.addRow(st, val.Int32(int32(i*10)))
		row.leaves["k"] = val.Int32(int32(i * 10))
		row.leaves["v"] = val.String(vpStringN(1))
		if nestedRows > 0 {
			in := row.ensureList(st, "in")
			for j := 0; j < nestedRows; j++ {
				e := in.addRow(st, val.Int32(int32(j)))
				e.leaves["p"] = val.Int32(int32(j))
				e.leaves["iv"] = val.String("i")
			}
		}
	}
}

var nestedRows = 0

// projection predicate: level is 1 for direct children of the target
type c07Pred struct {
	leaf      func(path []string, level int, l meta.Leafable, v val.Value) bool
	container func(path []string, level int, d meta.Definition) bool
	row       func(path []string, index int, n int) bool
}

func c07All() c07Pred {
	return c07Pred{
		leaf:      func([]string, int, meta.Leafable, val.Value) bool { return true },
		container: func([]string, int, meta.Definition) bool { return true },
		row:       func([]string, int, int) bool { return true },
	}
}

func c07And(p, q c07Pred) c07Pred {
	return c07Pred{
		leaf: func(a []string, b int, c meta.Leafable, d val.Value) bool {
			return p.leaf(a, b, c, d) && q.leaf(a, b, c, d)
		},
		container: func(a []string, b int, c meta.Definition) bool {
			return p.container(a, b, c) && q.container(a, b, c)
		},
		row: func(a []string, b int, c int) bool { return p.row(a, b, c) && q.row(a, b, c) },
	}
}

// refProject copies the part of src selected by pred into dst.
func refProject(st *memStore, md meta.HasDataDefinitions, src, dst *memTree, path []string, level int, pred c07Pred) {
	for _, d := range md.DataDefinitions() {
		id := d.Ident()
		p := append(append([]string(nil), path...), id)
		switch x := d.(type) {
		case *meta.Leaf:
			v, ok := src.leaves[id]
			if ok && pred.leaf(p, level, x, v) {
				dst.leaves[id] = v
			}
		case *meta.Container:
			sk := src.kids[id]
			if sk != nil && pred.container(p, level, x) {
				refProject(st, x, sk, dst.ensureKid(st, id), p, level+1, pred)
			}
		case *meta.List:
			sl := src.lists[id]
			if sl != nil && pred.container(p, level, x) {
				dl := dst.ensureList(st, id)
				for i, r := range sl.rows {
					if pred.row(p, i, len(sl.rows)) {
						// list + entry count as one level
						refProject(st, x, r.t, dl.addRow(st, r.key...), p, level+1, pred)
					}
				}
			}
		}
	}
}

// c07Read performs the constrained read and returns (result tree, error, panicked, writes on source)
func c07Read(m *meta.Module, src *memStore, query string) (*memStore, error, bool, int) {
	out := newMemStore()
	out.quiet = true
	b := NewBrowser(m, src.node())
	var err error
	p := vpCatch(func() {
		var sel *Selection
		sel, err = b.Root().Find("?" + query)
		if err == nil {
			err = sel.UpsertInto(out.node())
		}
	})
	return out, err, p, src.writes()
}

func c07Check(m *meta.Module, src *memStore, query string, pred c07Pred, known string) {
	out, err, p, w := c07Read(m, src, query)
	vpAssertK(known, true, !p, query+": no crash")
	if p {
		return
	}
	vpAssertK(known, true, err == nil, query+": a valid parameter is accepted")
	if err != nil {
		return
	}
	want := newMemStore()
	refProject(want, m, src.root, want.root, nil, 1, pred)
	vpAssertK(known, true, treeEq(out.root, want.root), query+": result is exactly the defined projection of the full read")
	vpAssert(w == 0, query+": a read does not modify the data")
}

func predDepth(n int) c07Pred {
	p := c07All()
	p.leaf = func(_ []string, level int, _ meta.Leafable, _ val.Value) bool { return level <= n }
	p.container = func(_ []string, level int, _ meta.Definition) bool { return level <= n }
	return p
}

func predContent(config bool) c07Pred {
	p := c07All()
	p.leaf = func(_ []string, _ int, l meta.Leafable, _ val.Value) bool {
		return l.(meta.HasDetails).Config() == config
	}
	if config {
		p.container = func(_ []string, _ int, d meta.Definition) bool { return d.(meta.HasDetails).Config() }
	}
	return p
}

func predTrim() c07Pred {
	p := c07All()
	p.leaf = func(_ []string, _ int, l meta.Leafable, v val.Value) bool {
		if !l.HasDefault() {
			return true
		}
		def, _ := NewValue(l.Type(), l.DefaultValue())
		return !val.Equal(def, v)
	}
	return p
}

func hasPrefix(q, p []string) bool {
	if len(p) > len(q) {
		return false
	}
	for i := range p {
		if q[i] != p[i] {
			return false
		}
	}
	return true
}

// fields: visible iff at/below a selected path or an ancestor of one
func predFields(paths [][]string, exclude bool) c07Pred {
	vis := func(q []string, isContainer bool) bool {
		for _, p := range paths {
			if hasPrefix(q, p) {
				return !exclude
			}
			// a container on the way down to a selected path is entered; a leaf cannot lead anywhere
			if !exclude && isContainer && hasPrefix(p, q) {
				return true
			}
		}
		return exclude
	}
	pr := c07All()
	pr.leaf = func(q []string, _ int, _ meta.Leafable, _ val.Value) bool { return vis(q, false) }
	pr.container = func(q []string, _ int, _ meta.Definition) bool { return vis(q, true) }
	return pr
}

func predRangeNested(start, end int) c07Pred {
	p := c07All()
	p.row = func(path []string, i int, n int) bool {
		if len(path) == 2 && path[0] == "l" && path[1] == "in" {
			return i >= start && (end < 0 || i < end)
		}
		return true
	}
	return p
}

func predRange(start, end int) c07Pred {
	p := c07All()
	p.row = func(path []string, i int, n int) bool {
		if len(path) == 1 && path[0] == "l" {
			return i >= start && (end < 0 || i < end)
		}
		return true
	}
	return p
}

//vp:setup S_c07
func H_C07_depth(s any) {
	m := s.(*meta.Module)
	src := newMemStore()
	c07Source(src, 2)
	n := 1 + vpChoose(5)
	c07Check(m, src, "depth="+strconv.Itoa(n), predDepth(n), "")
	vpCover("reached")
}

//vp:setup S_c07
func H_C07_content(s any) {
	m := s.(*meta.Module)
	src := newMemStore()
	c07Source(src, 1)
	switch vpChoose(3) {
	case 0:
		c07Check(m, src, "content=config", predContent(true), "")
	case 1:
		c07Check(m, src, "content=nonconfig", predContent(false), "")
	case 2:
		c07Check(m, src, "content=all", c07All(), "")
	}
	vpCover("reached")
}

//vp:setup S_c07
func H_C07_with_defaults(s any) {
	m := s.(*meta.Module)
	src := newMemStore()
	c07Source(src, 1)
	c07Check(m, src, "with-defaults=trim", predTrim(), "")
	c07Check(m, src, "with-defaults=report-all", c07All(), "")
	vpCover("reached")
}

type c07F struct {
	expr  string
	paths [][]string
}

func sp(s string) []string { return strings.Split(s, "/") }

var c07Fields = []c07F{
	{"a", [][]string{sp("a")}},
	{"top", [][]string{sp("top")}},
	{"a/b", [][]string{sp("a/b")}},
	{"a/b/y", [][]string{sp("a/b/y")}},
	{"a/b/d/z", [][]string{sp("a/b/d/z")}},
	{"l/v", [][]string{sp("l/v")}},
	{"a/x%3Btop", [][]string{sp("a/x"), sp("top")}},
	{"a(x%3Bc)", [][]string{sp("a/x"), sp("a/c")}},
	{"a/b(y%3Bd)", [][]string{sp("a/b/y"), sp("a/b/d")}},
	{"a/b/d/z/q/r/s", [][]string{sp("a/b/d/z/q/r/s")}},
	{"l%3Ba/c/w", [][]string{sp("l"), sp("a/c/w")}},
}

//vp:setup S_c07
func H_C07_fields(s any) {
	m := s.(*meta.Module)
	src := newMemStore()
	c07Source(src, 1)
	f := c07Fields[vpChoose(len(c07Fields))]
	c07Check(m, src, "fields="+f.expr, predFields(f.paths, false), "C07-fields-nested")
	vpCover("reached")
}

//vp:setup S_c07
func H_C07_xfields(s any) {
	m := s.(*meta.Module)
	src := newMemStore()
	c07Source(src, 1)
	f := c07Fields[vpChoose(len(c07Fields))]
	c07Check(m, src, "fc.xfields="+f.expr, predFields(f.paths, true), "C07-fields-nested")
	vpCover("reached")
}

//vp:setup S_c07
func H_C07_range(s any) {
	m := s.(*meta.Module)
	src := newMemStore()
	nrows := vpChoose(c07Rows() + 1)
	c07Source(src, nrows)
	start := vpChoose(4)
	endOpt := vpChoose(5) // 0 = open end, else end = start + endOpt (non-empty windows; empty/inverted windows are not specified)
	q := "fc.range=l!" + strconv.Itoa(start) + "-"
	end := -1
	if endOpt > 0 {
		end = start + endOpt
		q += strconv.Itoa(end)
	}
	c07Check(m, src, q, predRange(start, end), "")
	vpCover("reached")
}

// a window on a list nested in another list leaves the enclosing list alone
//
//vp:setup S_c07
func H_C07_range_nested(s any) {
	m := s.(*meta.Module)
	src := newMemStore()
	nestedRows = 3
	c07Source(src, 3)
	nestedRows = 0
	start := vpChoose(3)
	endOpt := vpChoose(3)
	q := "fc.range=l/in!" + strconv.Itoa(start) + "-"
	end := -1
	if endOpt > 0 {
		end = start + endOpt
		q += strconv.Itoa(end)
	}
	c07Check(m, src, q, predRangeNested(start, end), "")
	vpCover("reached")
}

// two selections derived from one constrained base do not disturb each other
//
//vp:setup S_c07
func H_C07_derived_selections(s any) {
	m := s.(*meta.Module)
	src := newMemStore()
	c07Source(src, 1)
	b := NewBrowser(m, src.node())
	bases := []string{"", "?fields=a%3Btop", "?depth=4", "?fields=a&depth=4"}
	bi := vpChoose(len(bases))
	base, err := b.Root().Find(bases[bi])
	vpAssert(err == nil && base != nil, "base selection")
	basePred := []c07Pred{c07All(), predFields([][]string{sp("a"), sp("top")}, false), predDepth(4), c07And(predFields([][]string{sp("a")}, false), predDepth(4))}[bi]
	s1, err1 := base.Find("?with-defaults=trim")
	s2, err2 := base.Find("?content=nonconfig")
	vpAssert(err1 == nil && err2 == nil && s1 != nil && s2 != nil, "derived selections")
	for i, d := range []struct {
		sel  *Selection
		pred c07Pred
	}{{s1, c07And(basePred, predTrim())}, {s2, c07And(basePred, predContent(false))}, {base, basePred}} {
		out := newMemStore()
		out.quiet = true
		vpAssert(d.sel.UpsertInto(out.node()) == nil, "read succeeds")
		want := newMemStore()
		refProject(want, m, src.root, want.root, nil, 1, d.pred)
		vpAssert(treeEq(out.root, want.root), "selection "+strconv.Itoa(i)+" answers with its own parameters, not a sibling's")
	}
	vpCover("reached")
}

// combinations are intersections
//
//vp:setup S_c07
func H_C07_combine(s any) {
	m := s.(*meta.Module)
	src := newMemStore()
	c07Source(src, 2)
	switch vpChoose(6) {
	case 4:
		c07Check(m, src, "fields=a&fc.xfields=a/b", c07And(predFields([][]string{sp("a")}, false), predFields([][]string{sp("a/b")}, true)), "")
	case 5:
		c07Check(m, src, "fc.xfields=a/c&depth=3&with-defaults=trim", c07And(c07And(predFields([][]string{sp("a/c")}, true), predDepth(3)), predTrim()), "")
	case 0:
		c07Check(m, src, "depth=2&content=config", c07And(predDepth(2), predContent(true)), "")
	case 1:
		c07Check(m, src, "with-defaults=trim&depth=3", c07And(predTrim(), predDepth(3)), "")
	case 2:
		c07Check(m, src, "fields=a&with-defaults=trim", c07And(predFields([][]string{sp("a")}, false), predTrim()), "")
	case 3:
		c07Check(m, src, "fc.range=l!1-2&content=nonconfig", c07And(predRange(1, 2), predContent(false)), "")
	}
	vpCover("reached")
}

// an invalid parameter value is an error, not an unfiltered or partial answer
//
//vp:setup S_c07
func H_C07_invalid(s any) {
	m := s.(*meta.Module)
	src := newMemStore()
	c07Source(src, 1)
	bad := []string{"depth=abc", "depth=0", "depth=-1", "depth=", "content=bogus", "with-defaults=bogus", "fc.range=l", "fc.range=l!x-2", "fc.range=l!1-y",
		"fc.max-node-count=abc", "fc.max-node-count=1x"}
	q := bad[vpChoose(len(bad))]
	_, err, p, _ := c07Read(m, src, q)
	vpAssert(!p, q+": no crash")
	vpAssertK("C07-invalid-int-ignored", true, err != nil, q+": an invalid parameter value is an error")
	vpCover("reached")
}

// at most N containers or else an error
//
//vp:setup S_c07
func H_C07_max_node_count(s any) {
	m := s.(*meta.Module)
	src := newMemStore()
	c07Source(src, 1)
	// the full read touches a, b, d, c, st, l: 6 containers/lists (entries not counted)
	n := 1 + vpChoose(8)
	out, err, p, _ := c07Read(m, src, "fc.max-node-count="+strconv.Itoa(n))
	vpAssert(!p, "no crash")
	if n < 6 {
		vpAssertK("C07-max-node-never-counts", true, err != nil, "more containers than fc.max-node-count is an error")
	}
	if err == nil {
		want := newMemStore()
		refProject(want, m, src.root, want.root, nil, 1, c07All())
		vpAssert(treeEq(out.root, want.root), "within the limit the read is complete")
	}
	vpCover("reached")
}

// symbolic depth through the constraint object itself
//
//vp:setup S_c07
func H_C07_depth_symbolic(s any) {
	m := s.(*meta.Module)
	src := newMemStore()
	c07Source(src, 1)
	n := vpInt()
	vpAssume(n >= 1 && n <= 1000000)
	out := newMemStore()
	out.quiet = true
	sel := NewBrowser(m, src.node()).Root()
	c := NewConstraints(sel.Constraints)
	c.AddConstraint("depth", 10, 50, MaxDepth{MaxDepth: n})
	sel.Constraints = c
	vpAssert(sel.UpsertInto(out.node()) == nil, "read succeeds")
	// with n symbolic the reference predicate forks on level <= n just like the code
	want := newMemStore()
	p := c07All()
	p.leaf = func(_ []string, level int, _ meta.Leafable, _ val.Value) bool { return level <= n }
	p.container = func(_ []string, level int, _ meta.Definition) bool { return level <= n }
	refProject(want, m, src.root, want.root, nil, 1, p)
	vpAssert(treeEq(out.root, want.root), "every depth: nodes at most N levels below the target")
	vpCover("reached")
}
