package node

import (
	"errors"

	"github.com/freeconf/yang/fc"
	"github.com/freeconf/yang/meta"
	"github.com/freeconf/yang/parser"
	"github.com/freeconf/yang/val"
)

// C08: Find reaches exactly the addressed node, and paths render back to it.

const c08Yang = `module m { namespace "urn:m"; prefix m; revision 2020-01-01;
	container a { leaf x { type string; } container b { leaf y { type int32; } } container c { leaf z { type string; } } }
	list l { key "k"; leaf k { type string; } leaf v { type int32; }
		list in { key "p q"; leaf p { type string; } leaf q { type uint8; } leaf w { type string; } } }
	leaf top { type int32; }
}`

func S_c08() any {
	m, err := parser.LoadModuleFromString(nil, c08Yang)
	if err != nil {
		panic(err)
	}
	return m
}

// refEscape percent-encodes everything but RFC 3986 unreserved characters.
func refEscape(s string) string {
	const hexd = "0123456789ABCDEF"
	out := make([]byte, 0, 3*len(s))
	for i := 0; i < len(s); i++ {
		c := s[i]
		if (c >= 'a' && c <= 'z') || (c >= 'A' && c <= 'Z') || (c >= '0' && c <= '9') || c == '-' || c == '_' || c == '.' || c == '~' {
			out = append(out, c)
		} else {
			out = append(out, '%', hexd[c>>4], hexd[c&15])
		}
	}
	return string(out)
}

func c08KeyLen() int {
	if vpTier() > 0 {
		return 3
	}
	return 2
}

//vp:setup S_c08
func H_C08_find_key_bytes(s any) {
	m := s.(*meta.Module)
	key := vpString(c08KeyLen())
	other := "zz" + key // a second, different entry
	st := newMemStore()
	l := st.root.ensureList(st, "l")
	r0 := l.addRow(st, val.String(other))
	r0.leaves["k"] = val.String(other)
	r0.leaves["v"] = val.Int32(1)
	r1 := l.addRow(st, val.String(key))
	r1.leaves["k"] = val.String(key)
	r1.leaves["v"] = val.Int32(2)
	b := NewBrowser(m, st.node())
	trailing := vpBool()
	path := "l=" + refEscape(key)
	if trailing {
		path += "/"
	}
	sel, err := b.Root().Find(path)
	vpAssert(err == nil, "a percent-encoded key is accepted")
	vpAssert(sel != nil, "the entry with that key is found")
	if sel == nil {
		return
	}
	vpAssert(sel.Meta() == meta.Find(m, "l"), "same schema node")
	vpAssert(len(sel.Key()) == 1 && sel.Key()[0].(val.String) == val.String(key), "same key value")
	v, gerr := sel.GetValue("v")
	vpAssert(gerr == nil && v != nil && v.(val.Int32) == 2, "same content (the entry with this key, not another)")
	vpAssert(st.writes() == 0, "navigation never modifies data")
	// the rendered path identifies the same location
	back := sel.Path.StringNoModule()
	again, err2 := b.Root().Find(back)
	vpAssertK("C08-path-string-unescaped", true, err2 == nil && again != nil && len(again.Key()) == 1 && again.Key()[0].(val.String) == val.String(key),
		"Find(sel.Path.String()) returns the same entry")
	vpCover("reached")
}

// compound key: string with special characters + small number, list in list
//
//vp:setup S_c08
func H_C08_find_compound_key(s any) {
	m := s.(*meta.Module)
	p := vpString(1)
	qs := []uint8{0, 7, 10, 255}
	q := qs[vpChoose(len(qs))] // enumerated: symbolic digits through ParseUint+Itoa cost minutes
	st := newMemStore()
	row := st.root.ensureList(st, "l").addRow(st, val.String("r"))
	row.leaves["k"] = val.String("r")
	in := row.ensureList(st, "in")
	e := in.addRow(st, val.String(p), val.UInt8(q))
	e.leaves["p"] = val.String(p)
	e.leaves["q"] = val.UInt8(q)
	e.leaves["w"] = val.String("hit")
	b := NewBrowser(m, st.node())
	path := "l=r/in=" + refEscape(p) + "," + val.UInt8(q).String()
	sel, err := b.Root().Find(path)
	vpAssert(err == nil && sel != nil, "entry addressed by a compound key is found")
	if sel == nil {
		return
	}
	vpAssert(len(sel.Key()) == 2 && sel.Key()[0].(val.String) == val.String(p) && sel.Key()[1].(val.UInt8) == val.UInt8(q), "both key values")
	w, gerr := sel.GetValue("w")
	vpAssert(gerr == nil && w != nil && w.String() == "hit", "content of the addressed entry")
	// EncodeKey renders the key tuple the way Find expects it
	viaEnc, errE := b.Root().Find("l=r/in=" + EncodeKey(sel.Key()))
	vpAssertK("C08-encodekey", true, errE == nil && viaEnc != nil && len(viaEnc.Key()) == 2 && viaEnc.Key()[0].(val.String) == val.String(p), "EncodeKey(sel.Key()) addresses the same entry")
	// a different number addresses nothing
	q2 := q + 1
	none, err3 := b.Root().Find("l=r/in=" + refEscape(p) + "," + val.UInt8(q2).String())
	vpAssert(err3 == nil && none == nil, "an absent key returns no selection and no error")
	vpCover("reached")
}

//vp:setup S_c08
func H_C08_find_absent_unknown(s any) {
	m := s.(*meta.Module)
	st := newMemStore()
	hasA, hasB := vpBool(), vpBool()
	if hasA {
		a := st.root.ensureKid(st, "a")
		if hasB {
			a.ensureKid(st, "b").leaves["y"] = val.Int32(vpInt32())
		}
	}
	b := NewBrowser(m, st.node())
	sel, err := b.Root().Find("a/b")
	vpAssert(err == nil, "an absent container is not an error")
	vpAssert((sel != nil) == (hasA && hasB), "selection iff the container is present")
	_, err = b.Root().Find("a/nosuch")
	vpAssert(err != nil && errors.Is(err, fc.NotFoundError), "a name that is not in the schema is a not-found error")
	_, err = b.Root().Find("nosuch")
	vpAssert(err != nil && errors.Is(err, fc.NotFoundError), "unknown top-level name is a not-found error")
	q, err := b.Root().Find("m:a")
	vpAssert(err == nil && (q != nil) == hasA, "module-qualified segment")
	_, err = b.Root().Find("other:a")
	vpAssert(err != nil && errors.Is(err, fc.NotFoundError), "wrong module qualifier is a not-found error")
	vpAssert(st.writes() == 0, "navigation never modifies data")
	vpCover("reached")
}

//vp:setup S_c08
func H_C08_find_relative(s any) {
	m := s.(*meta.Module)
	st := newMemStore()
	a := st.root.ensureKid(st, "a")
	a.ensureKid(st, "b").leaves["y"] = val.Int32(5)
	a.ensureKid(st, "c").leaves["z"] = val.String("zz")
	st.root.leaves["top"] = val.Int32(9)
	dots := st.root.ensureList(st, "l").addRow(st, val.String("x.."))
	dots.leaves["k"] = val.String("x..")
	de := dots.ensureList(st, "in").addRow(st, val.String("p"), val.UInt8(3))
	de.leaves["p"] = val.String("p")
	de.leaves["q"] = val.UInt8(3)
	b := NewBrowser(m, st.node())
	bsel, err := b.Root().Find("a/b")
	vpAssert(err == nil && bsel != nil, "start selection")
	up := vpChoose(5)
	switch up {
	case 0:
		csel, err := bsel.Find("../c")
		vpAssertK("C08-relative-find", true, err == nil && csel != nil && csel.Meta() == meta.Find(m, "a/c"), "../c from a/b reaches a/c")
	case 1:
		asel, err := bsel.Find("../../a")
		vpAssertK("C08-relative-find", true, err == nil && asel != nil && asel.Meta() == meta.Find(m, "a"), "../../a from a/b reaches a")
	case 2:
		_, err := bsel.Find("../../../a")
		vpAssert(err != nil && errors.Is(err, fc.NotFoundError), "more ../ than ancestors is a not-found error")
	case 3: // "../" also occurs later in the path (a key ending in ".."): only the leading steps go up
		esel, err := bsel.Find("../../l=x../in=p,3")
		vpAssert(err == nil && esel != nil && esel.Meta() == meta.Find(m, "l/in") && len(esel.Key()) == 2, "../../l=x../in=p,3 from a/b reaches the nested entry")
	case 4:
		csel, err := bsel.Find("../c/")
		vpAssert(err == nil && csel != nil && csel.Meta() == meta.Find(m, "a/c"), "../c/ with a trailing slash")
	}
	vpCover("reached")
}

// navigation never applies read filters to the steps it walks through
//
//vp:setup S_c08
func H_C08_find_ignores_filters(s any) {
	m := s.(*meta.Module)
	st := newMemStore()
	row := st.root.ensureList(st, "l").addRow(st, val.String("r"))
	row.leaves["k"] = val.String("r")
	row.leaves["v"] = val.Int32(vpInt32())
	e := row.ensureList(st, "in").addRow(st, val.String("p"), val.UInt8(3))
	e.leaves["p"] = val.String("p")
	e.leaves["q"] = val.UInt8(3)
	e.leaves["w"] = val.String("hit")
	a := st.root.ensureKid(st, "a")
	a.ensureKid(st, "b").leaves["y"] = val.Int32(1)
	b := NewBrowser(m, st.node())
	queries := []string{"where=v%3D12345", "where=k%3D'nomatch'", "depth=1", "fields=top", "fc.xfields=l", "content=nonconfig", "fc.range=l!5-6", "fc.max-node-count=1"}
	q := queries[vpChoose(len(queries))]
	sel, err := b.Root().Find("l=r/in=p,3?" + q)
	vpAssert(err == nil && sel != nil, "Find reaches the addressed entry whatever read filter is attached: "+q)
	if sel != nil {
		vpAssert(len(sel.Key()) == 2 && sel.Meta() == meta.Find(m, "l/in"), "same node")
	}
	sel2, err2 := b.Root().Find("a/b?" + q)
	vpAssert(err2 == nil && sel2 != nil && sel2.Meta() == meta.Find(m, "a/b"), "Find reaches the addressed container whatever read filter is attached: "+q)
	// a start selection that already carries filters
	start, err3 := b.Root().Constrain(q)
	vpAssert(err3 == nil, "constrain")
	sel3, err4 := start.Find("l=r/in=p,3")
	vpAssert(err4 == nil && sel3 != nil, "Find from a constrained start selection: "+q)
	vpAssert(st.writes() == 0, "no writes")
	vpCover("reached")
}
