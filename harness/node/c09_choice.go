package node

import (
	"github.com/freeconf/yang/meta"
	"github.com/freeconf/yang/parser"
	"github.com/freeconf/yang/val"
)

// C09: after any sequence of upserts at most one case of each choice holds
// data, switching cases removes all data of the previous case (leaves,
// containers, lists, nested choices, shorthand cases) and nothing else.

const c09Yang = `module m { namespace "urn:m"; prefix m; revision 2020-01-01;
	container c {
		leaf keep { type string; }
		choice ch1 {
			case a { leaf a1 { type string; } leaf a2 { type int32; } }
			case b { container b1 { leaf y { type string; } } list bl { key "k"; leaf k { type string; } } }
			leaf sh { type string; }
		}
		choice ch2 {
			case x { leaf x1 { type string; } }
			case y { choice inner { case i1 { leaf i1l { type string; } } case i2 { leaf i2l { type string; } } } leaf ytail { type string; } container ybox { leaf yb { type string; } } }
		}
		leaf tail { type string; }
	}
	list l { key "k"; leaf k { type string; } choice lch { case p { leaf p1 { type string; } } case q { leaf q1 { type string; } } } }
}`

func S_c09() any {
	m, err := parser.LoadModuleFromString(nil, c09Yang)
	if err != nil {
		panic(err)
	}
	return m
}

// c09Step fills the container c of a source store with one of the options.
func c09Step(st *memStore, opt int) {
	c := st.root.ensureKid(st, "c")
	s := val.String(vpStringN(1))
	switch opt {
	case 0:
		c.leaves["a1"] = s
	case 1:
		c.leaves["a1"] = s
		c.leaves["a2"] = val.Int32(vpInt32())
	case 2:
		c.ensureKid(st, "b1").leaves["y"] = s
	case 3:
		r := c.ensureList(st, "bl").addRow(st, val.String("r"))
		r.leaves["k"] = val.String("r")
	case 4:
		c.leaves["sh"] = s
	case 5:
		c.leaves["x1"] = s
	case 6:
		c.leaves["i1l"] = s
	case 7:
		c.leaves["i2l"] = s
	case 8: // both choices at once
		c.leaves["a1"] = s
		c.leaves["i2l"] = val.String("z")
	case 9: // data outside any choice only
		c.leaves["tail"] = s
	case 10: // a case whose nested choice is followed by more nodes
		c.leaves["i1l"] = s
		c.leaves["ytail"] = val.String("yt")
		c.ensureKid(st, "ybox").leaves["yb"] = val.String("yb")
	}
}

// refChoices applies the choice rule for source tree S onto T for the
// definitions of md (a container or case): for every choice, if S holds data
// of a case, all other cases are cleared in T.
func refChoices(md meta.HasDataDefinitions, S, T *memTree) {
	for _, d := range md.DataDefinitions() {
		ch, ok := d.(*meta.Choice)
		if !ok {
			continue
		}
		var sel *meta.ChoiceCase
		for _, id := range ch.CaseIdents() {
			if memCaseHasData(S, ch.Cases()[id]) {
				sel = ch.Cases()[id]
				break
			}
		}
		if sel == nil {
			continue
		}
		for _, id := range ch.CaseIdents() {
			if ch.Cases()[id] != sel {
				refClearCase(T, ch.Cases()[id])
			}
		}
		refChoices(sel, S, T)
	}
}

// refMergeFlat: merge the leaves/containers/lists S holds for c into T (c has
// no defaults; list rows keyed by "k").
func refMergeFlat(st *memStore, S, T *memTree) {
	for k, v := range S.leaves {
		T.leaves[k] = v
	}
	for k, sk := range S.kids {
		refMergeFlat(st, sk, T.ensureKid(st, k))
	}
	for k, sl := range S.lists {
		tl := T.ensureList(st, k)
		for _, sr := range sl.rows {
			tr := tl.find(sr.key...)
			if tr == nil {
				tr = tl.addRow(st, sr.key...)
			}
			refMergeFlat(st, sr.t, tr)
		}
	}
}

// atMostOneCase checks the invariant on a stored container.
func atMostOneCase(md meta.HasDataDefinitions, t *memTree) bool {
	for _, d := range md.DataDefinitions() {
		ch, ok := d.(*meta.Choice)
		if !ok {
			continue
		}
		n := 0
		for _, id := range ch.CaseIdents() {
			cs := ch.Cases()[id]
			if memCaseHasData(t, cs) {
				n++
				if !atMostOneCase(cs, t) {
					return false
				}
			}
		}
		if n > 1 {
			return false
		}
	}
	return true
}

func c09Steps() int {
	if vpTier() > 0 {
		return 3
	}
	return 2
}

//vp:setup S_c09
func H_C09_choice_sequence(s any) {
	m := s.(*meta.Module)
	cMeta := meta.Find(m, "c").(*meta.Container)
	dst, ref := newMemStore(), newMemStore()
	dst.quiet = true
	keep := val.String(vpStringN(1))
	dst.root.ensureKid(dst, "c").leaves["keep"] = keep
	ref.root.ensureKid(ref, "c").leaves["keep"] = keep
	b := NewBrowser(m, dst.node())
	for i := 0; i < c09Steps(); i++ {
		src := newMemStore()
		src.quiet = true
		c09Step(src, vpChoose(11))
		err := b.Root().UpsertFrom(src.node())
		vpAssert(err == nil, "upsert succeeds")
		refChoices(cMeta, src.root.kids["c"], ref.root.kids["c"])
		refMergeFlat(ref, src.root.kids["c"], ref.root.kids["c"])
		got := dst.root.kids["c"]
		vpAssertK("C09-nested-choice-not-cleared", true, atMostOneCase(cMeta, got), "at most one case of every choice holds data")
		vpAssertK("C09-nested-choice-not-cleared", true, treeEq(got, ref.root.kids["c"]), "the previous case is removed completely and nothing outside the choice changes")
	}
	// a read reports exactly what is stored (selected cases only, nothing else)
	out := newMemStore()
	out.quiet = true
	vpAssert(b.Root().UpsertInto(out.node()) == nil, "export succeeds")
	vpAssertK("C09-nested-choice-not-cleared", true, treeEq(out.root, dst.root), "a read reports the nodes of the selected cases only")
	vpCover("reached")
}

// one upsert switches the case in two entries of the same list
//
//vp:setup S_c09
func H_C09_choice_two_entries(s any) {
	m := s.(*meta.Module)
	dst := newMemStore()
	dst.quiet = true
	b := NewBrowser(m, dst.node())
	keys := []val.Value{val.String("r1"), val.String("r2"), val.String("r3")}
	first := [3]bool{vpBool(), vpBool(), vpBool()}
	second := [3]bool{vpBool(), vpBool(), vpBool()}
	for step, sel := range [][3]bool{first, second} {
		src := newMemStore()
		src.quiet = true
		l := src.root.ensureList(src, "l")
		for i, k := range keys {
			row := l.addRow(src, k)
			row.leaves["k"] = k
			if sel[i] {
				row.leaves["p1"] = val.String("p")
			} else {
				row.leaves["q1"] = val.String("q")
			}
		}
		vpAssert(b.Root().UpsertFrom(src.node()) == nil, "upsert succeeds")
		for i, k := range keys {
			got := dst.root.lists["l"].find(k)
			vpAssert(got != nil, "row exists")
			_, hasP := got.leaves["p1"]
			_, hasQ := got.leaves["q1"]
			vpAssert(hasP == sel[i] && hasQ == !sel[i], "every entry holds exactly the case written last (step "+string(rune('0'+step))+")")
		}
	}
	vpCover("reached")
}

// choice inside a list entry
//
//vp:setup S_c09
func H_C09_choice_in_list(s any) {
	m := s.(*meta.Module)
	dst := newMemStore()
	dst.quiet = true
	b := NewBrowser(m, dst.node())
	k := val.String("r1")
	for i := 0; i < 2; i++ {
		src := newMemStore()
		src.quiet = true
		row := src.root.ensureList(src, "l").addRow(src, k)
		row.leaves["k"] = k
		if vpBool() {
			row.leaves["p1"] = val.String(vpStringN(1))
		} else {
			row.leaves["q1"] = val.String(vpStringN(1))
		}
		vpAssert(b.Root().UpsertFrom(src.node()) == nil, "upsert succeeds")
		got := dst.root.lists["l"].find(k)
		vpAssert(got != nil, "row exists")
		_, hasP := got.leaves["p1"]
		_, hasQ := got.leaves["q1"]
		vpAssert(!(hasP && hasQ), "at most one case inside the list entry")
		_, wantP := row.leaves["p1"]
		vpAssert(hasP == wantP && hasQ == !wantP, "the entry holds exactly the case just written")
	}
	vpCover("reached")
}
