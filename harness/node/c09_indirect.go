package node

import (
	"github.com/freeconf/yang/meta"
	"github.com/freeconf/yang/parser"
	"github.com/freeconf/yang/val"
)

// C09, hunt wave 3 findings 1-3: the case that is left holds a container that
// reaches it through a nested choice, an augment or a uses. Clearing the case
// has to delete that container like any other; the switch must not fail.

var c09iYang = []string{
	// 0: container in a case of a choice nested in the case
	`module m { namespace "urn:m"; prefix m; revision 2020-01-01;
	container c { leaf keep { type string; }
		choice o {
			case a { choice i { case a1 { leaf x { type string; } container box { leaf q { type string; } } } case a2 { leaf y { type string; } } } leaf az { type string; } }
			case b { leaf bz { type string; } }
		} } }`,
	// 1: container augmented into the case
	`module m { namespace "urn:m"; prefix m; revision 2020-01-01;
	container c { leaf keep { type string; }
		choice o { case a { leaf x { type string; } } case b { leaf bz { type string; } } } }
	augment "/c/o/a" { container box { leaf q { type string; } } } }`,
	// 2: container that reaches the case through uses
	`module m { namespace "urn:m"; prefix m; revision 2020-01-01;
	grouping g { leaf x { type string; } container box { leaf q { type string; } } }
	container c { leaf keep { type string; }
		choice o { case a { uses g; } case b { leaf bz { type string; } } } } }`,
	// 3: control - the container is declared directly in the case
	`module m { namespace "urn:m"; prefix m; revision 2020-01-01;
	container c { leaf keep { type string; }
		choice o { case a { leaf x { type string; } container box { leaf q { type string; } } } case b { leaf bz { type string; } } } } }`,
}

func S_c09i() any {
	ms := make([]*meta.Module, len(c09iYang))
	for i, y := range c09iYang {
		m, err := parser.LoadModuleFromString(nil, y)
		if err != nil {
			panic(err)
		}
		ms[i] = m
	}
	return ms
}

//vp:setup S_c09i
func H_C09_case_container_behind_indirection(s any) {
	variant := vpChoose(len(c09iYang))
	m := s.([]*meta.Module)[variant]
	withBox := vpBool() // whether the container of the old case holds data at all
	dst := newMemStore()
	dst.quiet = true
	c := dst.root.ensureKid(dst, "c")
	c.leaves["keep"] = val.String("k")
	c.leaves["x"] = val.String(vpStringN(1))
	if withBox {
		c.ensureKid(dst, "box").leaves["q"] = val.String("q")
	}
	src := newMemStore()
	src.quiet = true
	bz := val.String(vpStringN(1))
	src.root.ensureKid(src, "c").leaves["bz"] = bz
	vpCover("reached")
	err := NewBrowser(m, dst.node()).Root().UpsertFrom(src.node())
	got := dst.root.kids["c"]
	_, hasX := got.leaves["x"]
	_, hasBox := got.kids["box"]
	ok := err == nil && !hasX && !hasBox && got.leaves["bz"] == val.Value(bz) && got.leaves["keep"] == val.Value(val.String("k"))
	vpAssertK("C09-case-container-behind-indirection", variant != 3, ok, "switching to the other case succeeds and removes the leaf and the container of the case that is left")
}
