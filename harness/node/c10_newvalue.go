package node

import (
	"github.com/freeconf/yang/meta"
	"github.com/freeconf/yang/parser"
	"github.com/freeconf/yang/val"
)

// C10 at the schema-aware front end (node.NewValue): bits given as a number
// (hunt C10 findings 10 and 15).

const c10bYang = `module m { namespace "urn:m"; prefix m; revision 2020-01-01;
	leaf bt { type bits { bit x; bit y; bit z; } }
	leaf-list btl { type bits { bit x; bit y; bit z; } }
	leaf hi { type bits { bit lo; bit big { position 64; } bit big2 { position 65; } } }
}`

func S_c10b() any {
	m, err := parser.LoadModuleFromString(nil, c10bYang)
	if err != nil {
		panic(err)
	}
	return m
}

func c10LeafType(m *meta.Module, name string) *meta.Type {
	return meta.Find(m, name).(meta.HasType).Type()
}

// a float64 denotes a set of bit positions only when it is a non-negative integer below 2^64
//
//vp:setup S_c10b
func H_C10_bits_from_float(s any) {
	m := s.(*meta.Module)
	f := vpFloat64()
	vpCover("reached")
	list := vpBool()
	var pos uint64
	if list {
		v, err := NewValue(c10LeafType(m, "btl"), []interface{}{f})
		if err != nil {
			return
		}
		l, ok := v.(val.BitsList)
		vpAssert(ok && len(l) == 1, "one element")
		pos = l[0].Positions
	} else {
		v, err := NewValue(c10LeafType(m, "bt"), f)
		if err != nil {
			return
		}
		pos = v.(val.Bits).Positions
	}
	inRange := vpAnd(f >= 0, f < 8)
	vpAssert(inRange, "only the declared positions 0..2 can be set")
	if inRange {
		vpAssert(float64(pos) == f, "the accepted bits denote exactly the number given (no truncation of a fraction)")
	}
}

// a bit whose position does not fit the 64-bit position set must not vanish
//
//vp:setup S_c10b
func H_C10_bits_high_position(s any) {
	m := s.(*meta.Module)
	names := []string{"lo", "big", "big2", "big lo", "big2 lo", ""}
	n := names[vpChoose(len(names))]
	vpCover("reached")
	v, err := NewValue(c10LeafType(m, "hi"), n)
	if err != nil {
		return
	}
	b := v.(val.Bits)
	want := uint64(0)
	high := false
	for _, l := range b.Labels {
		switch l {
		case "lo":
			want |= 1
		default:
			high = true
		}
	}
	vpAssert(!high, "a bit at position 64 or above is refused, not dropped from the position set")
	vpAssert(b.Positions == want, "positions match the labels")
}
