package node

import (
	"errors"

	"github.com/freeconf/yang/meta"
	"github.com/freeconf/yang/parser"
	"github.com/freeconf/yang/val"
)

// C12: every node told an edit begins is told it ended; node errors surface;
// no write after the failing callback. The fault position is a symbolic
// integer compared with the callback counter of the recording store.

const c12Yang = `module m { namespace "urn:m"; prefix m; revision 2020-01-01;
	container a {
		leaf x { type string; }
		container b { leaf y { type int32; } }
		list l { key "k"; leaf k { type string; } leaf v { type int32; } container lc { leaf z { type string; } } }
		choice ch { case c1 { leaf p { type string; } } case c2 { container q { leaf r { type string; } } } }
		choice ch2 {
			case n { choice inner { case i1 { leaf i1l { type string; } } case i2 { leaf i2l { type string; } } } leaf after { type string; } }
			case o { leaf ol { type string; } }
		}
		leaf zlast { type string; }
	}
	container other { leaf o { type string; } }
}`

func S_c12() any {
	m, err := parser.LoadModuleFromString(nil, c12Yang)
	if err != nil {
		panic(err)
	}
	return m
}

// c12Source fills a store with one of a few shapes (enumerated).
func c12Fill(st *memStore, shape int) {
	a := st.root.ensureKid(st, "a")
	a.leaves["x"] = val.String("hi")
	switch shape {
	case 0: // nested container
		a.ensureKid(st, "b").leaves["y"] = val.Int32(7)
	case 1: // list with two rows, one with nested container
		l := a.ensureList(st, "l")
		r1 := l.addRow(st, val.String("k1"))
		r1.leaves["k"] = val.String("k1")
		r1.leaves["v"] = val.Int32(1)
		r2 := l.addRow(st, val.String("k2"))
		r2.leaves["k"] = val.String("k2")
		r2.ensureKid(st, "lc").leaves["z"] = val.String("zz")
	case 2: // choice case 2
		a.ensureKid(st, "q").leaves["r"] = val.String("rr")
	case 3: // choice case 1 + container
		a.leaves["p"] = val.String("pp")
		a.ensureKid(st, "b").leaves["y"] = val.Int32(9)
	case 4: // a case that begins with a nested choice, followed by more leaves
		a.leaves["i1l"] = val.String("in")
		a.leaves["after"] = val.String("af")
		a.leaves["zlast"] = val.String("zl")
	}
}

// c12Target pre-populates the target so that update/merge paths exist.
func c12Target(st *memStore, shape int, pre bool, full bool) {
	st.root.ensureKid(st, "other").leaves["o"] = val.String("keep")
	if !pre {
		return
	}
	a := st.root.ensureKid(st, "a")
	switch shape {
	case 0:
		a.ensureKid(st, "b")
	case 1:
		l := a.ensureList(st, "l")
		r1 := l.addRow(st, val.String("k1"))
		r1.leaves["k"] = val.String("k1")
		if full {
			r2 := l.addRow(st, val.String("k2"))
			r2.leaves["k"] = val.String("k2")
			r2.ensureKid(st, "lc")
		}
	case 2:
		if full {
			a.ensureKid(st, "q")
			break
		}
		a.leaves["p"] = val.String("old") // other case selected
	case 3:
		if full {
			a.ensureKid(st, "b")
			break
		}
		a.ensureKid(st, "q").leaves["r"] = val.String("old")
	case 4:
		if !full {
			a.leaves["ol"] = val.String("old") // other case of ch2 selected
		}
	}
}

// c12Monitor checks the begin/end discipline on one log.
func c12Monitor(st *memStore, what string) {
	open := map[int]int{}
	failedSeen := false
	for _, e := range st.log {
		switch e.kind {
		case "begin":
			if !e.fail {
				open[e.node]++
			}
		case "end":
			vpAssertK("C12-end-without-begin", false, open[e.node] > 0, what+": EndEdit only after a successful BeginEdit of the same node")
			open[e.node]--
		}
		if failedSeen {
			isWrite := (e.kind == "field" && e.write) || ((e.kind == "child" || e.kind == "next") && (e.isNew || e.del))
			vpAssert(!isWrite, what+": no write is issued after the failing call")
		}
		if e.fail {
			failedSeen = true
		}
	}
	for _, n := range open {
		vpAssertK("C12-begin-not-ended", true, n == 0, what+": every successfully begun node is told exactly once that the edit ended")
	}
}

func c12Run(m *meta.Module, strategy int, entry int, del bool) {
	shape := vpChoose(5)
	if entry == 2 {
		shape = 1 // the list shape
	}
	pre := vpBool()
	src, dst := newMemStore(), newMemStore()
	src.seq = dst.seq // one order for the events of both stores
	c12Fill(src, shape)
	if (strategy == 2 && !pre) || (strategy == 1 && pre) {
		return // update needs every node to exist, insert needs none: the operation's own failures are C03's subject
	}
	c12Target(dst, shape, pre, strategy == 2)
	faultDst := vpBool()
	k := vpInt()
	vpAssume(k >= 0 && k <= 80)
	if faultDst {
		dst.faultAt = k
	} else {
		src.faultAt = k
	}
	b := NewBrowser(m, dst.node())
	root := b.Root()
	var sel *Selection
	var err error
	var srcNode Node
	switch entry {
	case 0:
		sel, srcNode = root, src.node()
	case 2: // a list entry is the edit root (it has three ancestors: list, a, module)
		if !pre {
			return
		}
		sel, err = root.Find("a/l=k1")
		if err != nil || sel == nil {
			c12Monitor(dst, "target")
			return
		}
		srcNode = &memNode{s: src, t: src.root.kids["a"].lists["l"].find(val.String("k1"))}
	case 3: // nested container as the addressed node (Delete)
		if !pre || shape != 0 {
			return
		}
		sel, err = root.Find("a/b")
		if err != nil || sel == nil {
			c12Monitor(dst, "target")
			return
		}
		srcNode = &memNode{s: src, t: src.root.kids["a"].kids["b"]}
	default:
		sel, err = root.Find("a")
		if err != nil || sel == nil {
			// navigation itself hit the fault or a is absent: nothing was begun
			c12Monitor(dst, "target")
			return
		}
		srcNode = &memNode{s: src, t: src.root.kids["a"]}
	}
	navCalls := dst.calls
	_ = navCalls
	panicked := vpCatch(func() {
		switch {
		case del:
			err = sel.Delete()
		case strategy == 0:
			err = sel.UpsertFrom(srcNode)
		case strategy == 1:
			err = sel.InsertFrom(srcNode)
		default:
			err = sel.UpdateFrom(srcNode)
		}
	})
	vpAssertK("C12-choose-error-panics", true, !panicked, "a failing node callback is reported as an error, not a panic")
	fired := (faultDst && dst.faultAt != 0 && dst.calls >= dst.faultAt) || (!faultDst && src.faultAt != 0 && src.calls >= src.faultAt)
	if fired && !panicked {
		firedKind := ""
		for _, e := range dst.log {
			if e.fail {
				firedKind = e.kind
			}
		}
		for _, e := range src.log {
			if e.fail {
				firedKind = e.kind
			}
		}
		vpAssertK("C12-choose-error-swallowed", firedKind == "choose" && faultDst, err != nil, "an error returned by a node callback makes the call fail")
		if err == nil {
			return // (known finding) the edit went on as if nothing had failed: nothing more to compare
		}
		if err != nil {
			if !vpIsSymbolic() && !errors.Is(err, errInjected) {
				println("DEBUG err:", err.Error(), "firedKind:", firedKind)
				for _, e := range dst.log {
					println("  dst", e.kind, e.node, e.ident, e.fail)
				}
			}
			vpAssertK("C12-endedit-error-not-wrapped", firedKind == "end", errors.Is(err, errInjected), "the returned error wraps the node's error")
		}
	}
	c12Monitor(dst, "target")
	c12Monitor(src, "source")
	// across the two stores: once a callback of the source has failed, the target receives no further write
	failSeq := 0
	for _, e := range src.log {
		if e.fail {
			failSeq = e.seq
		}
	}
	if failSeq > 0 {
		for _, e := range dst.log {
			isWrite := (e.kind == "field" && e.write) || ((e.kind == "child" || e.kind == "next") && (e.isNew || e.del))
			vpAssertK("C12-source-failure-reported-late", true, !(isWrite && e.seq > failSeq), "no write reaches the target after a callback of the source has failed")
		}
	}
	// nodes outside the edit never hear about it
	otherID := dst.root.kids["other"].id
	for _, e := range dst.log {
		if e.kind == "begin" || e.kind == "end" {
			vpAssert(e.node != otherID, "begin/end only go to edited nodes and the edit root's ancestors")
		}
	}
	vpCover("reached")
}

//vp:setup S_c12
func H_C12_fault_upsert_root(s any) { c12Run(s.(*meta.Module), 0, 0, false) }

//vp:setup S_c12
func H_C12_fault_upsert_container(s any) { c12Run(s.(*meta.Module), 0, 1, false) }

//vp:setup S_c12
func H_C12_fault_insert_root(s any) { c12Run(s.(*meta.Module), 1, 0, false) }

//vp:setup S_c12
func H_C12_fault_update_container(s any) { c12Run(s.(*meta.Module), 2, 1, false) }

//vp:setup S_c12
func H_C12_fault_delete_container(s any) { c12Run(s.(*meta.Module), 0, 1, true) }

//vp:setup S_c12
func H_C12_fault_upsert_listentry(s any) { c12Run(s.(*meta.Module), 0, 2, false) }

//vp:setup S_c12
func H_C12_fault_update_listentry(s any) { c12Run(s.(*meta.Module), 2, 2, false) }

//vp:setup S_c12
func H_C12_fault_delete_listentry(s any) { c12Run(s.(*meta.Module), 0, 2, true) }

//vp:setup S_c12
func H_C12_fault_delete_nested(s any) { c12Run(s.(*meta.Module), 0, 3, true) }

// Two failing callbacks in one edit (hunt C12 finding 6): the second one can
// only be an EndEdit sent while the edit unwinds. Pairing must still hold and
// the returned error has to wrap both node errors.
func c12TwoFaults(m *meta.Module, strategy int, entry int) {
	shape := vpChoose(3)
	src, dst := newMemStore(), newMemStore()
	src.seq = dst.seq
	c12Fill(src, shape)
	c12Target(dst, shape, true, true)
	k := vpInt()
	k2 := vpInt()
	vpAssume(k >= 1 && k <= 60 && k2 > k && k2 <= 70)
	dst.faultAt, dst.faultAt2, dst.err2 = k, k2, errInjected2
	root := NewBrowser(m, dst.node()).Root()
	sel, srcNode := root, src.node()
	if entry == 1 {
		var ferr error
		sel, ferr = root.Find("a")
		if ferr != nil || sel == nil {
			return
		}
		srcNode = &memNode{s: src, t: src.root.kids["a"]}
	}
	var err error
	panicked := vpCatch(func() {
		if strategy == 2 {
			err = sel.UpdateFrom(srcNode)
		} else {
			err = sel.UpsertFrom(srcNode)
		}
	})
	vpAssert(!panicked, "two failing callbacks are reported as an error, not a panic")
	if panicked {
		return
	}
	n1, n2 := false, false
	kind1 := ""
	for _, e := range dst.log {
		if e.fail {
			if !n1 {
				n1, kind1 = true, e.kind
			} else {
				n2 = true
			}
		}
	}
	if kind1 == "choose" {
		return // the known finding C12-choose-error-swallowed (decided by the one-fault harnesses): the edit went on after the first fault
	}
	c12Monitor(dst, "target (two faults)")
	if n1 && kind1 != "choose" { // a swallowed Choose error is the known finding C12-choose-error-swallowed
		vpAssert(err != nil && errors.Is(err, errInjected), "the returned error wraps the first node error")
	}
	if n1 && n2 && err != nil {
		vpAssert(errors.Is(err, errInjected2), "the returned error also wraps the error of a later callback (EndEdit while unwinding)")
		vpCover("both fired")
	}
	vpCover("reached")
}

//vp:setup S_c12
func H_C12_two_faults_upsert_root(s any) { c12TwoFaults(s.(*meta.Module), 0, 0) }

//vp:setup S_c12
func H_C12_two_faults_upsert_container(s any) { c12TwoFaults(s.(*meta.Module), 0, 1) }

//vp:setup S_c12
func H_C12_two_faults_update_container(s any) { c12TwoFaults(s.(*meta.Module), 2, 1) }
