package node

import (
	"github.com/freeconf/yang/meta"
	"github.com/freeconf/yang/val"
	"github.com/freeconf/yang/xpath"
)

// C13 (paths, query strings, xpath text, SetValue): any request content gives
// a result or an error, never a panic; stored data stays readable.

func c13Store(st *memStore) {
	a := st.root.ensureKid(st, "a")
	a.leaves["x"] = val.String("xv")
	a.ensureKid(st, "b").leaves["y"] = val.Int32(1)
	row := st.root.ensureList(st, "l").addRow(st, val.String("r"))
	row.leaves["k"] = val.String("r")
	row.leaves["v"] = val.Int32(2)
	e := row.ensureList(st, "in").addRow(st, val.String("p"), val.UInt8(3))
	e.leaves["p"] = val.String("p")
	e.leaves["q"] = val.UInt8(3)
	st.root.leaves["top"] = val.Int32(9)
}

var c13Segs = []string{"a", "a/b", "a/x", "a/b/y", "l", "l=r", "l=r/in", "l=r/in=p,3", "top", "nosuch", "a=5", "a/x/y", "a/b=1,2", "l=r,extra", "l=", "l=r/in=p", "l=r/in=p,notanumber",
	"top/x", "top=1", "=", "/", "//a", "a//b", "l=r/", "m:a", ":a", "a:", "%", "%zz", "a%2Fb", "l=%", "../a", "..", "../../..", "a/../b", "?", "a?", "a?depth", "a?depth=", "a?=1", "a?&&", "l=r?where=", "l?where=nosuch%3D1", "l?where=%3D%3D", "l?filter=v%3E1", "l?fc.range=", "l?fc.range=!", "l?fc.range=l!", "l?fc.range=!1-2", "a?fields=", "a?fields=(", "a?fields=)", "a?fields=((((", "a?fields=x;;", "a?fc.xfields=%3B", "a?content=", "a?with-defaults="}

//vp:setup S_c08
func H_C13_find_catalogue(s any) {
	c13Budget()
	m := s.(*meta.Module)
	st := newMemStore()
	c13Store(st)
	b := NewBrowser(m, st.node())
	path := c13Segs[vpChoose(len(c13Segs))]
	tail := vpString(1) // one arbitrary byte appended
	var err error
	p := vpCatch(func() {
		var sel *Selection
		sel, err = b.Root().Find(path + tail)
		if err == nil && sel != nil && !meta.IsLeaf(sel.Meta()) {
			out := newMemStore()
			out.quiet = true
			if meta.IsList(sel.Meta()) && !sel.InsideList {
				err = sel.UpsertInto(&memNode{s: out, l: out.root.ensureList(out, "x")})
			} else {
				err = sel.UpsertInto(&memNode{s: out, t: out.newTree()})
			}
		}
	})
	vpAssertK("C13-find-panics", true, !p, "Find("+path+"+byte) returns a selection or an error, never a panic")
	vpAssert(st.writes() == 0 && st.root.leaves["top"] != nil, "stored data untouched")
	vpCover("reached")
}

// Find from a selection at any depth, with any number of leading "../" steps (more than there are
// ancestors included) followed by a catalogue path and one arbitrary byte
//
//vp:setup S_c08
func H_C13_find_from_below(s any) {
	c13Budget()
	m := s.(*meta.Module)
	st := newMemStore()
	c13Store(st)
	b := NewBrowser(m, st.node())
	starts := []string{"a", "a/b", "l", "l=r", "l=r/in", "l=r/in=p,3"}
	start := starts[vpChoose(len(starts))]
	from, err := b.Root().Find(start)
	vpAssert(err == nil && from != nil, "start selection found")
	ups := vpChoose(6) // 0..5 "../" steps; the deepest start has 4 ancestors
	path := ""
	for i := 0; i < ups; i++ {
		path += "../"
	}
	tails := []string{"", "a", "a/b", "l", "l=r", "top", "nosuch", "..", "a?depth=1", "l=r/in=p,3"}
	label := path + tails[vpChoose(len(tails))]
	path = label + vpString(1)
	p := vpCatch(func() {
		sel, ferr := from.Find(path)
		if ferr == nil && sel != nil && !meta.IsLeaf(sel.Meta()) {
			out := newMemStore()
			out.quiet = true
			if meta.IsList(sel.Meta()) && !sel.InsideList {
				sel.UpsertInto(&memNode{s: out, l: out.root.ensureList(out, "x")})
			} else {
				sel.UpsertInto(&memNode{s: out, t: out.newTree()})
			}
		}
	})
	vpAssertK("C13-find-panics", true, !p, "Find("+label+"+byte) from "+start+" returns a selection or an error, never a panic")
	vpAssert(st.writes() == 0 && st.root.leaves["top"] != nil, "stored data untouched")
	vpCover("reached")
}

// arbitrary short byte strings as a whole path
//
//vp:setup S_c08
func H_C13_find_bytes(s any) {
	c13Budget()
	m := s.(*meta.Module)
	st := newMemStore()
	c13Store(st)
	b := NewBrowser(m, st.node())
	prefixes := []string{"", "a/", "l=", "l=r/in=", "a?", "?depth="}
	path := prefixes[vpChoose(len(prefixes))] + vpString(2)
	p := vpCatch(func() { b.Root().Find(path) })
	vpAssertK("C13-find-panics", true, !p, "any bytes in a path give a result or an error")
	vpCover("reached")
}

// field-path expressions, row windows and xpath text: any short byte string
func H_C13_pathexpr_bytes() {
	c13Budget()
	e := vpString(3)
	p := vpCatch(func() {
		pe, err := ParsePathExpression(e)
		if err == nil && pe != nil {
			base := &Path{Meta: nil}
			_ = base
		}
	})
	vpAssert(!p, "ParsePathExpression never panics")
	vpCover("reached")
}

func H_C13_listrange_bytes() {
	c13Budget()
	e := vpString(3)
	pre := []string{"", "l!", "l!1-", "l!-"}
	x := pre[vpChoose(len(pre))] + e
	p := vpCatch(func() { NewListRange(x) })
	vpAssert(!p, "NewListRange never panics")
	vpCover("reached")
}

func H_C13_xpath_bytes() {
	c13Budget()
	pre := []string{"", "a/", "a=", "a<", "a='", "a/b!="}
	x := pre[vpChoose(len(pre))] + vpString(2)
	p := vpCatch(func() { xpath.Parse(x) })
	vpAssert(!p, "xpath.Parse never panics")
	vpCover("reached")
}

// SetValue with a value of any Go kind on every leaf type
//
//vp:setup S_c16
func H_C13_setvalue_anykind(s any) {
	c13Budget()
	m := s.(*meta.Module)
	leaves := []string{"i8", "u8", "i32", "u64", "d", "s", "b", "e"}
	leaf := leaves[vpChoose(len(leaves))]
	var v interface{}
	switch vpChoose(12) {
	case 0:
		v = vpInt64()
	case 1:
		v = vpUint64()
	case 2:
		if leaf == "s" || leaf == "e" {
			v = 2.5 // float -> string formats the number: FormatFloat on a symbolic double is out of reach
		} else {
			v = vpFloat64()
		}
	case 3:
		v = vpString(2)
	case 4:
		v = vpBool()
	case 5:
		v = nil
	case 6:
		v = []interface{}{vpInt32(), "x"}
	case 7:
		v = map[string]interface{}{"a": 1}
	case 8:
		v = []string{"a", "b"}
	case 9:
		v = struct{ A int }{1}
	case 10:
		v = vpInt8()
	case 11:
		v = []interface{}{}
	}
	st := newMemStore()
	st.quiet = true
	st.root.ensureKid(st, "c").leaves["s"] = val.String("before")
	sel, err := NewBrowser(m, st.node()).Root().Find("c/" + leaf)
	vpAssert(err == nil && sel != nil, "leaf selected")
	p := vpCatch(func() { err = sel.SetValue(v) })
	vpAssertK("C13-setvalue-panics", true, !p, "SetValue with any value returns nil or an error")
	keep := st.root.kids["c"].leaves["s"]
	vpAssert(leaf == "s" || (keep != nil && keep.String() == "before"), "other data untouched")
	vpCover("reached")
}

// a hang is a violation of this property, not an inconclusive unwinding bound: loops are limited only by the
// step budget (well above the longest request in these harnesses) and the frame-depth budget
func c13Budget() {
	vpUnwind(1 << 30)
	vpSteps(3000000)
	vpDepth(1500)
}
