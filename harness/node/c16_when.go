package node

import (
	"github.com/freeconf/yang/meta"
	"github.com/freeconf/yang/parser"
	"github.com/freeconf/yang/val"
	"github.com/freeconf/yang/xpath"
)

// C16: when / where / filter hide exactly what their expression excludes;
// a comparison between a leaf and a literal is true exactly when it holds
// mathematically, and false (not a crash) when the leaf has no value.

const c16Yang = `module m { namespace "urn:m"; prefix m; revision 2020-01-01;
	container c {
		leaf i8 { type int8; } leaf u8 { type uint8; } leaf i16 { type int16; } leaf u16 { type uint16; }
		leaf i32 { type int32; } leaf u32 { type uint32; } leaf i64 { type int64; } leaf u64 { type uint64; }
		leaf d { type decimal64 { fraction-digits 2; } } leaf s { type string; } leaf b { type boolean; }
		leaf e { type enumeration { enum a; enum b; enum c; } }
	}
	list l { key "k"; leaf k { type int32; } leaf n { type uint8; } leaf s { type string; } }
	container w {
		leaf mode { type int32; }
		container adv { when "lvl>5"; leaf lvl { type int32; } leaf x { type string; } }
		leaf wl { when "mode=3"; type string; }
		container deep { when "sub/flag!=0"; container sub { leaf flag { type int32; } } leaf dz { type string; } }
		container plain { leaf y { type string; } }
	}
	notification ev { leaf sev { type int32; } leaf cls { type string; } }
}`

func S_c16() any {
	m, err := parser.LoadModuleFromString(nil, c16Yang)
	if err != nil {
		panic(err)
	}
	return m
}

var c16Ops = []string{"=", "!=", "<", "<=", ">", ">="}

func c16Math(op string, c int) bool { // c = sign of (leaf - literal)
	switch op {
	case "=":
		return c == 0
	case "!=":
		return c != 0
	case "<":
		return c < 0
	case "<=":
		return c <= 0
	case ">":
		return c > 0
	}
	return c >= 0
}

func c16Cmp64(a, b int64) int {
	if a < b {
		return -1
	}
	if a > b {
		return 1
	}
	return 0
}

func c16CmpU64(a, b uint64) int {
	if a < b {
		return -1
	}
	if a > b {
		return 1
	}
	return 0
}

// c16Pred evaluates "<leaf> <op> <lit>" on container c holding leaf=v (or unset).
func c16Pred(m *meta.Module, leaf string, v val.Value, op string, lit interface{}) (bool, error, bool) {
	st := newMemStore()
	st.quiet = true
	c := st.root.ensureKid(st, "c")
	if v != nil {
		c.leaves[leaf] = v
	}
	sel, err := NewBrowser(m, st.node()).Root().Find("c")
	if err != nil || sel == nil {
		return false, err, false
	}
	var res bool
	p := vpCatch(func() {
		res, err = sel.XPredicate(&xpath.Path{Ident: leaf, Expr: &xpath.Operator{Oper: op, Lhs: lit}})
	})
	return res, err, p
}

func c16Signed(m *meta.Module, leaf string, v val.Value, x, lit int64) {
	op := c16Ops[vpChoose(len(c16Ops))]
	res, err, p := c16Pred(m, leaf, v, op, lit)
	vpAssert(!p, "no crash")
	vpAssert(err == nil, "comparison with an in-range literal evaluates")
	vpAssert(res == c16Math(op, c16Cmp64(x, lit)), leaf+" "+op+" literal holds exactly when it holds mathematically")
	vpCover("reached")
}

//vp:setup S_c16
func H_C16_cmp_int8(s any) {
	x, lit := vpInt8(), vpInt8()
	c16Signed(s.(*meta.Module), "i8", val.Int8(x), int64(x), int64(lit))
}

//vp:setup S_c16
func H_C16_cmp_uint8(s any) {
	x, lit := vpUint8(), vpUint8()
	c16Signed(s.(*meta.Module), "u8", val.UInt8(x), int64(x), int64(lit))
}

//vp:setup S_c16
func H_C16_cmp_int16(s any) {
	x, lit := vpInt16(), vpInt16()
	c16Signed(s.(*meta.Module), "i16", val.Int16(x), int64(x), int64(lit))
}

//vp:setup S_c16
func H_C16_cmp_uint16(s any) {
	x, lit := vpUint16(), vpUint16()
	c16Signed(s.(*meta.Module), "u16", val.UInt16(x), int64(x), int64(lit))
}

//vp:setup S_c16
func H_C16_cmp_int32(s any) {
	x, lit := vpInt32(), vpInt32()
	c16Signed(s.(*meta.Module), "i32", val.Int32(x), int64(x), int64(lit))
}

//vp:setup S_c16
func H_C16_cmp_uint32(s any) {
	x, lit := vpUint32(), vpUint32()
	c16Signed(s.(*meta.Module), "u32", val.UInt32(x), int64(x), int64(lit))
}

//vp:setup S_c16
func H_C16_cmp_int64(s any) {
	x, lit := vpInt64(), vpInt64()
	c16Signed(s.(*meta.Module), "i64", val.Int64(x), x, lit)
}

//vp:setup S_c16
func H_C16_cmp_uint64(s any) {
	m := s.(*meta.Module)
	x := vpUint64()
	lit := vpInt64() // XPath number literals are parsed as int64
	vpAssume(lit >= 0)
	op := c16Ops[vpChoose(len(c16Ops))]
	res, err, p := c16Pred(m, "u64", val.UInt64(x), op, lit)
	vpAssert(!p && err == nil, "evaluates")
	vpAssert(res == c16Math(op, c16CmpU64(x, uint64(lit))), "u64 "+op+" literal holds exactly when it holds mathematically")
	vpCover("reached")
}

//vp:setup S_c16
func H_C16_cmp_decimal64(s any) {
	m := s.(*meta.Module)
	x, lit := vpFloat64(), vpFloat64()
	vpAssume(x-x == 0 && lit-lit == 0) // finite: NaN and the infinities are not decimal64 values (C05-decimal64-nan)
	op := c16Ops[vpChoose(len(c16Ops))]
	res, err, p := c16Pred(m, "d", val.Decimal64(x), op, lit)
	vpAssert(!p && err == nil, "evaluates")
	c := 0
	if x < lit {
		c = -1
	} else if x > lit {
		c = 1
	}
	vpAssert(res == c16Math(op, c), "decimal64 "+op+" literal")
	vpCover("reached")
}

//vp:setup S_c16
func H_C16_cmp_string(s any) {
	m := s.(*meta.Module)
	x, lit := vpString(2), vpString(2)
	op := c16Ops[vpChoose(len(c16Ops))]
	res, err, p := c16Pred(m, "s", val.String(x), op, lit)
	vpAssert(!p && err == nil, "evaluates")
	c := 0
	if x < lit {
		c = -1
	} else if x > lit {
		c = 1
	}
	vpAssert(res == c16Math(op, c), "string "+op+" literal compares character-wise")
	vpCover("reached")
}

//vp:setup S_c16
func H_C16_cmp_bool_enum(s any) {
	m := s.(*meta.Module)
	b := vpBool()
	lit := "false"
	lb := vpBool()
	if lb {
		lit = "true"
	}
	op := c16Ops[vpChoose(2)] // = and != are what booleans support meaningfully
	res, err, p := c16Pred(m, "b", val.Bool(b), op, lit)
	vpAssert(!p && err == nil, "bool evaluates")
	vpAssert(res == ((op == "=") == (b == lb)), "boolean by truth value")
	names := []string{"a", "b", "c"}
	ei, li := vpChoose(3), vpChoose(3)
	op2 := c16Ops[vpChoose(len(c16Ops))]
	res2, err2, p2 := c16Pred(m, "e", val.Enum{Id: ei, Label: names[ei]}, op2, names[li])
	vpAssert(!p2 && err2 == nil, "enum evaluates")
	vpAssert(res2 == c16Math(op2, c16Cmp64(int64(ei), int64(li))), "enum by name / declared order")
	vpCover("reached")
}

// a leaf without a value: every comparison is false, never a crash
//
//vp:setup S_c16
func H_C16_operand_unset(s any) {
	m := s.(*meta.Module)
	leaves := []string{"i8", "u8", "i32", "u64", "d", "s", "b", "e"}
	lits := []interface{}{int64(1), int64(1), int64(1), int64(1), 1.5, "x", "true", "a"}
	i := vpChoose(len(leaves))
	op := c16Ops[vpChoose(len(c16Ops))]
	res, err, p := c16Pred(m, leaves[i], nil, op, lits[i])
	vpAssertK("C16-unset-operand-panics", true, !p, "unset operand: no crash")
	if !p {
		vpAssert(err == nil, "unset operand: no error")
		vpAssertK("C16-unset-operand-neq", op == "!=", !res, "a comparison with a leaf that has no value is false")
	}
	vpCover("reached")
}

// where keeps exactly the entries for which the expression holds
//
//vp:setup S_c16
func H_C16_where_rows(s any) {
	m := s.(*meta.Module)
	st := newMemStore()
	st.quiet = true
	l := st.root.ensureList(st, "l")
	n := 2 + vpTier()
	vals := make([]uint8, n)
	has := make([]bool, n)
	for i := 0; i < n; i++ {
		row := l.addRow(st, val.Int32(int32(i)))
		row.leaves["k"] = val.Int32(int32(i))
		has[i] = vpBool()
		if has[i] {
			vals[i] = vpUint8()
			row.leaves["n"] = val.UInt8(vals[i])
		}
	}
	lit := vpUint8()
	op := c16Ops[vpChoose(len(c16Ops))]
	sel, err := NewBrowser(m, st.node()).Root().Find("l")
	vpAssert(err == nil && sel != nil, "list found")
	c := NewConstraints(sel.Constraints)
	c.AddConstraint("where", 10, 50, &Where{xpathFilter: &xpath.Path{Ident: "n", Expr: &xpath.Operator{Oper: op, Lhs: int64(lit)}}})
	sel.Constraints = c
	out := newMemStore()
	out.quiet = true
	var rerr error
	p := vpCatch(func() { rerr = sel.UpsertInto(&memNode{s: out, l: out.root.ensureList(out, "l")}) })
	vpAssertK("C16-unset-operand-panics", true, !p, "no crash")
	if p {
		return
	}
	vpAssert(rerr == nil, "read succeeds")
	got := out.root.lists["l"]
	for i := 0; i < n; i++ {
		want := has[i] && c16Math(op, c16Cmp64(int64(vals[i]), int64(lit)))
		if !has[i] && op == "!=" {
			continue // covered by C16-unset-operand-neq
		}
		vpAssert((got.find(val.Int32(int32(i))) != nil) == want, "where keeps exactly the rows for which the expression holds")
	}
	vpCover("reached")
}

// when: false => invisible to reads and not written by edits; true => as if there were no when.
// (In this library a container's when is evaluated on the container, a leaf's on its parent.)
//
//vp:setup S_c16
func H_C16_when(s any) {
	m := s.(*meta.Module)
	mode, lvl, flag := vpInt32(), vpInt32(), vpInt32()
	hasLvl, hasFlag := vpBool(), vpBool()
	src := newMemStore()
	src.quiet = true
	w := src.root.ensureKid(src, "w")
	w.leaves["mode"] = val.Int32(mode)
	adv := w.ensureKid(src, "adv")
	adv.leaves["x"] = val.String("ax")
	if hasLvl {
		adv.leaves["lvl"] = val.Int32(lvl)
	}
	w.leaves["wl"] = val.String("wv")
	deep := w.ensureKid(src, "deep")
	deep.leaves["dz"] = val.String("dzv")
	if hasFlag {
		deep.ensureKid(src, "sub").leaves["flag"] = val.Int32(flag)
	}
	w.ensureKid(src, "plain").leaves["y"] = val.String("py")
	out := newMemStore()
	out.quiet = true
	var err error
	p := vpCatch(func() { err = NewBrowser(m, src.node()).Root().UpsertInto(out.node()) })
	vpAssert(!p, "no crash")
	vpAssert(err == nil, "read succeeds")
	ow := out.root.kids["w"]
	vpAssert(ow != nil && ow.kids["plain"] != nil && ow.kids["plain"].leaves["y"] != nil, "nodes without when are unaffected")
	_, gotAdv := ow.kids["adv"]
	_, gotWl := ow.leaves["wl"]
	_, gotDeep := ow.kids["deep"]
	vpAssert(gotAdv == (hasLvl && lvl > 5), "container with when \"lvl>5\" is visible exactly when it holds (false when lvl is unset)")
	vpAssert(gotWl == (mode == 3), "leaf with when \"mode=3\" is visible exactly when it holds")
	vpAssert(gotDeep == (hasFlag && flag != 0), "container with when \"sub/flag!=0\" follows the path")
	if gotAdv {
		vpAssert(treeEq(ow.kids["adv"], adv), "a node whose when is true behaves as if it had no when")
	}
	if gotDeep {
		vpAssert(treeEq(ow.kids["deep"], deep), "a node whose when is true behaves as if it had no when (nested)")
	}
	vpCover("reached")
}

// edits: a leaf whose when is false for the target's data is not written
//
//vp:setup S_c16
func H_C16_when_write(s any) {
	m := s.(*meta.Module)
	mode := vpInt32()
	dst := newMemStore()
	dst.quiet = true
	dst.root.ensureKid(dst, "w").leaves["mode"] = val.Int32(mode)
	src := newMemStore()
	src.quiet = true
	w := src.root.ensureKid(src, "w")
	w.leaves["wl"] = val.String("wv")
	w.leaves["mode"] = val.Int32(mode)
	err := NewBrowser(m, dst.node()).Root().UpsertFrom(src.node())
	vpAssert(err == nil, "edit succeeds")
	_, hasWl := dst.root.kids["w"].leaves["wl"]
	vpAssert(hasWl == (mode == 3), "a leaf whose when is false is not written by an edit")
	vpCover("reached")
}

// notification filter keeps exactly the events for which the expression holds
//
//vp:setup S_c16
func H_C16_filter_events(s any) {
	m := s.(*meta.Module)
	sev, lit := vpInt32(), vpInt32()
	op := c16Ops[vpChoose(len(c16Ops))]
	c := &Constraints{}
	c.AddConstraint("filter", 10, 50, xpathFilter{p: &xpath.Path{Ident: "sev", Expr: &xpath.Operator{Oper: op, Lhs: int64(lit)}}})
	delivered := 0
	stream := checkStreamConstraints(c, func(n Notification) { delivered++ })
	ev := newMemStore()
	ev.quiet = true
	ev.root.leaves["sev"] = val.Int32(sev)
	evMeta := m.Notifications()["ev"]
	b := NewBrowser(m, ev.node())
	msg := &Selection{Browser: b, Path: &Path{Parent: &Path{Meta: m}, Meta: evMeta}, Node: ev.node(), Constraints: &Constraints{}}
	stream(Notification{Event: msg})
	vpAssert((delivered == 1) == c16Math(op, c16Cmp64(int64(sev), int64(lit))), "the filter delivers exactly the events for which the expression holds")
	vpCover("reached")
}

// the same through the text route: ?where=<xpath text> parsed by the real xpath lexer/parser
//
//vp:setup S_c16
func H_C16_where_text(s any) {
	m := s.(*meta.Module)
	st := newMemStore()
	st.quiet = true
	l := st.root.ensureList(st, "l")
	vals := [2]uint8{vpUint8(), vpUint8()}
	for i := 0; i < 2; i++ {
		row := l.addRow(st, val.Int32(int32(i)))
		row.leaves["k"] = val.Int32(int32(i))
		row.leaves["n"] = val.UInt8(vals[i])
	}
	lits := []int64{0, 5, 128, 255}
	lit := lits[vpChoose(len(lits))]
	ops := []string{"=", "!=", "<", "<=", ">", ">="}
	enc := []string{"%3D", "!%3D", "%3C", "%3C%3D", "%3E", "%3E%3D"}
	oi := vpChoose(len(ops))
	q := "l?where=n" + enc[oi] + val.Int64(lit).String()
	sel, err := NewBrowser(m, st.node()).Root().Find(q)
	vpAssert(err == nil && sel != nil, "where expression is accepted: "+q)
	out := newMemStore()
	out.quiet = true
	vpAssert(sel.UpsertInto(&memNode{s: out, l: out.root.ensureList(out, "l")}) == nil, "read succeeds")
	for i := 0; i < 2; i++ {
		want := c16Math(ops[oi], c16Cmp64(int64(vals[i]), lit))
		vpAssert((out.root.lists["l"].find(val.Int32(int32(i))) != nil) == want, "?where keeps exactly the matching rows")
	}
	vpCover("reached")
}

// two compiled schemas with the same module name and node paths but different expressions, used one after
// the other in either order: each is evaluated with its own expression (no process-wide memory of an earlier schema)
const c16YangB = `module m { namespace "urn:m"; prefix m; revision 2021-01-01;
	container w {
		leaf mode { type int32; }
		container adv { when "lvl<=5"; leaf lvl { type int32; } leaf x { type string; } }
		leaf wl { when "mode<3"; type string; }
	}
	list l { key "k"; leaf k { type int32; } leaf n { type uint8; } }
}`

func S_c16two() any {
	a, err := parser.LoadModuleFromString(nil, c16Yang)
	if err != nil {
		panic(err)
	}
	b, err := parser.LoadModuleFromString(nil, c16YangB)
	if err != nil {
		panic(err)
	}
	return []*meta.Module{a, b}
}

//vp:setup S_c16two
func H_C16_when_two_schemas(s any) {
	ms := s.([]*meta.Module)
	mode, lvl := vpInt32(), vpInt32()
	first := 0
	if vpBool() {
		first = 1
	}
	rounds := 2 + vpChoose(2) // A B / B A / A B A / B A B
	for i := 0; i < rounds; i++ {
		which := (first + i) % 2
		src := newMemStore()
		src.quiet = true
		w := src.root.ensureKid(src, "w")
		w.leaves["mode"] = val.Int32(mode)
		w.leaves["wl"] = val.String("wv")
		adv := w.ensureKid(src, "adv")
		adv.leaves["lvl"] = val.Int32(lvl)
		adv.leaves["x"] = val.String("ax")
		out := newMemStore()
		out.quiet = true
		err := NewBrowser(ms[which], src.node()).Root().UpsertInto(out.node())
		vpAssert(err == nil, "read succeeds")
		ow := out.root.kids["w"]
		vpAssert(ow != nil, "w is read")
		_, gotAdv := ow.kids["adv"]
		_, gotWl := ow.leaves["wl"]
		if which == 0 {
			vpAssert(gotAdv == (lvl > 5) && gotWl == (mode == 3), "schema A is evaluated with its own when expressions whatever was evaluated before")
		} else {
			vpAssert(gotAdv == (lvl <= 5) && gotWl == (mode < 3), "schema B is evaluated with its own when expressions whatever was evaluated before")
		}
		// where / filter expressions are per request as well
		rows := newMemStore()
		rows.quiet = true
		l := rows.root.ensureList(rows, "l")
		r := l.addRow(rows, val.Int32(1))
		r.leaves["k"] = val.Int32(1)
		r.leaves["n"] = val.UInt8(uint8(10 + which))
		sel, ferr := NewBrowser(ms[which], rows.node()).Root().Find("l?where=n%3D10")
		vpAssert(ferr == nil && sel != nil, "find with where succeeds")
		got := newMemStore()
		got.quiet = true
		vpAssert(sel.UpsertInto(&memNode{s: got, l: got.root.ensureList(got, "l")}) == nil, "read list")
		vpAssert((len(got.root.lists["l"].rows) == 1) == (which == 0), "where=n=10 keeps the entry exactly when n is 10")
	}
	vpCover("reached")
}
