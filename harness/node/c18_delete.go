package node

import (
	"github.com/freeconf/yang/meta"
	"github.com/freeconf/yang/val"
)

// C18 (library layer): Delete / ReplaceFrom remove exactly the addressed
// subtree; list keys stay unique over sequences of keyed operations. The
// store is the reference memNode; the slice/map/struct reflection stores are
// outside the claim.

func c18Key(i int32) val.Value { return val.Int32(i) }

// c18Store builds: a{x,n,b{w}}, top, l[k1,k2 rows with v and lc{u}]
func c18Store(st *memStore, k1, k2 int32) {
	r := st.root
	r.leaves["top"] = val.Int32(vpInt32())
	a := r.ensureKid(st, "a")
	a.leaves["x"] = val.String(vpStringN(1))
	a.leaves["n"] = val.Int32(vpInt32())
	a.ensureKid(st, "b").leaves["w"] = val.String(vpStringN(1))
	l := r.ensureList(st, "l")
	for _, k := range []int32{k1, k2} {
		row := l.addRow(st, c18Key(k))
		row.leaves["k"] = c18Key(k)
		row.leaves["v"] = val.String(vpStringN(1))
		row.ensureKid(st, "lc").leaves["u"] = val.Int32(vpInt32())
	}
}

//vp:setup S_c03
func H_C18_delete(s any) {
	m := s.(*meta.Module)
	k1, k2 := int32(vpUint8()), int32(vpUint8()) // small keys: their decimal text goes through the real strconv
	vpAssume(k1 != k2)
	dst, ref := newMemStore(), newMemStore()
	c18Store(dst, k1, k2)
	dst.quiet = true
	ref.root = c03Clone(ref, dst.root)
	b := NewBrowser(m, dst.node())
	root := b.Root()
	what := vpChoose(5)
	var sel *Selection
	var err error
	switch what {
	case 0: // container a
		sel, err = root.Find("a")
		delete(ref.root.kids, "a")
	case 1: // nested container a/b
		sel, err = root.Find("a/b")
		delete(ref.root.kids["a"].kids, "b")
	case 2: // whole list
		sel, err = root.Find("l")
		delete(ref.root.lists, "l")
	case 3: // list entry by (symbolic) key
		look := k1
		if vpBool() {
			look = k2
		}
		sel, err = root.Find("l=" + val.Int32(look).String())
		rows := ref.root.lists["l"].rows
		var keep []*memRow
		for _, r := range rows {
			if !val.EqualVals(r.key, []val.Value{c18Key(look)}) {
				keep = append(keep, r)
			}
		}
		ref.root.lists["l"].rows = keep
	case 4: // container below an entry
		sel, err = root.Find("l=" + val.Int32(k2).String() + "/lc")
		delete(ref.root.lists["l"].find(c18Key(k2)).kids, "lc")
	}
	vpAssert(err == nil && sel != nil, "addressed node is found")
	vpAssert(sel.Delete() == nil, "delete succeeds")
	vpAssert(treeEq(dst.root, ref.root), "exactly the addressed subtree is removed; siblings, other entries and ancestors keep their data")
	// a following Find no longer sees it
	switch what {
	case 0:
		again, err2 := b.Root().Find("a")
		vpAssert(err2 == nil && again == nil, "deleted container is no longer found")
	case 2:
		again, err2 := b.Root().Find("l")
		vpAssert(err2 == nil && again == nil, "deleted list is no longer found")
	}
	vpCover("reached")
}

//vp:setup S_c03
func H_C18_replace(s any) {
	m := s.(*meta.Module)
	k1, k2 := int32(vpUint8()), int32(vpUint8())
	vpAssume(k1 != k2)
	dst := newMemStore()
	c18Store(dst, k1, k2)
	dst.quiet = true
	src := newMemStore()
	src.quiet = true
	b := NewBrowser(m, dst.node())
	what := vpChoose(2)
	switch what {
	case 0: // replace container a with {n} only: x and b must not survive
		sa := src.root.ensureKid(src, "a")
		sa.leaves["n"] = val.Int32(vpInt32())
		sel, err := b.Root().Find("a")
		vpAssert(err == nil && sel != nil, "found")
		vpAssert(sel.ReplaceFrom(src.node()) == nil, "replace succeeds")
		got := dst.root.kids["a"]
		vpAssert(got != nil, "container exists after replace")
		_, hasB := got.kids["b"]
		vpAssert(!hasB, "nothing of the old content survives (nested container)")
		vpAssert(got.leaves["n"] == sa.leaves["n"], "supplied leaf present")
		// x has a default "dx": a created container gets defaults, but not the OLD value
		old := dst.root // silence
		_ = old
		xv, hasX := got.leaves["x"]
		vpAssert(!hasX || xv == val.Value(val.String("dx")), "old leaf value does not survive (only the schema default may appear)")
	case 1: // replace list entry k1 with an entry that has no lc
		row := src.root.ensureList(src, "l").addRow(src, c18Key(k1))
		row.leaves["k"] = c18Key(k1)
		sel, err := b.Root().Find("l=" + val.Int32(k1).String())
		vpAssert(err == nil && sel != nil, "found")
		// the replacement is inserted at the parent (the list), so the source is a list-level node
		vpAssert(sel.ReplaceFrom(&memNode{s: src, l: src.root.lists["l"]}) == nil, "replace succeeds")
		l := dst.root.lists["l"]
		n := 0
		for _, r := range l.rows {
			if val.EqualVals(r.key, []val.Value{c18Key(k1)}) {
				n++
				_, hasLc := r.t.kids["lc"]
				vpAssert(!hasLc, "nothing of the old entry survives")
			}
		}
		vpAssert(n == 1, "exactly one entry with the replaced key")
		vpAssert(len(l.rows) == 2 && l.find(c18Key(k2)) != nil, "the other entry keeps its data")
	}
	vpCover("reached")
}

// sequences of keyed operations: no two entries with equal keys, each entry found under its key
//
//vp:setup S_c03
func H_C18_keys_unique_seq(s any) {
	m := s.(*meta.Module)
	dst := newMemStore()
	dst.quiet = true
	dst.root.ensureList(dst, "l")
	b := NewBrowser(m, dst.node())
	steps := 2 + vpTier()
	for i := 0; i < steps; i++ {
		k := int32(vpUint8())
		op := vpChoose(4)
		src := newMemStore()
		src.quiet = true
		row := src.root.ensureList(src, "l").addRow(src, c18Key(k))
		row.leaves["k"] = c18Key(k)
		row.leaves["v"] = val.String(vpStringN(1))
		switch op {
		case 0:
			b.Root().UpsertFrom(src.node())
		case 1:
			lsel, _ := b.Root().Find("l")
			if lsel != nil {
				lsel.InsertFrom(&memNode{s: src, l: src.root.lists["l"]})
			}
		case 2:
			sel, err := b.Root().Find("l=" + val.Int32(k).String())
			vpAssert(err == nil, "find by key does not fail")
			if sel != nil {
				vpAssert(sel.Delete() == nil, "delete succeeds")
			}
		case 3: // a different key leaf written through an addressed entry (hunt C18 finding 5): refused, or the list stays consistent
			k2 := int32(vpUint8())
			sel, err := b.Root().Find("l=" + val.Int32(k2).String())
			vpAssert(err == nil, "find by key does not fail")
			if sel != nil {
				sel.UpsertFrom(&memNode{s: src, t: row})
			}
		}
		l := dst.root.lists["l"]
		if l == nil {
			continue
		}
		if op == 3 {
			for x := 0; x < len(l.rows); x++ {
				for y := x + 1; y < len(l.rows); y++ {
					vpAssert(!val.EqualVals(l.rows[x].key, l.rows[y].key), "no two entries with equal keys")
				}
				kv := l.rows[x].t.leaves["k"]
				vpAssertK("C18-key-leaf-changed-through-entry", true, kv != nil && val.Equal(kv, l.rows[x].key[0]), "each entry sits under the key its key leaf holds (also after a key leaf was written through the entry)")
			}
			continue
		}
		for x := 0; x < len(l.rows); x++ {
			for y := x + 1; y < len(l.rows); y++ {
				vpAssert(!val.EqualVals(l.rows[x].key, l.rows[y].key), "no two entries with equal keys")
			}
			kv := l.rows[x].t.leaves["k"]
			vpAssert(kv != nil && val.Equal(kv, l.rows[x].key[0]), "each entry sits under the key its key leaf holds")
		}
		if op == 2 {
			vpAssert(l.find(c18Key(k)) == nil, "deleted key is gone")
		} else {
			vpAssert(l.find(c18Key(k)) != nil, "written key is present")
		}
	}
	vpCover("reached")
}
