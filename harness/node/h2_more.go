package node

import (
	"strings"

	"github.com/freeconf/yang/meta"
	"github.com/freeconf/yang/parser"
	"github.com/freeconf/yang/val"
)

// Cases taken from the second wave of hunts (hunted/C12, C16, C08, C07, C03), generalised where cheap.

const h2Yang = `module m { namespace "urn:m"; prefix m; revision 0;
	container top {
		leaf a { type string; }
		list l { key "k"; leaf k { type string; } leaf v { type string; } }
		list two { key "x y"; leaf x { type int32; } leaf y { type int32; } leaf v { type string; } }
		container other { leaf o { type string; } }
		choice ch { case c1 { leaf c1l { type string; } } case c2 { leaf c2l { type string; } } }
	}
	leaf y { when "z='a'"; type int32; }
	leaf z { when "w='b'"; type string; }
	leaf w { type string; }
	leaf n { type int32; }
	leaf guarded { when "n>5"; type string; }
	container c { leaf a { type string; } leaf d { type int32; default 7; } container in { leaf e { type string; default "dv"; } } }
}`

func S_h2() any {
	m, err := parser.LoadModuleFromString(nil, h2Yang)
	if err != nil {
		panic(err)
	}
	return m
}

func h2Store(st *memStore) {
	top := st.root.ensureKid(st, "top")
	top.leaves["a"] = val.String("A")
	l := top.ensureList(st, "l")
	for _, k := range []string{"a", "b"} {
		r := l.addRow(st, val.String(k))
		r.leaves["k"] = val.String(k)
		r.leaves["v"] = val.String("v" + k)
	}
	e := top.ensureList(st, "two").addRow(st, val.Int32(1), val.Int32(2))
	e.leaves["x"] = val.Int32(1)
	e.leaves["y"] = val.Int32(2)
	top.ensureKid(st, "other").leaves["o"] = val.String("O")
	top.leaves["c1l"] = val.String("C1")
}

// C12: Delete / ReplaceFrom at the root and at a leaf, Insert into a node that refuses to create a child
//
//vp:setup S_h2
func H_C12_delete_entry_points(s any) {
	m := s.(*meta.Module)
	st := newMemStore()
	h2Store(st)
	b := NewBrowser(m, st.node())
	paths := []string{"", "top/a", "top/l=a/v", "top", "top/l=a", "top/l", "top/other"}
	froms := []string{"", "top", "top/l=a", "", "top/l", "top", "top"} // ReplaceFrom takes the node one level up: it deletes, then inserts from there
	i := vpChoose(len(paths))
	replace := vpBool()
	var err error
	p := vpCatch(func() {
		sel := b.Root()
		if paths[i] != "" {
			var ferr error
			sel, ferr = sel.Find(paths[i])
			if ferr != nil || sel == nil {
				return
			}
		}
		if replace {
			src := newMemStore()
			src.quiet = true
			h2Store(src)
			from := NewBrowser(m, src.node()).Root()
			if froms[i] != "" {
				from, _ = from.Find(froms[i])
			}
			err = sel.ReplaceFrom(from.Node)
		} else {
			err = sel.Delete()
		}
	})
	what := "Delete"
	if replace {
		what = "ReplaceFrom"
	}
	name := paths[i]
	if name == "" {
		name = "the root"
	}
	vpAssertK("C12-delete-at-root-or-leaf", i <= 2, !p, what+" on "+name+" returns a result or an error, never a panic")
	// begin / end stay paired whatever happened
	vpAssertK("C12-delete-at-root-or-leaf", i <= 2, st.beginsMinusEnds() == 0, what+" on "+name+": every begin has its end")
	_ = err
	vpCover("reached")
}

// C16: a leaf with a when of its own can be read, compared in another leaf's when, and written
//
//vp:setup S_h2
func H_C16_when_on_compared_leaf(s any) {
	m := s.(*meta.Module)
	st := newMemStore()
	st.quiet = true
	wv := []string{"b", "x"}[vpChoose(2)]
	zv := []string{"a", "q"}[vpChoose(2)]
	st.root.leaves["w"] = val.String(wv)
	st.root.leaves["z"] = val.String(zv)
	st.root.leaves["y"] = val.Int32(1)
	b := NewBrowser(m, st.node())
	var v val.Value
	var err error
	p := vpCatch(func() { v, err = b.Root().GetValue("z") })
	vpAssertK("C16-when-on-leaf-panics", true, !p, "reading a leaf that has a when of its own does not panic")
	if !p && err == nil {
		vpAssert((v != nil) == (wv == "b"), "a leaf whose when is false reads as absent")
	}
	out := newMemStore()
	out.quiet = true
	p2 := vpCatch(func() { err = b.Root().UpsertInto(out.node()) })
	vpAssertK("C16-when-on-leaf-panics", true, !p2 && err == nil, "exporting a tree in which the leaf compared by a when has a when of its own succeeds")
	if !p2 && err == nil {
		_, hasZ := out.root.leaves["z"]
		_, hasY := out.root.leaves["y"]
		vpAssert(hasZ == (wv == "b"), "z is visible exactly when its own when holds")
		vpAssert(hasY == (wv == "b" && zv == "a"), "y is visible exactly when z is visible and equals 'a'")
	}
	vpCover("reached")
}

// C08: key values that do not fit the list, qualifiers and choice names below the top level, path equality
//
//vp:setup S_h2
func H_C08_find_strictness(s any) {
	m := s.(*meta.Module)
	st := newMemStore()
	h2Store(st)
	b := NewBrowser(m, st.node())
	type kase struct {
		path  string
		found bool // a selection is expected
		id    string
	}
	cases := []kase{
		{"top/l=a", true, "ok"}, {"top/l=a,zzz", false, "surplus-key-values"}, {"top/two=1,2", true, "ok"}, {"top/two=1,2,3", false, "surplus-key-values"},
		{"top/m:a", true, "ok"}, {"top/bogus:a", false, "unknown-qualifier"}, {"top/bogus:l=a", false, "unknown-qualifier"}, {"top/nosuch:other/o", false, "unknown-qualifier"},
		{"top/ch", false, "choice-as-step"}, {"top/ch/c1l", false, "choice-as-step"}, {"top/c1l", true, "ok"},
		{"top//l", false, "empty-segment"}, {"top/l=a/..%2Fa", false, "encoded-slash-in-ident"},
	}
	c := cases[vpChoose(len(cases))]
	var sel *Selection
	var err error
	p := vpCatch(func() { sel, err = b.Root().Find(c.path) })
	vpAssert(!p, "Find("+c.path+") does not panic")
	vpAssertK("C08-"+c.id, true, (sel != nil && err == nil) == c.found, "Find("+c.path+") finds a node exactly when the path names one")
	vpAssert(st.writes() == 0, "navigation never modifies data")
	vpCover("reached")
}

//vp:setup S_h2
func H_C08_path_equal(s any) {
	m := s.(*meta.Module)
	st := newMemStore()
	h2Store(st)
	b := NewBrowser(m, st.node())
	paths := []string{"top/other", "top/l", "top/l=a", "top/l=b", "top/two=1,2", "top", "top/a"}
	i, j := vpChoose(len(paths)), vpChoose(len(paths))
	a, _ := b.Root().Find(paths[i])
	c, _ := b.Root().Find(paths[j])
	vpAssert(a != nil && c != nil, "found")
	vpAssertK("C08-path-equal", true, a.Path.Equal(c.Path) == (i == j), "Path.Equal is true exactly for the same location: "+paths[i]+" / "+paths[j])
	sameNoKey := i == j || (i >= 1 && i <= 3 && j >= 1 && j <= 3)
	vpAssertK("C08-path-equal", true, a.Path.EqualNoKey(c.Path) == sameNoKey, "Path.EqualNoKey is true exactly for the same schema location: "+paths[i]+" / "+paths[j])
	// a leaf found from a non-root start renders its full path
	from, _ := b.Root().Find("top/l=a")
	leaf, ferr := from.Find("v")
	vpAssert(ferr == nil && leaf != nil, "leaf found from a list entry")
	vpAssertK("C08-leaf-path-truncated", true, leaf.Path.StringNoModule() == "top/l=a/v", "the path of a leaf found from a non-root selection names its ancestors and keys")
	vpCover("reached")
}

// C07: fc.range windows
//
//vp:setup S_h2
func H_C07_range_windows(s any) {
	m := s.(*meta.Module)
	st := newMemStore()
	st.quiet = true
	l := st.root.ensureKid(st, "top").ensureList(st, "l")
	for _, k := range []string{"r0", "r1", "r2", "r3"} {
		r := l.addRow(st, val.String(k))
		r.leaves["k"] = val.String(k)
	}
	lo, hi := vpChoose(5), vpChoose(5)
	q := "top?fc.range=l!" + string(rune('0'+lo)) + "-" + string(rune('0'+hi))
	sel, err := NewBrowser(m, st.node()).Root().Find(q)
	if err != nil || sel == nil {
		vpCover("reached")
		return // an error for an inverted window is fine
	}
	out := newMemStore()
	out.quiet = true
	rerr := sel.UpsertInto(&memNode{s: out, t: out.newTreeAsRoot()})
	if rerr != nil {
		vpCover("reached")
		return
	}
	got := 0
	if gl := out.root.lists["l"]; gl != nil {
		got = len(gl.rows)
	}
	want := 0
	for r := 0; r < 4; r++ {
		if r >= lo && r < hi { // the end row is exclusive
			want++
		}
	}
	vpAssertK("C07-inverted-range-window", lo >= hi, got == want, "fc.range=l!lo-hi returns exactly the rows lo..hi-1 (none when the window is empty or inverted)")
	vpCover("reached")
}

// C03: the SetDefaults variants add defaults to created nodes only; what the target already holds and the source
// does not mention stays
//
//vp:setup S_h2
func H_C03_setdefaults_keeps_existing(s any) {
	m := s.(*meta.Module)
	dst := newMemStore()
	dst.quiet = true
	c := dst.root.ensureKid(dst, "c")
	c.leaves["a"] = val.String("A")
	d := vpInt32()
	c.leaves["d"] = val.Int32(d)
	hasIn := vpBool()
	if hasIn {
		c.ensureKid(dst, "in").leaves["e"] = val.String("mine")
	}
	src := newMemStore()
	src.quiet = true
	src.root.ensureKid(src, "c").leaves["a"] = val.String("B")
	into := vpBool()
	var err error
	if into {
		err = NewBrowser(m, src.node()).Root().UpsertIntoSetDefaults(dst.node())
	} else {
		err = NewBrowser(m, dst.node()).Root().UpsertFromSetDefaults(src.node())
	}
	vpAssert(err == nil, "edit succeeds")
	gc := dst.root.kids["c"]
	vpAssert(gc.leaves["a"].String() == "B", "the mentioned leaf is written")
	vpAssertK("C03-setdefaults-overwrites", true, gc.leaves["d"] != nil && gc.leaves["d"].(val.Int32) == val.Int32(d), "a leaf the source does not mention keeps its value (defaults go into created nodes only)")
	if hasIn {
		vpAssertK("C03-setdefaults-overwrites", true, gc.kids["in"].leaves["e"].String() == "mine", "an existing nested container keeps its values")
	}
	vpCover("reached")
}

// C02: an identityref with two bases accepts only identities derived from both
func H_C02_identityref_two_bases() {
	m, err := parser.LoadModuleFromString(nil, `module m { namespace "urn:m"; prefix p; yang-version 1.1; identity b1; identity b2; identity only1 { base b1; } identity only2 { base b2; }
		identity both { base b1; base b2; } identity deep { base both; } leaf i { type identityref { base b1; base b2; } } leaf j { type identityref { base b1; } } }`)
	vpAssert(err == nil, "module loads")
	names := []string{"both", "deep", "only1", "only2", "b1", "b2", "nosuch"}
	want := []bool{true, true, false, false, false, false, false}
	k := vpChoose(len(names))
	_, e := NewValue(meta.Find(m, "i").(*meta.Leaf).Type(), names[k])
	vpAssertK("C02-h2-identityref-with-two-bases", true, (e == nil) == want[k], "identityref { base b1; base b2; } accepts '"+names[k]+"' exactly when it is derived from both bases")
	_, e1 := NewValue(meta.Find(m, "j").(*meta.Leaf).Type(), names[k])
	if k != 4 { // whether the base itself counts as "derived from" the base is left open here (the library accepts it)
		vpAssert((e1 == nil) == (k <= 2), "identityref { base b1; } accepts exactly the identities derived from b1")
	}
	vpCover("reached")
}

// C16: paths of three steps, conditions that refer to data written later in the same edit or inside the node itself,
// literals outside the operand's type
var h2WhenBodies = []string{
	`container a { container b { container c2 { leaf z { type int32; } } } } leaf g3 { when "a/b/c2/z>10"; type string; }`,
	`leaf y2 { when "z2>10"; type int32; } leaf z2 { type int32; }`,
	`container cw { when "zz>10"; leaf zz { type int32; } leaf q { type string; } }`,
	`leaf u8 { type uint8; } leaf lit1 { when "u8<300"; type string; }`,
	`leaf u64 { type uint64; } leaf lit2 { when "u64<18446744073709551615"; type string; }`,
	`leaf i32 { type int32; } leaf lit3 { when "i32>-1"; type string; }`,
	`leaf i32 { type int32; } leaf lit4 { when "i32<1.5"; type string; }`,
}

func S_h2when() any {
	var ms []*meta.Module
	for _, body := range h2WhenBodies {
		m, err := parser.LoadModuleFromString(nil, `module m { namespace "urn:m"; prefix m; revision 0; `+body+` }`)
		if err != nil {
			panic(err)
		}
		ms = append(ms, m)
	}
	return ms
}

//vp:setup S_h2when
func H_C16_when_more(s any) {
	src := newMemStore()
	src.quiet = true
	kind := vpChoose(7)
	m := s.([]*meta.Module)[kind]
	id := []string{"three-step-path", "condition-on-a-later-sibling", "condition-on-own-content", "literal-above-uint8", "literal-above-int64", "negative-literal", "fractional-literal"}[kind]
	want := ""
	switch kind {
	case 0:
		z := vpInt32()
		src.root.ensureKid(src, "a").ensureKid(src, "b").ensureKid(src, "c2").leaves["z"] = val.Int32(z)
		src.root.leaves["g3"] = val.String("g")
		if z > 10 {
			want = "g3"
		}
	case 1:
		z := vpInt32()
		src.root.leaves["y2"] = val.Int32(100)
		src.root.leaves["z2"] = val.Int32(z)
		if z > 10 {
			want = "y2"
		}
	case 2:
		z := vpInt32()
		cw := src.root.ensureKid(src, "cw")
		cw.leaves["zz"] = val.Int32(z)
		cw.leaves["q"] = val.String("x")
		if z > 10 {
			want = "cw"
		}
	case 3:
		src.root.leaves["u8"] = val.UInt8(vpUint8())
		src.root.leaves["lit1"] = val.String("l")
		want = "lit1" // every uint8 is below 300
	case 4:
		u := vpUint64()
		src.root.leaves["u64"] = val.UInt64(u)
		src.root.leaves["lit2"] = val.String("l")
		if u < 18446744073709551615 {
			want = "lit2"
		}
	case 5:
		i := vpInt32()
		src.root.leaves["i32"] = val.Int32(i)
		src.root.leaves["lit3"] = val.String("l")
		if i > -1 {
			want = "lit3"
		}
	case 6:
		i := vpInt32()
		src.root.leaves["i32"] = val.Int32(i)
		src.root.leaves["lit4"] = val.String("l")
		if i < 2 {
			want = "lit4"
		}
	}
	guarded := []string{"g3", "y2", "cw", "lit1", "lit2", "lit3", "lit4"}[kind]
	// read: export into a fresh store
	out := newMemStore()
	out.quiet = true
	var err error
	p := vpCatch(func() { err = NewBrowser(m, src.node()).Root().UpsertInto(out.node()) })
	vpAssertK("C16-h2-"+id, true, !p && err == nil, id+": reading a tree with this when succeeds")
	if !p && err == nil {
		_, asLeaf := out.root.leaves[guarded]
		_, asKid := out.root.kids[guarded]
		vpAssertK("C16-h2-"+id, true, (asLeaf || asKid) == (want != ""), id+": the node is visible exactly when its condition holds")
	}
	// edit: the same data upserted into an empty target
	dst := newMemStore()
	dst.quiet = true
	p2 := vpCatch(func() { err = NewBrowser(m, dst.node()).Root().UpsertFrom(src.node()) })
	vpAssertK("C16-h2-"+id, true, !p2 && err == nil, id+": an edit that carries the data the condition refers to succeeds")
	if !p2 && err == nil {
		_, asLeaf := dst.root.leaves[guarded]
		_, asKid := dst.root.kids[guarded]
		vpAssertK("C16-h2-"+id, true, (asLeaf || asKid) == (want != ""), id+": the node is written exactly when its condition holds for the data of the edit")
	}
	vpCover("reached")
}

// C07: parameters that are dropped or leak into other places
const h2QueryYang = `module m { namespace "urn:m"; prefix m; revision 0;
	container a { leaf a1 { type string; } leaf a2 { type string; } }
	leaf l1 { type string; } leaf l2 { type string; }
	list li { key k; leaf k { type string; } list sub { key s; leaf s { type string; } } }
	container p1 { leaf x { type string; } } container p2 { leaf x { type string; } } container p3 { leaf x { type string; } }
	leaf zc { type int32; default 5; }
	leaf yc { when "zc>1"; type string; }
}`

func S_h2query() any {
	m, err := parser.LoadModuleFromString(nil, h2QueryYang)
	if err != nil {
		panic(err)
	}
	return m
}

//vp:setup S_h2query
func H_C07_more_parameters(s any) {
	m := s.(*meta.Module)
	st := newMemStore()
	st.quiet = true
	a := st.root.ensureKid(st, "a")
	a.leaves["a1"] = val.String("1")
	a.leaves["a2"] = val.String("2")
	st.root.leaves["l1"] = val.String("L1")
	st.root.leaves["l2"] = val.String("L2")
	li := st.root.ensureList(st, "li")
	for _, k := range []string{"r0", "r1", "r2", "r3"} {
		row := li.addRow(st, val.String(k))
		row.leaves["k"] = val.String(k)
		sub := row.ensureList(st, "sub")
		for _, sk := range []string{"s0", "s1", "s2"} {
			sub.addRow(st, val.String(sk)).leaves["s"] = val.String(sk)
		}
	}
	st.root.ensureKid(st, "p1").leaves["x"] = val.String("x")
	st.root.leaves["yc"] = val.String("Y")
	read := func(q string) (*memStore, error) {
		sel, err := NewBrowser(m, st.node()).Root().Find(q)
		if err != nil || sel == nil {
			return nil, err
		}
		out := newMemStore()
		out.quiet = true
		return out, sel.UpsertInto(out.node())
	}
	kind := vpChoose(6)
	id := []string{"semicolon-in-fields", "range-leaks-into-nested-list", "max-node-count-not-reset", "max-node-count-counts-absent", "when-through-fields", "when-through-trim"}[kind]
	switch kind {
	case 0:
		out, err := read("?fields=l1;a/a1")
		vpAssert(err == nil && out != nil, "read succeeds or fails, here it succeeds")
		_, hasL2 := out.root.leaves["l2"]
		vpAssertK("C07-h2-"+id, true, !hasL2 && out.root.leaves["l1"] != nil, "fields=l1;a/a1 (the form the documentation shows) selects l1 and a/a1 only")
	case 1:
		out, err := read("?fc.range=li!1-3")
		vpAssert(err == nil && out != nil, "read succeeds")
		rows := out.root.lists["li"].rows
		vpAssert(len(rows) == 2, "the window applies to li")
		vpAssertK("C07-h2-"+id, true, rows[0].t.lists["sub"] != nil && len(rows[0].t.lists["sub"].rows) == 3, "a window on li leaves the lists below li alone")
	case 2:
		// the smallest limit under which one read passes
		limit := 0
		for n := 1; n <= 40 && limit == 0; n++ {
			if _, e := read("?fc.max-node-count=" + string(rune('0'+n/10)) + string(rune('0'+n%10))); e == nil {
				limit = n
			}
		}
		vpAssert(limit > 0, "some limit admits the tree")
		sel, err := NewBrowser(m, st.node()).Root().Find("?fc.max-node-count=" + string(rune('0'+limit/10)) + string(rune('0'+limit%10)))
		vpAssert(err == nil && sel != nil, "constrained selection")
		o1, o2 := newMemStore(), newMemStore()
		o1.quiet, o2.quiet = true, true
		e1 := sel.UpsertInto(o1.node())
		e2 := sel.UpsertInto(o2.node())
		vpAssert(e1 == nil, "the first read is within the limit")
		vpAssertK("C07-h2-"+id, true, e2 == nil, "reading the same constrained selection again gives the same answer")
	case 3:
		out, err := read("?fc.max-node-count=3") // a, p1 exist; p2, p3 do not; list entries are not containers
		_ = out
		vpAssertK("C07-h2-"+id, true, err == nil, "containers that are absent from the data do not count against fc.max-node-count")
	case 4:
		out, err := read("?fields=yc")
		vpAssert(err == nil && out != nil, "read succeeds")
		vpAssertK("C07-h2-"+id, true, out.root.leaves["yc"] != nil, "a when is evaluated on the data, not through the request's own fields filter (zc=5 by default, so yc is visible)")
	case 5:
		out, err := read("?with-defaults=trim")
		vpAssert(err == nil && out != nil, "read succeeds")
		vpAssertK("C07-h2-"+id, true, out.root.leaves["yc"] != nil, "a when is evaluated on the data, not through the request's own with-defaults filter")
	}
	vpCover("reached")
}

// C08: "../" from a list entry goes to the node that holds the list
//
//vp:setup S_h2
func H_C08_up_from_entry(s any) {
	m := s.(*meta.Module)
	st := newMemStore()
	h2Store(st)
	b := NewBrowser(m, st.node())
	item, err := b.Root().Find("top/l=a")
	vpAssert(err == nil && item != nil, "entry found")
	type kase struct {
		path, want string // want = rendered path, "" = must not resolve
	}
	cases := []kase{{"../other", "top/other"}, {"../l=b", "top/l=b"}, {"../a", "top/a"}, {"../l=b/v", "top/l=b/v"}, {"../../top/a", "top/a"}, {"../nosuch", ""}, {"../../../top", ""}}
	c := cases[vpChoose(len(cases))]
	var sel *Selection
	p := vpCatch(func() { sel, err = item.Find(c.path) })
	vpAssert(!p, "no panic")
	if c.want == "" {
		vpAssert(sel == nil || err != nil, item.Path.StringNoModule()+" + "+c.path+" names nothing")
	} else {
		vpAssertK("C08-up-from-entry", true, err == nil && sel != nil && sel.Path.StringNoModule() == c.want, "from top/l=a the path "+c.path+" leads to "+c.want)
		if err == nil && sel != nil && meta.IsLeaf(sel.Meta()) {
			v, gerr := sel.Get()
			vpAssertK("C08-up-from-entry", true, gerr == nil && v != nil, "and the leaf found there can be read")
		}
	}
	vpCover("reached")
}

// C07: parameters that silently bring other limits along, and depth in a schema that nests itself
func H_C07_depth_side_effects() {
	kind := vpChoose(3)
	id := []string{"content-brings-depth-64", "depth-in-recursive-schema", "depth-in-recursive-schema"}[kind]
	switch kind {
	case 0:
		depth := 70
		var sb strings.Builder
		sb.WriteString("module m { namespace \"urn:m\"; prefix m; ")
		for i := 0; i < depth; i++ {
			sb.WriteString("container c { leaf v { type string; } ")
		}
		for i := 0; i < depth; i++ {
			sb.WriteString("} ")
		}
		sb.WriteString("}")
		m, err := parser.LoadModuleFromString(nil, sb.String())
		vpAssert(err == nil, "module loads")
		st := newMemStore()
		st.quiet = true
		t := st.root
		for i := 0; i < depth; i++ {
			t = t.ensureKid(st, "c")
			t.leaves["v"] = val.String("x")
		}
		count := func(q string) int {
			sel, ferr := NewBrowser(m, st.node()).Root().Find(q)
			if ferr != nil || sel == nil {
				return -1
			}
			out := newMemStore()
			out.quiet = true
			if sel.UpsertInto(out.node()) != nil {
				return -1
			}
			n := 0
			for w := out.root.kids["c"]; w != nil; w = w.kids["c"] {
				if w.leaves["v"] != nil {
					n++
				}
			}
			return n
		}
		vpAssert(count("") == depth, "the unconstrained read returns every level")
		vpAssertK("C07-h2-"+id, true, count("?content=config") == depth, "content=config on an all-config tree returns the same document (no other limit comes with it)")
	default:
		m, err := parser.LoadModuleFromString(nil, `module m { namespace "urn:m"; prefix m; grouping g { leaf v { type string; } container kid { uses g; } } container top { uses g; } }`)
		vpAssert(err == nil, "module loads")
		st := newMemStore()
		st.quiet = true
		t := st.root.ensureKid(st, "top")
		for i := 0; i < 4; i++ {
			t.leaves["v"] = val.String(string(rune('0' + i)))
			t = t.ensureKid(st, "kid")
		}
		t.leaves["v"] = val.String("4")
		q, wantLevels := "top/kid?depth=1", 1
		if kind == 2 {
			q, wantLevels = "top?depth=2", 2
		}
		sel, ferr := NewBrowser(m, st.node()).Root().Find(q)
		vpAssert(ferr == nil && sel != nil, "found")
		out := newMemStore()
		out.quiet = true
		vpAssert(sel.UpsertInto(out.node()) == nil, "read succeeds")
		levels := 0
		for w := out.root; w != nil && w.leaves["v"] != nil; w = w.kids["kid"] {
			levels++
		}
		vpAssertK("C07-h2-"+id, true, levels == wantLevels, q+" stops at its depth although the schema nests itself")
	}
	vpCover("reached")
}
