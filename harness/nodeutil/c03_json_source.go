package nodeutil

import (
	"errors"

	"github.com/freeconf/yang/fc"
	"github.com/freeconf/yang/meta"
	"github.com/freeconf/yang/node"
	"github.com/freeconf/yang/parser"
	"github.com/freeconf/yang/val"
)

// C03 with the JSON reader as the source node implementation, and sequences of
// two edits. The source tree S exists twice: as a reference store (for the
// reference merge) and as the decoded-JSON value the real reader walks.

const c03jYang = `module m { namespace "urn:m"; prefix m; revision 2020-01-01;
	container a {
		leaf x { type string; default "dx"; }
		leaf n { type int32; }
		container b { leaf y { type int32; default 5; } leaf w { type string; } }
	}
	list l { key "k"; leaf k { type string; } leaf v { type string; default "dv"; }
		container lc { leaf z { type string; default "dz"; } leaf u { type string; } } }
	leaf top { type string; }
}`

func S_c03j() any {
	m, err := parser.LoadModuleFromString(nil, c03jYang)
	if err != nil {
		panic(err)
	}
	return m
}

// c03jTree builds the same symbolic tree as a store and as a JSON value. small = fewer shape flags (targets).
func c03jTree(st *memStore, withKeys []string, small bool) map[string]interface{} {
	doc := map[string]interface{}{}
	r := st.root
	flag := func() bool { return !small && vpBool() }
	if flag() {
		s := "t" + vpStringN(1)
		r.leaves["top"] = val.String(s)
		doc["top"] = s
	}
	if vpBool() {
		a := r.ensureKid(st, "a")
		ja := map[string]interface{}{}
		doc["a"] = ja
		if flag() {
			s := vpStringN(1)
			a.leaves["x"] = val.String(s)
			ja["x"] = s
		}
		n := int32(7) // concrete: a symbolic number through float64 costs a floating-point query per path
		if small {
			n = 9
		}
		a.leaves["n"] = val.Int32(n)
		ja["n"] = float64(n) // what encoding/json hands over
		if vpBool() {
			a.ensureKid(st, "b")
			ja["b"] = map[string]interface{}{}
		}
	}
	if vpBool() {
		l := r.ensureList(st, "l")
		var jl []interface{}
		for i, k := range withKeys {
			if i > 0 && !vpBool() {
				continue
			}
			row := l.addRow(st, val.String(k))
			row.leaves["k"] = val.String(k)
			jr := map[string]interface{}{"k": k}
			if flag() {
				s := vpStringN(1)
				row.leaves["v"] = val.String(s)
				jr["v"] = s
			}
			if i == 0 && vpBool() {
				row.ensureKid(st, "lc")
				jr["lc"] = map[string]interface{}{}
			}
			jl = append(jl, jr)
		}
		doc["l"] = jl
	}
	return doc
}

func c03jRun(m *meta.Module, strategy int, fullDst bool) {
	src, dst := newMemStore(), newMemStore()
	src.quiet, dst.quiet = true, true
	doc := c03jTree(src, []string{"k2", "k1"}, false)
	c03jTree(dst, []string{"k2", "k3"}, !fullDst)
	ref := newMemStore()
	ref.root = c03Clone(ref, dst.root)
	refErr := refMerge(ref, m, src.root, ref.root, false, strategy)
	rdr, rerr := ReadJSONValues(doc)
	vpAssert(rerr == nil, "reader accepts the document")
	sel := node.NewBrowser(m, dst.node()).Root()
	var err error
	switch strategy {
	case c03Upsert:
		err = sel.UpsertFrom(rdr)
	case c03Insert:
		err = sel.InsertFrom(rdr)
	default:
		err = sel.UpdateFrom(rdr)
	}
	switch refErr {
	case nil:
		vpAssert(err == nil, "the edit succeeds when the strategy's precondition holds")
		if err == nil {
			vpAssert(treeEqU(dst.root, ref.root), "JSON source: target equals the keyed deep merge")
		}
	case errRefConflict:
		vpAssert(err != nil && errors.Is(err, fc.ConflictError), "JSON source: insert conflict")
	case errRefNotFound:
		vpAssert(err != nil && errors.Is(err, fc.NotFoundError), "JSON source: update not found")
	}
	vpCover("reached")
}

//vp:setup S_c03j
func H_C03_json_source_upsert(s any) { c03jRun(s.(*meta.Module), c03Upsert, false) }

//vp:setup S_c03j
func H_C03_T_json_source_upsert_full(s any) { c03jRun(s.(*meta.Module), c03Upsert, true) }

//vp:setup S_c03j
func H_C03_json_source_insert(s any) { c03jRun(s.(*meta.Module), c03Insert, false) }

//vp:setup S_c03j
func H_C03_T_json_source_insert_full(s any) { c03jRun(s.(*meta.Module), c03Insert, true) }

//vp:setup S_c03j
func H_C03_json_source_update(s any) { c03jRun(s.(*meta.Module), c03Update, false) }

//vp:setup S_c03j
func H_C03_T_json_source_update_full(s any) { c03jRun(s.(*meta.Module), c03Update, true) }

// a sequence of two edits equals the two reference merges in sequence
//
//vp:setup S_c03j
func H_C03_sequence_of_two(s any) {
	m := s.(*meta.Module)
	dst, ref := newMemStore(), newMemStore()
	dst.quiet = true
	b := node.NewBrowser(m, dst.node())
	for step := 0; step < 2; step++ {
		src := newMemStore()
		src.quiet = true
		c03jTree(src, []string{"k1", "k2"}, true)
		strategy := vpChoose(2) // upsert or insert
		refErr := refMerge(ref, m, src.root, ref.root, false, strategy)
		var err error
		if strategy == c03Upsert {
			err = b.Root().UpsertFrom(src.node())
		} else {
			err = b.Root().InsertFrom(src.node())
		}
		vpAssert((err == nil) == (refErr == nil), "step outcome follows the strategy's rule")
		if err != nil || refErr != nil {
			return
		}
		vpAssert(treeEqU(dst.root, ref.root), "after every step the target equals the reference merge history")
	}
	vpCover("reached")
}
