package nodeutil

import (
	"bytes"
	"strings"

	"github.com/freeconf/yang/meta"
	"github.com/freeconf/yang/node"
	"github.com/freeconf/yang/parser"
	"github.com/freeconf/yang/val"
)

// C04, further type families through writer + reader: enumeration / identityref / bits leaf-lists, leafrefs to
// leaf-lists, identityrefs and enumerations, unions with non-scalar-format members and mixed union leaf-lists,
// and deep nesting under the pretty printer.

const c04bYang = `module m { namespace "urn:m"; prefix m; revision 2020-01-01;
	identity base-id; identity kid-a { base base-id; } identity kid-b { base base-id; }
	leaf-list el { type enumeration { enum a; enum b; enum c; } }
	leaf en { type enumeration { enum "2"; enum "1"; enum "0"; } }
	leaf-list idl { type identityref { base base-id; } }
	leaf-list bl { type bits { bit x; bit y; } }
	leaf-list names { type string; }
	leaf-list rl { type leafref { path "../names"; } }
	leaf lr1 { type leafref { path "../names"; } }
	leaf single { type string; }
	leaf-list rl2 { type leafref { path "../single"; } }
	leaf count { type int32; }
	leaf-list rl3 { type leafref { path "../count"; } }
	leaf idt { type identityref { base base-id; } }
	leaf ridt { type leafref { path "../idt"; } }
	leaf ren { type leafref { path "../en"; } }
	leaf ue { type union { type enumeration { enum unbounded; } type uint16; } }
	leaf ui { type union { type identityref { base base-id; } type int32; } }
	leaf-list ul { type union { type int32; type string; } }
	leaf ub { type union { type boolean; type string; } }
	container d1 { container d2 { container d3 { container d4 { container d5 { container d6 { container d7 { container d8 { leaf z { type string; } } } } } } } } }
}`

func S_c04b() any {
	m, err := parser.LoadModuleFromString(nil, c04bYang)
	if err != nil {
		panic(err)
	}
	return m
}

func c04bRoundTrip(m *meta.Module, src *memStore, pretty bool, id, what string) {
	var buf bytes.Buffer
	wtr := &JSONWtr{Out: &buf, Pretty: pretty}
	var werr error
	p := vpCatch(func() { werr = node.NewBrowser(m, src.node()).Root().UpsertInto(wtr.Node()) })
	vpAssertK(id, true, !p && werr == nil, what+": writing succeeds")
	if p || werr != nil {
		return
	}
	root, ok := jparse(buf.String())
	vpAssertK(id, true, ok && root.kind == 'o', what+": well-formed JSON object")
	if !ok {
		return
	}
	rdr, err := ReadJSONValues(jvToGo(root).(map[string]interface{}))
	vpAssert(err == nil, "reader accepts the decoded document")
	dst := newMemStore()
	dst.quiet = true
	p2 := vpCatch(func() { err = node.NewBrowser(m, dst.node()).Root().UpsertFrom(rdr) })
	vpAssertK(id, true, !p2 && err == nil, what+": reading the library's own JSON back succeeds")
	if p2 || err != nil {
		return
	}
	vpAssertK(id, true, treeEqU(dst.root, src.root), what+": decode(write(tree)) is the same tree")
}

//vp:setup S_c04b
func H_C04_more_types_roundtrip(s any) {
	m := s.(*meta.Module)
	src := newMemStore()
	src.quiet = true
	r := src.root
	kind := vpChoose(15)
	ids := []string{"enum-leaf-list", "numeric-enum-names", "identityref-leaf-list", "bits-leaf-list", "leafref-leaf-list", "leafref-to-identityref", "leafref-to-enum", "union-enum-member", "union-identityref-member", "union-leaf-list-mixed", "union-boolean-string", "union-number", "leafref-leaf-list-to-leaf", "leafref-leaf-list-to-number", "leafref-leaf-to-leaf-list"}
	switch kind {
	case 0:
		order := [][]int{{1, 0}, {0, 1, 2}, {2}}[vpChoose(3)]
		var l val.EnumList
		for _, i := range order {
			l = append(l, val.Enum{Id: i, Label: []string{"a", "b", "c"}[i]})
		}
		r.leaves["el"] = l
	case 1:
		i := vpChoose(3)
		r.leaves["en"] = val.Enum{Id: i, Label: []string{"2", "1", "0"}[i]}
	case 2:
		r.leaves["idl"] = val.IdentRefList([]val.IdentRef{{Label: "kid-b"}, {Label: "kid-a"}})
	case 3:
		r.leaves["bl"] = val.BitsList([]val.Bits{{Labels: []string{"x"}, Positions: 1}, {Labels: []string{"x", "y"}, Positions: 3}})
	case 4:
		r.leaves["names"] = val.StringList([]string{"a", "b"})
		r.leaves["rl"] = val.StringList([]string{"b", "a"})
	case 5:
		r.leaves["idt"] = val.IdentRef{Label: "kid-a"}
		r.leaves["ridt"] = val.IdentRef{Label: "kid-a"}
	case 6:
		r.leaves["en"] = val.Enum{Id: 1, Label: "1"}
		r.leaves["ren"] = val.Enum{Id: 1, Label: "1"}
	case 7:
		r.leaves["ue"] = val.Enum{Id: 0, Label: "unbounded"}
	case 8:
		r.leaves["ui"] = val.IdentRef{Label: "kid-b"}
	case 9:
		r.leaves["ul"] = val.StringList([]string{"x", "y"})
	case 10:
		r.leaves["ub"] = val.String([]string{"yes", "maybe", "1", "true"}[vpChoose(4)])
	case 11:
		r.leaves["ue"] = val.UInt16(7)
	case 12:
		r.leaves["single"] = val.String("a")
		r.leaves["rl2"] = val.StringList([]string{"a", "b"})
	case 13:
		r.leaves["count"] = val.Int32(1)
		r.leaves["rl3"] = val.Int32List([]int32{1, 2})
	case 14:
		r.leaves["names"] = val.StringList([]string{"p", "q"})
		r.leaves["lr1"] = val.String("p")
	}
	c04bRoundTrip(m, src, vpBool(), "C04-"+ids[kind], ids[kind])
	vpCover("reached")
}

// deep nesting under the pretty printer
//
//vp:setup S_c04b
func H_C04_pretty_deep(s any) {
	src := newMemStore()
	src.quiet = true
	depth := 30 + 10*vpChoose(4) // 30, 40, 50, 60 nested containers
	var sb strings.Builder
	sb.WriteString("module deep { namespace \"urn:d\"; prefix d; ")
	for i := 0; i < depth; i++ {
		sb.WriteString("container c { ")
	}
	sb.WriteString("leaf z { type string; } ")
	for i := 0; i < depth; i++ {
		sb.WriteString("} ")
	}
	sb.WriteString("}")
	m, err := parser.LoadModuleFromString(nil, sb.String())
	vpAssert(err == nil, "module loads")
	t := src.root
	for i := 0; i < depth; i++ {
		t = t.ensureKid(src, "c")
	}
	t.leaves["z"] = val.String("zv")
	c04bRoundTrip(m, src, true, "C04-pretty-deep-nesting", "nested containers under the pretty printer")
	vpCover("reached")
}
