package nodeutil

import (
	"bytes"
	"unicode/utf8"

	"github.com/freeconf/yang/meta"
	"github.com/freeconf/yang/node"
	"github.com/freeconf/yang/parser"
	"github.com/freeconf/yang/val"
)

// C04: export visits everything exactly once, in order, and the JSON text the
// library writes reads back (through its own JSON reader) as the same tree.
// encoding/json's decoder is out of reach: the reference parser jparse stands
// in for it and hands the reader exactly what encoding/json would (numbers as
// float64, objects as map[string]interface{}, arrays as []interface{}).

const c04Yang = `module m { namespace "urn:m"; prefix m; revision 2020-01-01;
	container c {
		leaf s { type string; }
		leaf u { type uint8; }
		leaf b { type boolean; }
		leaf e { type enumeration { enum zero; enum one; enum seven { value 7; } } }
		leaf dflt { type string; default "dv"; }
		leaf-list ll { type uint8; }
		leaf-list sl { type string; }
		container in { leaf x { type string; } }
		choice ch { case a { leaf a1 { type string; } } case b { container b1 { leaf y { type string; } } } }
	}
	list l { key "k"; leaf k { type uint8; } leaf v { type string; }
		list in { key "p q"; leaf p { type string; } leaf q { type uint8; } leaf w { type string; } } }
	leaf top { type string; }
	choice tch { case ta { leaf ta1 { type string; } } case tb { container tb1 { leaf y { type string; } } } leaf tsh { type string; } }
	container wide {
		leaf i8 { type int8; } leaf i16 { type int16; } leaf i32 { type int32; } leaf i64 { type int64; }
		leaf u16 { type uint16; } leaf u32 { type uint32; } leaf u64 { type uint64; }
		leaf d { type decimal64 { fraction-digits 2; } }
	}
}`

func S_c04() any {
	m, err := parser.LoadModuleFromString(nil, c04Yang)
	if err != nil {
		panic(err)
	}
	return m
}

// jvToGo converts a parsed JSON value to what encoding/json.Decoder (without
// UseNumber) produces.
func jvToGo(v *jv) interface{} {
	switch v.kind {
	case 'o':
		m := map[string]interface{}{}
		for i, k := range v.keys {
			m[k] = jvToGo(v.vals[i])
		}
		return m
	case 'a':
		l := make([]interface{}, len(v.vals))
		for i, e := range v.vals {
			l[i] = jvToGo(e)
		}
		return l
	case 's':
		return v.str
	case 't':
		return true
	case 'f':
		return false
	case 'n':
		f := float64(v.mag) // integers only in these harnesses
		if v.neg {
			f = -f
		}
		return f
	}
	return nil
}

func c04Text(n int) string {
	t := vpString(n)
	// valid UTF-8 text; the JSON reader looks values up by name so content only has to survive
	for i := 0; i < len(t); i++ {
		vpAssume(t[i] < 0x80)
	}
	return t
}

func c04Source(st *memStore, aspect int) {
	r := st.root
	r.leaves["top"] = val.String("t p")
	switch aspect {
	case 0: // scalars
		c := r.ensureKid(st, "c")
		c.leaves["s"] = val.String(c04Text(1) + "\"")
		c.leaves["u"] = val.UInt8([]uint8{0, 7, 200, 255}[vpChoose(4)]) // enumerated: a symbolic number would go through float64 in every branch of the reader
		c.leaves["b"] = val.Bool(vpBool())
		ei := vpChoose(3)
		c.leaves["e"] = val.Enum{Id: []int{0, 1, 7}[ei], Label: []string{"zero", "one", "seven"}[ei]}
		if vpBool() {
			c.leaves["dflt"] = val.String("x")
		}
	case 1: // leaf-lists, nested container, choice
		c := r.ensureKid(st, "c")
		c.leaves["ll"] = val.UInt8List([]uint8{[]uint8{0, 9, 255}[vpChoose(3)], 7})
		c.leaves["sl"] = val.StringList([]string{"a\\b", "z"})
		if vpBool() {
			c.ensureKid(st, "in").leaves["x"] = val.String("xv")
		}
		switch vpChoose(3) {
		case 1:
			c.leaves["a1"] = val.String("av")
		case 2:
			c.ensureKid(st, "b1").leaves["y"] = val.String("yv")
		}
		switch vpChoose(4) { // a choice directly at module level: its nodes are top-level members
		case 1:
			r.leaves["ta1"] = val.String("tv")
		case 2:
			r.ensureKid(st, "tb1").leaves["y"] = val.String("ty")
		case 3:
			r.leaves["tsh"] = val.String("sh")
		}
	case 2: // lists: nested, compound key
		l := r.ensureList(st, "l")
		n := vpChoose(3)
		for i := 0; i < n; i++ {
			k := uint8(10 * i)
			row := l.addRow(st, val.UInt8(k))
			row.leaves["k"] = val.UInt8(k)
			row.leaves["v"] = val.String("v<" + string(rune('0'+i)))
			if vpBool() {
				in := row.ensureList(st, "in")
				p := c04Text(1)
				e := in.addRow(st, val.String(p), val.UInt8(3))
				e.leaves["p"] = val.String(p)
				e.leaves["q"] = val.UInt8(3)
				e.leaves["w"] = val.String("wv")
			}
		}
	}
}

// export into a capturing store: complete, nothing invented, each node written once
//
//vp:setup S_c04
func H_C04_export_capture(s any) {
	m := s.(*meta.Module)
	src := newMemStore()
	src.quiet = true
	c04Source(src, vpChoose(3))
	out := newMemStore()
	err := node.NewBrowser(m, src.node()).Root().UpsertInto(out.node())
	vpAssert(err == nil, "export succeeds")
	// expected = source + the default of an unset leaf in exported containers
	want := newMemStore()
	want.root = cloneTree(want, src.root)
	if c := want.root.kids["c"]; c != nil {
		if _, ok := c.leaves["dflt"]; !ok {
			c.leaves["dflt"] = val.String("dv")
		}
	}
	vpAssert(treeEqU(out.root, want.root), "the export holds every set leaf, leaf-list element, container and list entry, and nothing else but defaults")
	// each leaf written at most once, each container/entry created once
	type wk struct {
		node  int
		ident string
		kind  string
	}
	seen := map[wk]int{}
	for _, e := range out.log {
		if e.kind == "field" && e.write {
			seen[wk{e.node, e.ident, "f"}]++
		}
		if (e.kind == "child" || e.kind == "next") && e.isNew {
			seen[wk{e.node, e.ident, e.kind}]++
		}
	}
	for k, n := range seen {
		if k.kind != "next" {
			vpAssert(n == 1, "every node is visited exactly once")
		}
	}
	// list entries in source order
	if sl := src.root.lists["l"]; sl != nil {
		ol := out.root.lists["l"]
		vpAssert(ol != nil && len(ol.rows) == len(sl.rows), "same number of entries")
		for i := range sl.rows {
			vpAssert(val.EqualVals(sl.rows[i].key, ol.rows[i].key), "list entries in source order")
		}
	}
	vpCover("reached")
}

func cloneTree(st *memStore, t *memTree) *memTree {
	n := st.newTree()
	for k, v := range t.leaves {
		n.leaves[k] = v
	}
	for k, v := range t.kids {
		n.kids[k] = cloneTree(st, v)
	}
	for k, l := range t.lists {
		nl := n.ensureList(st, k)
		for _, r := range l.rows {
			nl.rows = append(nl.rows, &memRow{key: r.key, t: cloneTree(st, r.t)})
		}
	}
	return n
}

// treeEqU: structural equality with val.Equal on leaves (one Bool)
func treeEqU(a, b *memTree) bool {
	if len(a.leaves) != len(b.leaves) || len(a.kids) != len(b.kids) || len(a.lists) != len(b.lists) {
		return false
	}
	eq := true
	for k, v := range a.leaves {
		w, ok := b.leaves[k]
		if !ok {
			return false
		}
		eq = vpAnd(eq, val.Equal(v, w))
	}
	for k, v := range a.kids {
		w, ok := b.kids[k]
		if !ok {
			return false
		}
		eq = vpAnd(eq, treeEqU(v, w))
	}
	for k, l := range a.lists {
		m, ok := b.lists[k]
		if !ok || len(l.rows) != len(m.rows) {
			return false
		}
		for i := range l.rows {
			eq = vpAnd(eq, vpAnd(val.EqualVals(l.rows[i].key, m.rows[i].key), treeEqU(l.rows[i].t, m.rows[i].t)))
		}
	}
	return eq
}

// write JSON, parse it, read it back with the library's JSON reader, export again: same tree
func c04RoundTrip(m *meta.Module, pretty, qualify bool) {
	src := newMemStore()
	src.quiet = true
	c04Source(src, vpChoose(3))
	var buf bytes.Buffer
	wtr := &JSONWtr{Out: &buf, Pretty: pretty, QualifyNamespace: qualify}
	vpAssert(node.NewBrowser(m, src.node()).Root().UpsertInto(wtr.Node()) == nil, "write succeeds")
	root, ok := jparse(buf.String())
	vpAssert(ok && root.kind == 'o', "well-formed JSON object")
	rdr, err := ReadJSONValues(jvToGo(root).(map[string]interface{}))
	vpAssert(err == nil, "reader accepts the decoded document")
	dst := newMemStore()
	dst.quiet = true
	err = node.NewBrowser(m, dst.node()).Root().UpsertFrom(rdr)
	vpAssert(err == nil, "reading the library's own JSON back succeeds")
	want := newMemStore()
	want.root = cloneTree(want, src.root)
	if c := want.root.kids["c"]; c != nil {
		if _, ok := c.leaves["dflt"]; !ok {
			c.leaves["dflt"] = val.String("dv")
		}
	}
	vpAssert(treeEqU(dst.root, want.root), "decode(write(tree)) is the same tree")
	vpCover("reached")
}

//vp:setup S_c04
func H_C04_json_roundtrip_compact(s any) { c04RoundTrip(s.(*meta.Module), false, false) }

//vp:setup S_c04
func H_C04_json_roundtrip_pretty_qualified(s any) { c04RoundTrip(s.(*meta.Module), true, true) }

// every numeric type at full width through the reader: the decoded JSON number is float64(v)
func c04Wide(m *meta.Module, ident string, v val.Value, asJSON interface{}) (bool, bool) {
	rdr, _ := ReadJSONValues(map[string]interface{}{"wide": map[string]interface{}{ident: asJSON}})
	dst := newMemStore()
	dst.quiet = true
	err := node.NewBrowser(m, dst.node()).Root().UpsertFrom(rdr)
	if err != nil {
		return false, false
	}
	w := dst.root.kids["wide"]
	if w == nil || w.leaves[ident] == nil {
		return true, false
	}
	return true, val.Equal(w.leaves[ident], v)
}

//vp:setup S_c04
func H_C04_numbers_through_reader(s any) {
	m := s.(*meta.Module)
	switch vpChoose(7) {
	case 0:
		x := vpInt8()
		ok, same := c04Wide(m, "i8", val.Int8(x), float64(x))
		vpAssert(ok && same, "int8 survives")
	case 1:
		x := vpInt16()
		ok, same := c04Wide(m, "i16", val.Int16(x), float64(x))
		vpAssert(ok && same, "int16 survives")
	case 2:
		x := vpInt32()
		ok, same := c04Wide(m, "i32", val.Int32(x), float64(x))
		vpAssert(ok && same, "int32 survives")
	case 3:
		x := vpUint16()
		ok, same := c04Wide(m, "u16", val.UInt16(x), float64(x))
		vpAssert(ok && same, "uint16 survives")
	case 4:
		x := vpUint32()
		ok, same := c04Wide(m, "u32", val.UInt32(x), float64(x))
		vpAssert(ok && same, "uint32 survives")
	case 5:
		x := vpInt64()
		ok, same := c04Wide(m, "i64", val.Int64(x), float64(x))
		small := x >= -(1<<53) && x <= 1<<53
		vpAssertK("C04-int64-beyond-2-53", !small, ok && same, "int64 survives the JSON number (float64) step")
	case 6:
		x := vpUint64()
		ok, same := c04Wide(m, "u64", val.UInt64(x), float64(x))
		small := x <= 1<<53
		vpAssertK("C04-int64-beyond-2-53", !small, ok && same, "uint64 survives the JSON number (float64) step")
	}
	vpCover("reached")
}

// every string of up to 3 bytes of valid UTF-8 (control characters, quotes, U+2028/U+2029 ...) comes back unchanged
// through writer + reader, as a leaf and as a leaf-list element, whatever the writer configuration
//
//vp:setup S_c04
func H_C04_string_roundtrip_utf8(s any) {
	m := s.(*meta.Module)
	t := vpString(3)
	vpAssume(utf8.ValidString(t))
	src := newMemStore()
	src.quiet = true
	c := src.root.ensureKid(src, "c")
	asList := vpBool()
	if asList {
		c.leaves["sl"] = val.StringList([]string{t, "z"})
	} else {
		c.leaves["s"] = val.String(t)
	}
	var buf bytes.Buffer
	wtr := &JSONWtr{Out: &buf, Pretty: vpBool()}
	vpAssert(node.NewBrowser(m, src.node()).Root().UpsertInto(wtr.Node()) == nil, "write succeeds")
	root, ok := jparse(buf.String())
	vpAssert(ok && root.kind == 'o', "well-formed JSON object")
	rdr, err := ReadJSONValues(jvToGo(root).(map[string]interface{}))
	vpAssert(err == nil, "reader accepts the decoded document")
	dst := newMemStore()
	dst.quiet = true
	vpAssert(node.NewBrowser(m, dst.node()).Root().UpsertFrom(rdr) == nil, "reading the library's own JSON back succeeds")
	dc := dst.root.kids["c"]
	vpAssert(dc != nil, "container is back")
	if asList {
		got, isList := dc.leaves["sl"].(val.StringList)
		vpAssert(isList && len(got) == 2 && got[0] == t && got[1] == "z", "string leaf-list element comes back unchanged")
	} else {
		got, isStr := dc.leaves["s"].(val.String)
		vpAssert(isStr && string(got) == t, "string leaf comes back unchanged")
	}
	vpCover("reached")
}
