package nodeutil

import (
	"github.com/freeconf/yang/meta"
	"github.com/freeconf/yang/node"
	"github.com/freeconf/yang/parser"
	"github.com/freeconf/yang/val"
)

// C13 (JSON documents): whatever kind of JSON value sits at each schema
// position, an edit from that document returns a result or an error, never a
// panic, and data stored before the rejected request stays readable.

const c13Yang = `module m { namespace "urn:m"; prefix m; revision 2020-01-01;
	container c { leaf x { type string; } leaf n { type int32; } container d { leaf y { type string; } } leaf-list ll { type int32; } }
	list l { key "k"; leaf k { type string; } leaf v { type int32; } container lc { leaf z { type string; } } }
	leaf top { type string; }
	choice ch { case a { leaf a1 { type string; } } case b { container b1 { leaf y { type string; } } } }
}`

func S_c13() any {
	m, err := parser.LoadModuleFromString(nil, c13Yang)
	if err != nil {
		panic(err)
	}
	return m
}

// c13Any returns one of the JSON value kinds (as encoding/json would decode it)
func c13Any(inner func() interface{}) (interface{}, bool) {
	switch vpChoose(8) {
	case 0:
		return nil, false // member absent
	case 1:
		return nil, true // null
	case 2:
		return "str", true
	case 3:
		return float64(5), true
	case 4:
		return true, true
	case 5:
		return []interface{}{}, true
	case 6:
		return []interface{}{inner()}, true
	}
	return inner(), true
}

func c13Doc(depth int) map[string]interface{} {
	doc := map[string]interface{}{}
	put := func(name string, inner func() interface{}) {
		if v, present := c13Any(inner); present {
			doc[name] = v
		}
	}
	which := vpChoose(5)
	switch which {
	case 0: // container position
		put("c", func() interface{} {
			m := map[string]interface{}{"x": "ok"}
			if depth > 0 {
				if v, p := c13Any(func() interface{} { return map[string]interface{}{"y": "deep"} }); p {
					m["d"] = v
				}
			}
			return m
		})
	case 1: // list position
		put("l", func() interface{} {
			return map[string]interface{}{"k": "key1", "v": float64(1)}
		})
	case 2: // leaf / leaf-list position inside a container
		inner := map[string]interface{}{}
		if v, p := c13Any(func() interface{} { return map[string]interface{}{"a": "b"} }); p {
			inner["x"] = v
		}
		if v, p := c13Any(func() interface{} { return float64(3) }); p {
			inner["ll"] = v
		}
		doc["c"] = inner
	case 3: // list entries of the wrong kind, entries without their key, nested container of the wrong kind
		entry := map[string]interface{}{}
		if vpBool() {
			entry["k"] = "key1"
		}
		if v, p := c13Any(func() interface{} { return map[string]interface{}{"z": "zz"} }); p {
			entry["lc"] = v
		}
		var e2 interface{} = entry
		if vpBool() {
			e2, _ = c13Any(func() interface{} { return entry })
		}
		doc["l"] = []interface{}{e2}
	case 4: // choice members of the wrong kind
		put("b1", func() interface{} { return map[string]interface{}{"y": "yy"} })
		put("a1", func() interface{} { return "av" })
	}
	return doc
}

//vp:setup S_c13
func H_C13_json_shapes(s any) {
	c13Budget()
	m := s.(*meta.Module)
	dst := newMemStore()
	dst.quiet = true
	dst.root.leaves["top"] = val.String("before")
	dst.root.ensureKid(dst, "c").leaves["x"] = val.String("old")
	doc := c13Doc(1)
	strategy := vpChoose(3)
	var err error
	p := vpCatch(func() {
		var rdr node.Node
		rdr, err = ReadJSONValues(doc)
		if err != nil {
			return
		}
		sel := node.NewBrowser(m, dst.node()).Root()
		switch strategy {
		case 0:
			err = sel.UpsertFrom(rdr)
		case 1:
			err = sel.InsertFrom(rdr)
		default:
			err = sel.UpdateFrom(rdr)
		}
	})
	vpAssertK("C13-json-shape-panics", true, !p, "a document whose shape disagrees with the schema is an error, never a panic")
	// data stored before the request remains readable
	out := newMemStore()
	out.quiet = true
	p2 := vpCatch(func() { err = node.NewBrowser(m, dst.node()).Root().UpsertInto(out.node()) })
	vpAssert(!p2 && err == nil, "the tree is still readable afterwards")
	vpAssert(out.root.leaves["top"] != nil && out.root.leaves["top"].String() == "before", "data stored before the request is intact")
	vpCover("reached")
}

// reading (export) from a mis-shaped document must not crash either
//
//vp:setup S_c13
func H_C13_json_shapes_read(s any) {
	c13Budget()
	m := s.(*meta.Module)
	doc := c13Doc(1)
	var err error
	p := vpCatch(func() {
		var rdr node.Node
		rdr, err = ReadJSONValues(doc)
		if err != nil {
			return
		}
		sel := node.NewBrowser(m, rdr).Root()
		paths := []string{"", "c", "c/d", "l", "l=key1", "l=key1/lc", "c/x"}
		var found *node.Selection
		found, err = sel.Find(paths[vpChoose(len(paths))])
		if err == nil && found != nil && !meta.IsLeaf(found.Meta()) {
			out := newMemStore()
			out.quiet = true
			switch {
			case meta.IsList(found.Meta()) && !found.InsideList:
				err = found.UpsertInto(&memNode{s: out, l: out.root.ensureList(out, "l")})
			default:
				err = found.UpsertInto(&memNode{s: out, t: out.newTree()})
			}
		}
	})
	vpAssertK("C13-json-shape-panics", true, !p, "navigating / reading a mis-shaped document is an error, never a panic")
	vpCover("reached")
}

// a hang is a violation of this property, not an inconclusive unwinding bound: loops are limited only by the
// step budget (well above the longest request in these harnesses) and the frame-depth budget
func c13Budget() {
	vpUnwind(1 << 30)
	vpSteps(3000000)
	vpDepth(1500)
}
