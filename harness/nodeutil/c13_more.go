package nodeutil

import (
	"strings"

	"github.com/freeconf/yang/meta"
	"github.com/freeconf/yang/node"
	"github.com/freeconf/yang/parser"
	"github.com/freeconf/yang/val"
)

// C13, further request shapes: list entries without their keys, fewer key values than key leaves, null elements,
// where / filter expressions that name a node without comparing it or compare something that has no order,
// very long xpath texts, nil and empty values given to SetValue, XML whose shape disagrees with the schema.

const c13bYang = `module m { namespace "urn:m"; prefix "m"; revision 0;
	typedef en { type enumeration { enum a; enum b; } }
	container c {
		leaf x { type int32; }
		leaf s { type string; }
		leaf-list el { type en; }
		leaf-list ul { type union { type int32; type string; } }
		container cc { leaf y { type string; } }
	}
	list l { key "k"; leaf k { type string; } leaf v { type int32; } leaf bits { type bits { bit one; bit two; } } leaf emp { type empty; }
		leaf-list ll { type int32; } container lc { leaf w { type string; } } choice lch { leaf la { type string; } leaf lb { type string; } }
		leaf un { type union { type int32; type string; } } }
	list l2 { key "a b"; leaf a { type string; } leaf b { type int32; } leaf v { type string; } }
	rpc r { input { leaf i { type string; } } }
}`

func S_c13b() any {
	m, err := parser.LoadModuleFromString(nil, c13bYang)
	if err != nil {
		panic(err)
	}
	return m
}

func c13bStore(st *memStore) {
	c := st.root.ensureKid(st, "c")
	c.leaves["x"] = val.Int32(5)
	c.leaves["s"] = val.String("str")
	c.ensureKid(st, "cc").leaves["y"] = val.String("why")
	l := st.root.ensureList(st, "l")
	r := l.addRow(st, val.String("one"))
	r.leaves["k"] = val.String("one")
	r.leaves["v"] = val.Int32(1)
	r.leaves["bits"] = val.Bits{Labels: []string{"one"}, Positions: 1}
	r.leaves["ll"] = val.Int32List([]int32{1, 2})
	r.leaves["un"] = val.Int32(3)
	r.ensureKid(st, "lc").leaves["w"] = val.String("W")
	r.leaves["la"] = val.String("A")
	r2 := l.addRow(st, val.String("two"))
	r2.leaves["k"] = val.String("two")
	r2.leaves["v"] = val.Int32(2)
	r2.leaves["un"] = val.String("text")
	e := st.root.ensureList(st, "l2").addRow(st, val.String("x"), val.Int32(1))
	e.leaves["a"] = val.String("x")
	e.leaves["b"] = val.Int32(1)
	e.leaves["v"] = val.String("V")
}

// JSON documents whose list entries lack keys, carry null, or put the wrong kind of value somewhere
//
//vp:setup S_c13b
func H_C13_json_entries_without_keys(s any) {
	c13Budget()
	m := s.(*meta.Module)
	docs := []map[string]interface{}{
		{"l": []interface{}{map[string]interface{}{"v": float64(5)}}},
		{"l": []interface{}{map[string]interface{}{}}},
		{"l": []interface{}{map[string]interface{}{"k": nil}}},
		{"l2": []interface{}{map[string]interface{}{"b": float64(1)}}},
		{"l2": []interface{}{map[string]interface{}{"a": "x"}}},
		{"c": map[string]interface{}{"el": []interface{}{nil}}},
		{"c": map[string]interface{}{"el": "bogus"}},
		{"c": map[string]interface{}{"ul": []interface{}{}}},
		{"c": map[string]interface{}{"s": map[string]interface{}{"a": float64(1)}}},
		{"c": map[string]interface{}{"s": []interface{}{"a"}}},
		{"c": map[string]interface{}{"x": nil}},
		{"l": []interface{}{nil}},
		{"l": []interface{}{"scalar"}},
	}
	ids := []string{"no-key", "empty-entry", "null-key", "compound-first-missing", "compound-second-missing", "null-enum-element", "scalar-enum-list", "empty-union-list", "object-for-string", "array-for-string", "null-leaf", "null-entry", "scalar-entry"}
	rejected := []bool{true, true, true, true, true, true, true, false, true, true, false, true, true}
	i := vpChoose(len(docs))
	strategy := vpChoose(3)
	dst := newMemStore()
	c13bStore(dst)
	before := cloneTree(dst, dst.root)
	var err error
	p := vpCatch(func() {
		rdr, rerr := ReadJSONValues(docs[i])
		if rerr != nil {
			err = rerr
			return
		}
		sel := node.NewBrowser(m, dst.node()).Root()
		switch strategy {
		case 0:
			err = sel.UpsertFrom(rdr)
		case 1:
			err = sel.InsertFrom(rdr)
		default:
			err = sel.UpdateFrom(rdr)
		}
	})
	vpAssertK("C13-json-"+ids[i], true, !p, ids[i]+": an edit from this JSON document returns, it does not panic")
	if rejected[i] && strategy == 0 {
		vpAssertK("C13-json-"+ids[i], true, err != nil, ids[i]+": content whose shape disagrees with the schema is reported as an error")
	}
	if err != nil || p {
		vpAssert(treeEqU(dst.root.kids["c"], before.kids["c"]), "data stored before the rejected request remains readable")
	}
	vpCover("reached")
}

// Find with key values that do not fit the key leaves; GetValue through a path that finds nothing
//
//vp:setup S_c13b
func H_C13_find_key_counts(s any) {
	c13Budget()
	m := s.(*meta.Module)
	st := newMemStore()
	c13bStore(st)
	paths := []string{"l2=x", "l2=x,1", "l2=x,1,extra", "l2=", "l2=,", "l2=,1", "l2=x,", "l=one,two", "l=", "l2=x,notanumber", "l2=x/v", "l=zzz/v", "l=zzz", "l2=q,9/v", "r", "r/input", "r/input/i"}
	i := vpChoose(len(paths))
	src := vpChoose(2)
	p := vpCatch(func() {
		var n node.Node = st.node()
		if src == 1 {
			n, _ = ReadJSONValues(map[string]interface{}{"l": []interface{}{map[string]interface{}{"k": "one", "v": float64(1)}}, "l2": []interface{}{map[string]interface{}{"a": "x", "b": float64(1), "v": "V"}}})
		}
		b := node.NewBrowser(m, n)
		sel, err := b.Root().Find(paths[i])
		if err == nil && sel != nil && !meta.IsLeaf(sel.Meta()) {
			var buf strings.Builder
			w := &JSONWtr{Out: &buf}
			sel.UpsertInto(w.Node())
		}
		b.Root().GetValue(paths[i])
	})
	vpAssertK("C13-find-"+strings.NewReplacer("=", "-eq-", ",", "-c-", "/", "-s-").Replace(paths[i]), true, !p, "Find / GetValue("+paths[i]+") returns a result or an error")
	vpCover("reached")
}

// where / filter expressions: a path without comparison, comparisons of things that have no order, lexer leftovers
//
//vp:setup S_c13b
func H_C13_where_shapes(s any) {
	c13Budget()
	m := s.(*meta.Module)
	st := newMemStore()
	c13bStore(st)
	exprs := []string{"v", "lc/w", "lc", "lch", "la", "bits='one'", "bits!='one'", "emp='true'", "ll<1", "ll=1", "un<5", "un='text'", "un>'a'", "k", "nosuch", "lc/nosuch=1", "v=1 @", "v=1 and", "v==1", "v=", "=1", "v<", "v=1 v=2", "k='one' or", "k=\"one\"", "k='one", "v=1.5", "v=99999999999999999999", "v=-", "../c/x=5", "/c/x=5", "."}
	i := vpChoose(len(exprs))
	var err error
	p := vpCatch(func() {
		var sel *node.Selection
		sel, err = node.NewBrowser(m, st.node()).Root().Find("l?where=" + c13Escape(exprs[i]))
		if err == nil && sel != nil {
			out := newMemStore()
			out.quiet = true
			err = sel.UpsertInto(&memNode{s: out, l: out.root.ensureList(out, "l")})
		}
	})
	vpAssertK("C13-where-"+c13Id(exprs[i]), true, !p, "where="+exprs[i]+" yields a result or an error, never a panic")
	vpAssert(st.writes() == 0, "stored data untouched")
	vpCover("reached")
}

func c13Escape(s string) string {
	const hexd = "0123456789ABCDEF"
	var sb strings.Builder
	for i := 0; i < len(s); i++ {
		c := s[i]
		if (c >= 'a' && c <= 'z') || (c >= 'A' && c <= 'Z') || (c >= '0' && c <= '9') {
			sb.WriteByte(c)
		} else {
			sb.WriteByte('%')
			sb.WriteByte(hexd[c>>4])
			sb.WriteByte(hexd[c&15])
		}
	}
	return sb.String()
}

func c13Id(s string) string {
	var sb strings.Builder
	for i := 0; i < len(s); i++ {
		c := s[i]
		if (c >= 'a' && c <= 'z') || (c >= '0' && c <= '9') {
			sb.WriteByte(c)
		} else {
			sb.WriteString("_" + string("0123456789abcdef"[c>>4]) + string("0123456789abcdef"[c&15]))
		}
	}
	return sb.String()
}

// xpath texts of any length
//
//vp:setup S_c13b
func H_C13_long_xpath(s any) {
	c13Budget()
	m := s.(*meta.Module)
	st := newMemStore()
	c13bStore(st)
	n := []int{10, 255, 256, 257, 300, 600}[vpChoose(6)]
	sep := []string{"/", " ", "/../"}[vpChoose(3)]
	var sb strings.Builder
	for i := 0; i < n; i++ {
		if i > 0 {
			sb.WriteString(sep)
		}
		sb.WriteString("lc")
	}
	sb.WriteString("=1")
	p := vpCatch(func() {
		sel, err := node.NewBrowser(m, st.node()).Root().Find("l?where=" + c13Escape(sb.String()))
		if err == nil && sel != nil {
			out := newMemStore()
			out.quiet = true
			sel.UpsertInto(&memNode{s: out, l: out.root.ensureList(out, "l")})
		}
	})
	vpAssertK("C13-xpath-depth", true, !p, "an xpath text of any length yields a result or an error")
	vpCover("reached")
}

// SetValue with nil and with empty collections
//
//vp:setup S_c13b
func H_C13_setvalue_nil_and_empty(s any) {
	c13Budget()
	m := s.(*meta.Module)
	st := newMemStore()
	c13bStore(st)
	leaves := []string{"c/x", "c/s", "c/el", "c/ul", "l=one/bits", "l=one/emp", "l=one/ll", "l=one/un"}
	vals := []interface{}{nil, []string{}, []interface{}{}, []int{}, "", map[string]interface{}{}, []interface{}{nil}, struct{}{}}
	li, vi := vpChoose(len(leaves)), vpChoose(len(vals))
	p := vpCatch(func() {
		sel, err := node.NewBrowser(m, st.node()).Root().Find(leaves[li])
		if err == nil && sel != nil {
			sel.SetValue(vals[vi])
			sel.Get()
		}
	})
	vpAssertK("C13-setvalue-nil", true, !p, "SetValue with nil or an empty collection on "+leaves[li]+" returns, it does not panic")
	out := newMemStore()
	out.quiet = true
	p2 := vpCatch(func() { node.NewBrowser(m, st.node()).Root().UpsertInto(out.node()) })
	vpAssertK("C13-setvalue-nil", true, !p2, "the stored data remains readable afterwards")
	vpCover("reached")
}

// XML whose shape disagrees with the schema
//
//vp:setup S_c13b
func H_C13_xml_shapes(s any) {
	c13Budget()
	m := s.(*meta.Module)
	mk := func(local, content string, kids ...*XmlNode) *XmlNode {
		n := &XmlNode{Content: []byte(content), Nodes: kids}
		n.XMLName.Local = local
		n.XMLName.Space = "urn:m"
		return n
	}
	docs := []*XmlNode{
		mk("m", "", mk("c", "5")),                                         // scalar where a container is declared
		mk("m", "", mk("c", "", mk("cc", "text"))),                        // scalar where a nested container is declared
		mk("m", "", mk("l", "text")),                                      // scalar where a list entry is declared
		mk("m", "", mk("l", "", mk("v", "5"))),                            // entry without its key
		mk("m", "", mk("l2", "", mk("a", "x"))),                           // entry without its second key
		mk("m", "", mk("c", "", mk("x", "", mk("deep", "1")))),            // element below a leaf
		mk("m", "", mk("c", "", mk("x", "notanumber"))),                   // unparsable number
		mk("m", "", mk("c", "", mk("el", "zz"))),                          // unknown enum
		mk("m", "", mk("c", "  \n ", mk("x", "5"))),                       // white space around child elements is fine
		mk("m", "", mk("c", "", mk("x", "5"), mk("x", "6"))),              // a leaf twice
		mk("m", "", mk("l", "", mk("k", "a")), mk("l", "", mk("k", "a"))), // the same entry twice
	}
	ids := []string{"scalar-for-container", "scalar-for-nested-container", "scalar-for-entry", "entry-without-key", "entry-without-second-key", "element-below-leaf", "bad-number", "unknown-enum", "whitespace", "leaf-twice", "entry-twice"}
	rejected := []bool{true, true, true, true, true, false, true, true, false, false, false}
	i := vpChoose(len(docs))
	dst := newMemStore()
	c13bStore(dst)
	var err error
	p := vpCatch(func() { err = node.NewBrowser(m, dst.node()).Root().UpsertFrom(docs[i]) })
	vpAssertK("C13-xml-"+ids[i], true, !p, ids[i]+": an edit from this XML document returns, it does not panic")
	if rejected[i] {
		vpAssertK("C13-xml-"+ids[i], true, err != nil, ids[i]+": content whose shape disagrees with the schema is reported as an error")
	} else if i == 8 {
		vpAssert(err == nil, "a conforming document is accepted")
	}
	out := newMemStore()
	out.quiet = true
	p2 := vpCatch(func() { node.NewBrowser(m, dst.node()).Root().UpsertInto(out.node()) })
	vpAssert(!p2 && out.root.kids["c"] != nil, "data stored before the request remains readable")
	vpCover("reached")
}
