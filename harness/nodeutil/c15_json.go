package nodeutil

import (
	"bytes"
	"errors"
	"io"
	"strings"
	"unicode/utf8"

	"github.com/freeconf/yang/meta"
	"github.com/freeconf/yang/node"
	"github.com/freeconf/yang/parser"
	"github.com/freeconf/yang/val"
)

// C15: the JSON writer emits exactly one well-formed RFC 8259 value with the
// right member names, kinds and values.

func c15StrLen() int {
	if vpTier() > 0 {
		return 4
	}
	return 3
}

// every string of up to c15StrLen() bytes (valid UTF-8) is escaped so that it decodes to itself
func H_C15_writeString_bytes() {
	s := vpString(c15StrLen())
	vpAssume(utf8.ValidString(s))
	html := vpBool()
	var b bytes.Buffer
	writeString(&b, s, html)
	v, ok := jparse(b.String())
	vpAssert(ok && v.kind == 's', "output is one well-formed JSON string")
	vpAssert(v.str == s, "the string decodes to the stored text")
	vpCover("reached")
}

// invalid UTF-8 comes out as U+FFFD and the output stays well-formed
func H_C15_writeString_invalid_utf8() {
	s := vpString(2)
	vpAssume(!utf8.ValidString(s))
	var b bytes.Buffer
	writeString(&b, s, true)
	_, ok := jparse(b.String())
	vpAssert(ok, "output is well-formed JSON even for invalid UTF-8")
	vpCover("reached")
}

const c15Yang = `module m { namespace "urn:m"; prefix m; revision 2020-01-01;
	identity base-id; identity child-id { base base-id; }
	container c {
		leaf s { type string; }
		leaf n { type int8; }
		leaf u { type uint8; }
		leaf b { type boolean; }
		leaf e { type enumeration { enum zero; enum one; enum seven { value 7; } } }
		leaf em { type empty; }
		leaf d { type decimal64 { fraction-digits 2; } }
		leaf-list ll { type uint8; }
		leaf-list sl { type string; }
		leaf idr { type identityref { base base-id; } }
		container in { leaf x { type string; } }
		container ec { presence "p"; }
	}
	list l { key "k"; leaf k { type uint8; } leaf v { type string; } }
	list el { key "k"; leaf k { type string; } }
	leaf top { type string; }
}`

func S_c15() any {
	m, err := parser.LoadModuleFromString(nil, c15Yang)
	if err != nil {
		panic(err)
	}
	return m
}

// c15Text: a symbolic string that is valid UTF-8 (the stored text of a YANG string is Unicode)
func c15Text(n int) string {
	t := vpString(n)
	vpAssume(utf8.ValidString(t))
	return t
}

type c15Src struct {
	s                                      string
	n                                      int8
	u                                      uint8
	b                                      bool
	e                                      int
	d                                      float64
	ll                                     []uint8
	sl                                     string
	x                                      string
	keys                                   []uint8
	vs                                     []string
	top                                    string
	hasEm, hasC, hasIn, hasEc, hasL, hasEl bool
}

// aspect 0: scalar leaves; 1: leaf-lists, identityref, nested / empty containers; 2: lists
func c15Build(st *memStore, aspect int, lite bool) *c15Src {
	r := &c15Src{}
	r.hasC = aspect != 2
	if r.hasC {
		c := st.root.ensureKid(st, "c")
		if aspect == 0 && !lite {
			r.s = c15Text(1)
		} else {
			r.s = "s"
		}
		c.leaves["s"] = val.String(r.s)
		if aspect == 0 {
			// n enumerated (the 64-bit divisions of a symbolic signed Itoa cost minutes), u symbolic
			r.n, r.u, r.b = -100, vpUint8(), vpBool()
			if !lite {
				r.n = []int8{-128, -100, -1, 0, 9, 127}[vpChoose(6)]
			}
			c.leaves["n"] = val.Int8(r.n)
			c.leaves["u"] = val.UInt8(r.u)
			c.leaves["b"] = val.Bool(r.b)
			r.e = vpChoose(3)
			c.leaves["e"] = val.Enum{Id: []int{0, 1, 7}[r.e], Label: []string{"zero", "one", "seven"}[r.e]}
			r.hasEm = vpBool()
			if r.hasEm {
				c.leaves["em"] = val.NotEmpty
			}
			r.d = []float64{0, 1.5, -2.25, 100}[1+vpChoose(2)]
			c.leaves["d"] = val.Decimal64(r.d)
		}
		if aspect == 1 {
			r.ll = []uint8{vpUint8(), 200}
			c.leaves["ll"] = val.UInt8List(r.ll)
			r.sl = "q"
			c.leaves["sl"] = val.StringList([]string{r.sl, "z"})
			c.leaves["idr"] = val.IdentRef{Label: "child-id"}
			r.hasIn = vpBool()
			if r.hasIn {
				r.x = "xv"
				c.ensureKid(st, "in").leaves["x"] = val.String(r.x)
			}
			r.hasEc = vpBool()
			if r.hasEc {
				c.ensureKid(st, "ec")
			}
		}
	}
	if aspect == 2 {
		r.hasL = vpBool()
		if r.hasL {
			l := st.root.ensureList(st, "l")
			n := vpChoose(3)
			for i := 0; i < n; i++ {
				k := uint8(i * 7)
				v := "v" + string(rune('0'+i))
				row := l.addRow(st, val.UInt8(k))
				row.leaves["k"] = val.UInt8(k)
				row.leaves["v"] = val.String(v)
				r.keys = append(r.keys, k)
				r.vs = append(r.vs, v)
			}
		}
		r.hasEl = vpBool()
		if r.hasEl {
			st.root.ensureList(st, "el")
		}
	}
	r.top = "t\"q"
	st.root.leaves["top"] = val.String(r.top)
	return r
}

func jnum(v *jv, want int64) bool {
	if v == nil || v.kind != 'n' || !v.isInt {
		return false
	}
	if want < 0 {
		return v.neg && v.mag == uint64(-want)
	}
	return !v.neg && v.mag == uint64(want)
}

func c15Check(m *meta.Module, pretty, qualify, enumIds bool) {
	st := newMemStore()
	st.quiet = true
	aspect := vpChoose(3)
	src := c15Build(st, aspect, (pretty || enumIds) && vpTier() == 0) // the full value space runs in the compact configuration on every change
	var buf bytes.Buffer
	wtr := &JSONWtr{Out: &buf, Pretty: pretty, QualifyNamespace: qualify, EnumAsIds: enumIds}
	err := node.NewBrowser(m, st.node()).Root().UpsertInto(wtr.Node())
	vpAssert(err == nil, "writing succeeds")
	text := buf.String()
	root, ok := jparse(text)
	vpAssertK("C15-empty-leaf", src.hasEm, ok, "output is exactly one well-formed JSON value")
	if !ok {
		return
	}
	vpAssert(root.kind == 'o', "a container selection is written as an object")
	name := func(id string) string {
		if qualify {
			return "m:" + id
		}
		return id
	}
	tv := root.get(name("top"))
	vpAssert(tv != nil && tv.kind == 's' && tv.str == src.top, "top-level member name (module-qualified when asked) and string value")
	c := root.get(name("c"))
	vpAssert((c != nil) == src.hasC, "container present iff it exists")
	if c != nil {
		vpAssert(c.kind == 'o', "container is an object")
		sv := c.get("s")
		vpAssert(sv != nil && sv.kind == 's' && sv.str == src.s, "string leaf decodes to the stored text; nested names are not re-qualified")
		if aspect == 0 {
			vpAssert(jnum(c.get("n"), int64(src.n)), "int8 leaf is a JSON number with the stored value")
			vpAssert(jnum(c.get("u"), int64(src.u)), "uint8 leaf is a JSON number with the stored value")
			bv := c.get("b")
			vpAssert(bv != nil && ((bv.kind == 't') == src.b) && (bv.kind == 't' || bv.kind == 'f'), "boolean leaf")
			ev := c.get("e")
			if enumIds {
				vpAssert(jnum(ev, int64([]int{0, 1, 7}[src.e])), "enum by value")
			} else {
				vpAssert(ev != nil && ev.kind == 's' && ev.str == []string{"zero", "one", "seven"}[src.e], "enum by name")
			}
			em := c.get("em")
			vpAssert((em != nil) == src.hasEm, "empty leaf present iff set")
			if em != nil {
				vpAssertK("C15-empty-leaf", true, em.kind == 'a' && len(em.vals) == 1 && em.vals[0].kind == 'z', "an empty-typed leaf is [null]")
			}
			dv := c.get("d")
			vpAssert(dv != nil && dv.kind == 'n' && dv.raw == []string{"0", "1.5", "-2.25", "100"}[vpChooseSame(src.d)], "decimal64 value")
		}
		if aspect == 1 {
			ll := c.get("ll")
			vpAssert(ll != nil && ll.kind == 'a' && len(ll.vals) == 2 && jnum(ll.vals[0], int64(src.ll[0])) && jnum(ll.vals[1], int64(src.ll[1])), "leaf-list is an array in order")
			sl := c.get("sl")
			vpAssert(sl != nil && sl.kind == 'a' && len(sl.vals) == 2 && sl.vals[0].kind == 's' && sl.vals[0].str == src.sl && sl.vals[1].str == "z", "string leaf-list")
			idr := c.get("idr")
			vpAssert(idr != nil && idr.kind == 's' && idr.str == "child-id", "identityref of the same module is written unqualified")
			in := c.get("in")
			vpAssert((in != nil) == src.hasIn, "nested container present iff it exists")
			if in != nil {
				xv := in.get("x")
				vpAssert(in.kind == 'o' && xv != nil && xv.str == src.x, "nested container content")
			}
			ec := c.get("ec")
			vpAssert((ec != nil) == src.hasEc, "empty container present iff it exists")
			if ec != nil {
				vpAssert(ec.kind == 'o' && len(ec.keys) == 0, "an empty container is {}")
			}
		}
	}
	l := root.get(name("l"))
	vpAssert((l != nil) == src.hasL, "list present iff it exists")
	if l != nil {
		vpAssert(l.kind == 'a' && len(l.vals) == len(src.keys), "a list is an array with one object per entry")
		for i := range src.keys {
			e := l.vals[i]
			vpAssert(e.kind == 'o' && jnum(e.get("k"), int64(src.keys[i])) && e.get("v") != nil && e.get("v").str == src.vs[i], "list entries in order with their content")
		}
	}
	el := root.get(name("el"))
	vpAssert((el != nil) == src.hasEl, "empty list present iff it exists")
	if el != nil {
		vpAssert(el.kind == 'a' && len(el.vals) == 0, "an empty list is []")
	}
	vpCover("reached")
}

func vpChooseSame(d float64) int {
	switch d {
	case 0:
		return 0
	case 1.5:
		return 1
	case -2.25:
		return 2
	}
	return 3
}

//vp:setup S_c15
func H_C15_wtr_compact(s any) { c15Check(s.(*meta.Module), false, false, false) }

//vp:setup S_c15
func H_C15_wtr_pretty_qualified(s any) { c15Check(s.(*meta.Module), true, true, false) }

//vp:setup S_c15
func H_C15_wtr_enum_ids(s any) { c15Check(s.(*meta.Module), false, false, true) }

// start selections other than the root: container, list, list entry
//
//vp:setup S_c15
func H_C15_wtr_start_selection(s any) {
	m := s.(*meta.Module)
	st := newMemStore()
	st.quiet = true
	c := st.root.ensureKid(st, "c")
	sv := c15Text(1)
	c.leaves["s"] = val.String(sv)
	l := st.root.ensureList(st, "l")
	for i := 0; i < 2; i++ {
		row := l.addRow(st, val.UInt8(uint8(i)))
		row.leaves["k"] = val.UInt8(uint8(i))
		row.leaves["v"] = val.String(c15Text(1))
	}
	paths := []string{"c", "l", "l=1"}
	pi := vpChoose(len(paths))
	sel, err := node.NewBrowser(m, st.node()).Root().Find(paths[pi])
	vpAssert(err == nil && sel != nil, "selection found")
	var buf bytes.Buffer
	wtr := &JSONWtr{Out: &buf, Pretty: vpBool()}
	vpAssert(sel.UpsertInto(wtr.Node()) == nil, "writing succeeds")
	root, ok := jparse(buf.String())
	vpAssert(ok && root.kind == 'o', "exactly one well-formed JSON object whatever the start selection")
	switch pi {
	case 0:
		vpAssert(root.get("s") != nil && root.get("s").str == sv, "container content")
	case 1:
		arr := root.get("l")
		vpAssert(arr != nil && arr.kind == 'a' && len(arr.vals) == 2, "a list selection writes {\"l\":[...]}")
	case 2:
		vpAssert(jnum(root.get("k"), 1), "a list entry selection writes the entry object")
	}
	vpCover("reached")
}

// an output stream error is returned, not lost
type c15FailWriter struct {
	n, failAt int
	failed    bool
}

var errC15Write = errors.New("vp write failure")

func (w *c15FailWriter) Write(p []byte) (int, error) {
	w.n++
	if w.n == w.failAt {
		w.failed = true
		return 0, errC15Write
	}
	return len(p), nil
}

//vp:setup S_c15
func H_C15_wtr_stream_error(s any) {
	m := s.(*meta.Module)
	st := newMemStore()
	st.quiet = true
	c := st.root.ensureKid(st, "c")
	c.leaves["s"] = val.String("abc")
	st.root.leaves["top"] = val.String("t")
	l := st.root.ensureList(st, "l")
	big := vpBool() // more than one bufio buffer: the failing Write can be an intermediate flush or the final one
	for i := 0; i < 2; i++ {
		row := l.addRow(st, val.UInt8(uint8(i)))
		row.leaves["k"] = val.UInt8(uint8(i))
		if big {
			row.leaves["v"] = val.String(strings.Repeat("x", 3000))
		} else {
			row.leaves["v"] = val.String("v")
		}
	}
	if big {
		c.leaves["s"] = val.String(strings.Repeat("y", 5000))
	}
	paths := []string{"", "c", "l", "l=1"}
	sel := node.NewBrowser(m, st.node()).Root()
	if pi := vpChoose(len(paths)); pi > 0 {
		var ferr error
		sel, ferr = sel.Find(paths[pi])
		vpAssert(ferr == nil && sel != nil, "selection found")
	}
	fw := &c15FailWriter{failAt: 1 + vpChoose(3)}
	wtr := &JSONWtr{Out: fw, Pretty: vpBool()}
	err := sel.UpsertInto(wtr.Node())
	if fw.failed {
		vpAssert(err != nil && errors.Is(err, errC15Write), "an output stream error is returned whatever the start selection and whichever Write fails")
	} else {
		vpAssert(err == nil, "no failure, no error")
	}
	if fw.failAt == 1 {
		vpAssert(fw.failed, "the first Write always happens")
	}
	vpCover("reached")
}

// member names when three modules contribute to one tree: a grouping from an imported module, nodes augmented
// by another module (a list, a leaf, a leaf inside the foreign grouping's container). The expected name of every
// member is derived here from the schema alone: qualified at the top level and wherever the defining module differs
// from that of the enclosing node.
func c15xOpener(name string, ext string) (io.Reader, error) {
	switch name {
	case "gmod":
		return strings.NewReader(`module gmod { namespace "urn:g"; prefix g; grouping bg { container gc { leaf gx { type string; } } leaf-list gl { type string; } } }`), nil
	case "m":
		return strings.NewReader(`module m { namespace "urn:m"; prefix m; import gmod { prefix g; } container c { uses g:bg { augment "gc" { leaf back { type string; } } } leaf own { type string; } list ml { key "k"; leaf k { type string; } } } leaf top { type string; } }`), nil
	case "ext":
		return strings.NewReader(`module ext { namespace "urn:e"; prefix e; import m { prefix m; }
			augment "/m:c" { list xl { key "k"; leaf k { type string; } leaf v { type string; } container xin { leaf y { type string; } } } leaf xleaf { type string; } }
			augment "/m:c/m:gc" { leaf deep { type string; } }
			augment "/m:c/m:ml" { leaf added { type string; } } }`), nil
	}
	return nil, nil
}

func S_c15x() any {
	e, err := parser.LoadModule(c15xOpener, "ext")
	if err != nil {
		panic(err)
	}
	return e.Imports()["m"].Module()
}

// c15xNames checks the member names of obj (the JSON object written for data tree t under schema node p).
func c15xNames(obj *jv, t *memTree, p meta.HasDataDefinitions, top bool, qualify bool) {
	vpAssert(obj != nil && obj.kind == 'o', "object expected")
	want := 0
	for _, d := range p.DataDefinitions() {
		id := d.Ident()
		name := id
		if qualify && (top || meta.OriginalModule(d) != meta.OriginalModule(p)) {
			name = meta.OriginalModule(d).Ident() + ":" + id
		}
		switch {
		case t.leaves[id] != nil:
			want++
			vpAssert(obj.get(name) != nil, "leaf member is named "+name)
		case t.kids[id] != nil:
			want++
			vpAssert(obj.get(name) != nil, "container member is named "+name)
			if obj.get(name) != nil {
				c15xNames(obj.get(name), t.kids[id], d.(meta.HasDataDefinitions), false, qualify)
			}
		case t.lists[id] != nil:
			want++
			arr := obj.get(name)
			vpAssert(arr != nil && arr.kind == 'a' && len(arr.vals) == len(t.lists[id].rows), "list member is named "+name)
			if arr != nil && arr.kind == 'a' && len(arr.vals) == len(t.lists[id].rows) {
				for i, r := range t.lists[id].rows {
					c15xNames(arr.vals[i], r.t, d.(meta.HasDataDefinitions), false, qualify)
				}
			}
		}
	}
	vpAssert(len(obj.keys) == want, "no other members")
}

//vp:setup S_c15x
func H_C15_wtr_names_three_modules(s any) {
	m := s.(*meta.Module)
	st := newMemStore()
	st.quiet = true
	st.root.leaves["top"] = val.String("t")
	c := st.root.ensureKid(st, "c")
	c.leaves["own"] = val.String("o")
	if vpBool() {
		gc := c.ensureKid(st, "gc")
		gc.leaves["gx"] = val.String("x")
		gc.leaves["back"] = val.String("bk") // defined by m inside gmod's container inside m's container
		if vpBool() {
			gc.leaves["deep"] = val.String("d")
		}
	}
	if vpBool() {
		c.leaves["gl"] = val.StringList([]string{"a", "b"})
	}
	if vpBool() {
		c.leaves["xleaf"] = val.String("xl")
	}
	if vpBool() {
		xl := c.ensureList(st, "xl")
		n := 1 + vpChoose(2)
		for i := 0; i < n; i++ {
			k := string(rune('a' + i))
			row := xl.addRow(st, val.String(k))
			row.leaves["k"] = val.String(k)
			row.leaves["v"] = val.String("v")
			if i == 0 {
				row.ensureKid(st, "xin").leaves["y"] = val.String("y")
			}
		}
	}
	if vpBool() {
		row := c.ensureList(st, "ml").addRow(st, val.String("k"))
		row.leaves["k"] = val.String("k")
		row.leaves["added"] = val.String("a")
	}
	qualify := vpBool()
	fromC := vpBool()
	sel := node.NewBrowser(m, st.node()).Root()
	var p meta.HasDataDefinitions = m
	t := st.root
	if fromC {
		var err error
		sel, err = sel.Find("c")
		vpAssert(err == nil && sel != nil, "c found")
		p = meta.Find(m, "c").(meta.HasDataDefinitions)
		t = c
	}
	var buf bytes.Buffer
	wtr := &JSONWtr{Out: &buf, Pretty: vpBool(), QualifyNamespace: qualify}
	vpAssert(sel.UpsertInto(wtr.Node()) == nil, "writing succeeds")
	root, ok := jparse(buf.String())
	vpAssert(ok && root.kind == 'o', "one well-formed object")
	if ok && root.kind == 'o' {
		c15xNames(root, t, p, !fromC, qualify)
	}
	vpCover("reached")
}
