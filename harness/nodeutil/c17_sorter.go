package nodeutil

import (
	"sort"

	"github.com/freeconf/yang/val"
)

// C17 (second sentence): a key index built with sort.Sort over CompareVals and
// searched with sort.Search finds exactly the entry whose key equals the
// requested key, and nothing when there is none.

func sorterN() int {
	if vpTier() > 0 {
		return 5
	}
	return 4
}

func sorterCheck(mk func() val.Value, eq func(a, b val.Value) bool) {
	n := sorterN()
	entries := make(sliceSorter, n)
	for i := range entries {
		entries[i].pos = i
		entries[i].key = []val.Value{mk()}
	}
	// keys of one list are distinct
	for i := 0; i < n; i++ {
		for j := i + 1; j < n; j++ {
			vpAssume(!eq(entries[i].key[0], entries[j].key[0]))
		}
	}
	orig := make([]val.Value, n)
	for i := range entries {
		orig[i] = entries[i].key[0]
	}
	sort.Sort(entries)
	look := mk()
	_, pos := entries.find([]val.Value{look})
	want := -1
	for i := 0; i < n; i++ {
		if eq(orig[i], look) {
			want = i
		}
	}
	vpAssert(pos == want, "find returns the entry with the equal key, or none")
	vpCover("reached")
}

func H_C17_sorter_uint8() {
	sorterCheck(func() val.Value { return val.UInt8(vpUint8()) },
		func(a, b val.Value) bool { return a.(val.UInt8) == b.(val.UInt8) })
}

func H_C17_sorter_int8() {
	sorterCheck(func() val.Value { return val.Int8(vpInt8()) },
		func(a, b val.Value) bool { return a.(val.Int8) == b.(val.Int8) })
}

func H_C17_sorter_int64() {
	sorterCheck(func() val.Value { return val.Int64(vpInt64()) },
		func(a, b val.Value) bool { return a.(val.Int64) == b.(val.Int64) })
}

func H_C17_sorter_uint64() {
	sorterCheck(func() val.Value { return val.UInt64(vpUint64()) },
		func(a, b val.Value) bool { return a.(val.UInt64) == b.(val.UInt64) })
}

func H_C17_sorter_string() {
	sorterCheck(func() val.Value { return val.String(vpString(1)) },
		func(a, b val.Value) bool { return a.(val.String) == b.(val.String) })
}
