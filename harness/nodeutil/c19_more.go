package nodeutil

import (
	"github.com/freeconf/yang/meta"
	"github.com/freeconf/yang/node"
	"github.com/freeconf/yang/parser"
	"github.com/freeconf/yang/val"
)

// C19, further: white space in every kind of value that can be a string (leaf-list elements, union and leafref
// values, list keys), choices nested in cases, and the text writer XMLWtr next to the tree writer XMLWtr2.

const c19bYang = `module m { namespace "urn:m"; prefix m; revision 2020-01-01;
	leaf s { type string; }
	leaf-list sl { type string; }
	leaf u { type union { type int32; type string; } }
	leaf target { type string; }
	leaf ref { type leafref { path "../target"; } }
	leaf n { type int32; }
	list l { key "k"; leaf k { type string; } leaf v { type string; } }
	choice outer { case oc { leaf plain { type string; } choice inner { case ic { leaf in1 { type string; } } case ic2 { container in2 { leaf y { type string; } } } } } case other { leaf o { type string; } } }
}`

func S_c19b() any {
	m, err := parser.LoadModuleFromString(nil, c19bYang)
	if err != nil {
		panic(err)
	}
	return m
}

// c19Blanks: a value with symbolic leading / trailing / inner white space
func c19Blanks() string {
	ws := []string{"", " ", "\n", "\t ", "  "}
	return ws[vpChoose(len(ws))] + "a" + ws[vpChoose(len(ws))] + "b" + ws[vpChoose(len(ws))]
}

//vp:setup S_c19b
func H_C19_whitespace_in_values(s any) {
	m := s.(*meta.Module)
	src := newMemStore()
	src.quiet = true
	t := c19Blanks()
	kind := vpChoose(6)
	switch kind {
	case 0:
		src.root.leaves["s"] = val.String(t)
	case 1:
		src.root.leaves["sl"] = val.StringList([]string{t, "z"})
	case 2:
		src.root.leaves["u"] = val.String(t)
	case 3:
		src.root.leaves["target"] = val.String(t)
		src.root.leaves["ref"] = val.String(t)
	case 4:
		l := src.root.ensureList(src, "l")
		keys := []string{t}
		if t != "ab" {
			keys = append(keys, "ab") // a second entry whose key differs only in white space
		}
		for _, k := range keys {
			row := l.addRow(src, val.String(k))
			row.leaves["k"] = val.String(k)
			row.leaves["v"] = val.String("v")
		}
	case 5:
		src.root.leaves["n"] = val.Int32(7)
	}
	w := &XMLWtr2{ns: "urn:m"}
	w.XMLName.Local = "m"
	w.XMLName.Space = "urn:m"
	vpAssert(node.NewBrowser(m, src.node()).Root().UpsertInto(w) == nil, "export into the XML writer succeeds")
	dst := newMemStore()
	dst.quiet = true
	err := node.NewBrowser(m, dst.node()).Root().UpsertFrom(c19Copy(w, ""))
	vpAssert(err == nil, "reading the element tree back succeeds")
	what := []string{"string leaf", "string leaf-list element", "union value", "leafref value", "list key", "number"}[kind]
	vpAssertK("C19-trimmed-values", true, treeEqU(dst.root, src.root), "text content is restored exactly, white space included: "+what)
	vpCover("reached")
}

// a choice nested in a case of another choice
//
//vp:setup S_c19b
func H_C19_nested_choice(s any) {
	m := s.(*meta.Module)
	src := newMemStore()
	src.quiet = true
	switch vpChoose(5) {
	case 0:
		src.root.leaves["in1"] = val.String("I1")
	case 1:
		src.root.ensureKid(src, "in2").leaves["y"] = val.String("I2")
	case 2:
		src.root.leaves["plain"] = val.String("P")
		src.root.leaves["in1"] = val.String("I1")
	case 3:
		src.root.leaves["o"] = val.String("O")
	case 4:
		src.root.leaves["plain"] = val.String("P")
	}
	viaJSON := vpBool()
	dst := newMemStore()
	dst.quiet = true
	var err error
	if viaJSON {
		doc := map[string]interface{}{}
		for k, v := range src.root.leaves {
			doc[k] = v.String()
		}
		if src.root.kids["in2"] != nil {
			doc["in2"] = map[string]interface{}{"y": "I2"}
		}
		rdr, rerr := ReadJSONValues(doc)
		vpAssert(rerr == nil, "reader")
		err = node.NewBrowser(m, dst.node()).Root().UpsertFrom(rdr)
	} else {
		w := &XMLWtr2{ns: "urn:m"}
		w.XMLName.Local = "m"
		w.XMLName.Space = "urn:m"
		vpAssert(node.NewBrowser(m, src.node()).Root().UpsertInto(w) == nil, "export into the XML writer succeeds")
		err = node.NewBrowser(m, dst.node()).Root().UpsertFrom(c19Copy(w, ""))
	}
	vpAssert(err == nil, "reading back succeeds")
	vpAssertK("C04-nested-choice-dropped", true, treeEqU(dst.root, src.root), "data inside a choice nested in a case of another choice comes back")
	vpCover("reached")
}
