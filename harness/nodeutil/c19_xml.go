package nodeutil

import (
	"github.com/freeconf/yang/meta"
	"github.com/freeconf/yang/node"
	"github.com/freeconf/yang/parser"
	"github.com/freeconf/yang/val"
)

// C19 (tree level): data tree -> XMLWtr2 element tree -> (structural copy
// standing in for the reflection-driven encoder + decoder) -> XmlNode -> data
// tree is the identity. The copy gives an element without an explicit
// namespace its parent's namespace, as XML does.

const c19Yang = `module m { namespace "urn:m"; prefix m; revision 2020-01-01;
	container c {
		leaf s { type string; }
		leaf n { type int32; }
		leaf b { type boolean; }
		leaf e { type enumeration { enum zero; enum one; } }
		leaf-list ll { type string; }
		container in { leaf x { type string; } }
	}
	list l { key "k"; leaf k { type string; } leaf v { type string; } }
	leaf top { type string; }
}`

func S_c19() any {
	m, err := parser.LoadModuleFromString(nil, c19Yang)
	if err != nil {
		panic(err)
	}
	return m
}

// c19Copy converts the writer's element tree into the reader's, as encode+decode would.
func c19Copy(w *XMLWtr2, parentNs string) *XmlNode {
	n := &XmlNode{}
	n.XMLName.Local = w.XMLName.Local
	n.XMLName.Space = w.XMLName.Space
	if n.XMLName.Space == "" {
		n.XMLName.Space = parentNs
	}
	n.Content = []byte(w.Content)
	for _, e := range w.Elem {
		n.Nodes = append(n.Nodes, c19Copy(e, n.XMLName.Space))
	}
	return n
}

func c19Text(n int) string {
	t := vpString(n)
	for i := 0; i < len(t); i++ {
		vpAssume(t[i] >= 0x20 && t[i] < 0x7f)
	}
	return t
}

//vp:setup S_c19
func H_C19_xml_tree_roundtrip(s any) {
	m := s.(*meta.Module)
	src := newMemStore()
	src.quiet = true
	sv := c19Text(2)
	c := src.root.ensureKid(src, "c")
	c.leaves["s"] = val.String(sv)
	c.leaves["n"] = val.Int32([]int32{-5, 0, 77}[vpChoose(3)])
	c.leaves["b"] = val.Bool(vpBool())
	ei := vpChoose(2)
	c.leaves["e"] = val.Enum{Id: ei, Label: []string{"zero", "one"}[ei]}
	c.leaves["ll"] = val.StringList([]string{"p", "q", "r"})
	if vpBool() {
		c.ensureKid(src, "in").leaves["x"] = val.String("xv")
	}
	l := src.root.ensureList(src, "l")
	for i := 0; i < vpChoose(3); i++ {
		k := []string{"k1", "k2"}[i]
		row := l.addRow(src, val.String(k))
		row.leaves["k"] = val.String(k)
		row.leaves["v"] = val.String("v" + k)
	}
	src.root.leaves["top"] = val.String("t")

	w := &XMLWtr2{ns: "urn:m"}
	w.XMLName.Local = "m"
	w.XMLName.Space = "urn:m"
	vpAssert(node.NewBrowser(m, src.node()).Root().UpsertInto(w) == nil, "export into the XML writer succeeds")
	rdr := c19Copy(w, "")
	dst := newMemStore()
	dst.quiet = true
	err := node.NewBrowser(m, dst.node()).Root().UpsertFrom(rdr)
	vpAssert(err == nil, "reading the element tree back succeeds")
	got := dst.root.kids["c"]
	vpAssert(got != nil, "container read back")
	if got == nil {
		return
	}
	gs := got.leaves["s"]
	// leading / trailing blanks of the text
	hasEdgeSpace := len(sv) > 0 && (sv[0] == ' ' || sv[len(sv)-1] == ' ')
	vpAssertK("C19-content-trim", hasEdgeSpace || len(sv) == 0, gs != nil && gs.String() == sv, "text content is restored exactly")
	// everything else
	delete(got.leaves, "s")
	delete(src.root.kids["c"].leaves, "s")
	if len(src.root.lists["l"].rows) == 0 {
		delete(src.root.lists, "l") // an empty list leaves no element behind
	}
	vpAssert(treeEqU(dst.root, src.root), "every other leaf, leaf-list order, nested container and list entry order survives")
	vpCover("reached")
}

// on input the elements of a list may be interleaved with their siblings
//
//vp:setup S_c19
func H_C19_xmlnode_interleaved(s any) {
	m := s.(*meta.Module)
	mk := func(local, content string, kids ...*XmlNode) *XmlNode {
		n := &XmlNode{Content: []byte(content), Nodes: kids}
		n.XMLName.Local = local
		n.XMLName.Space = "urn:m"
		return n
	}
	e1 := mk("l", "", mk("k", "k1"), mk("v", "a"))
	e2 := mk("l", "", mk("k", "k2"), mk("v", "b"))
	top := mk("top", "t")
	cc := mk("c", "", mk("ll", "p"), mk("s", "sv"), mk("ll", "q"))
	orders := [][]*XmlNode{{e1, e2, top, cc}, {e1, top, e2, cc}, {top, e1, cc, e2}, {cc, e1, top, e2}, {e1, cc, e2, top}}
	root := mk("m", "", orders[vpChoose(len(orders))]...)
	dst := newMemStore()
	dst.quiet = true
	err := node.NewBrowser(m, dst.node()).Root().UpsertFrom(root)
	vpAssert(err == nil, "interleaved document reads")
	l := dst.root.lists["l"]
	vpAssert(l != nil && len(l.rows) == 2 && l.rows[0].key[0].String() == "k1" && l.rows[1].key[0].String() == "k2", "list entries found wherever they stand, in document order")
	vpAssert(l.rows[0].t.leaves["v"].String() == "a" && l.rows[1].t.leaves["v"].String() == "b", "entry content")
	ll := dst.root.kids["c"].leaves["ll"]
	vpAssert(ll != nil && ll.String() != "" && len(ll.Value().([]string)) == 2 && ll.Value().([]string)[0] == "p" && ll.Value().([]string)[1] == "q", "leaf-list elements interleaved with a sibling keep their order")
	vpAssert(dst.root.leaves["top"].String() == "t", "sibling leaf")
	vpCover("reached")
}

// two modules contribute to one tree: a grouping imported from gmod, and an augment of the using module inside
// the grouping's container (namespaces alternate urn:m -> urn:g -> urn:m): every node comes back
func S_c19x() any {
	m, err := parser.LoadModule(c15xOpener, "m")
	if err != nil {
		panic(err)
	}
	return m
}

//vp:setup S_c19x
func H_C19_xml_tree_two_modules(s any) {
	m := s.(*meta.Module)
	src := newMemStore()
	src.quiet = true
	src.root.leaves["top"] = val.String("t")
	c := src.root.ensureKid(src, "c")
	c.leaves["own"] = val.String("o")
	if vpBool() {
		gc := c.ensureKid(src, "gc")
		if vpBool() {
			gc.leaves["gx"] = val.String("x")
		}
		if vpBool() {
			gc.leaves["back"] = val.String("bk")
		}
	}
	if vpBool() {
		c.leaves["gl"] = val.StringList([]string{"a", "b"})
	}
	if vpBool() {
		row := c.ensureList(src, "ml").addRow(src, val.String("k"))
		row.leaves["k"] = val.String("k")
	}
	w := &XMLWtr2{ns: "urn:m"}
	w.XMLName.Local = "m"
	w.XMLName.Space = "urn:m"
	vpAssert(node.NewBrowser(m, src.node()).Root().UpsertInto(w) == nil, "export into the XML writer succeeds")
	rdr := c19Copy(w, "")
	dst := newMemStore()
	dst.quiet = true
	err := node.NewBrowser(m, dst.node()).Root().UpsertFrom(rdr)
	vpAssert(err == nil, "reading the element tree back succeeds")
	vpAssert(treeEqU(dst.root, src.root), "element names and namespaces select the right schema nodes, nodes of other modules included")
	vpCover("reached")
}
