package nodeutil

import (
	"bytes"
	"errors"
	"strings"
	"sync"

	"github.com/freeconf/yang/meta"
	"github.com/freeconf/yang/node"
	"github.com/freeconf/yang/parser"
	"github.com/freeconf/yang/val"
)

// C20, decided by non-interference instead of interleavings: two operations
// that write no shared location cannot race and cannot influence each other.
// Everything allocated before vpCheckpoint() - the compiled module and all it
// reaches - and every package-level variable counts as shared; the engine logs
// each plain (non-atomic) store to such a location.

// restrictions with several alternatives, unions, references and conditions: everything a value passes through on its way in
const c20Extra = `
	identity base-id; identity kid-id { base base-id; }
	container t {
		leaf r { type int32 { range "0..5 | 10..20 | 100..max"; } }
		leaf ln { type string { length "1..2 | 4"; pattern "[a-z]*"; } }
		leaf-list rl { type uint8 { range "1..3 | 9"; } }
		leaf un { type union { type uint8 { range "0..9 | 50..60"; } type string { length "3 | 5"; } } }
		leaf idr { type identityref { base base-id; } }
		leaf lr { type leafref { path "../r"; } }
		leaf w { when "r>3"; type string; }
		leaf d64 { type decimal64 { fraction-digits 1; range "0..1 | 5.5..9.5"; } }
		leaf bits { type bits { bit b0; bit b1; } }
	}
`

func S_c20() any {
	m, err := parser.LoadModuleFromString(nil, c04Yang[:strings.LastIndex(c04Yang, "}")]+c20Extra+"}")
	if err != nil {
		panic(err)
	}
	return m
}

func c20Data(st *memStore) {
	c := st.root.ensureKid(st, "c")
	c.leaves["s"] = val.String(c04Text(1))
	c.leaves["u"] = val.UInt8(7)
	c.leaves["b"] = val.Bool(vpBool())
	c.leaves["ll"] = val.UInt8List([]uint8{1, 2})
	c.ensureKid(st, "in").leaves["x"] = val.String("xv")
	c.leaves["a1"] = val.String("av")
	l := st.root.ensureList(st, "l")
	for i := 0; i < 2; i++ {
		row := l.addRow(st, val.UInt8(uint8(i)))
		row.leaves["k"] = val.UInt8(uint8(i))
		row.leaves["v"] = val.String("v")
	}
	st.root.leaves["top"] = val.String("t")
}

// R_C20_use: export, JSON write, find and upsert from 8 goroutines over ONE shared compiled module
func R_C20_use() {
	m := S_c20().(*meta.Module)
	var wg sync.WaitGroup
	for i := 0; i < 8; i++ {
		wg.Add(1)
		go func(i int) {
			defer wg.Done()
			for j := 0; j < 30; j++ {
				data := map[string]interface{}{"c": map[string]interface{}{"s": "x", "u": 3}, "l": []map[string]interface{}{{"k": 1, "v": "a"}}, "top": "t",
					"t": map[string]interface{}{"r": 150, "ln": "abcd", "un": 55, "d64": 6.5}}
				b := node.NewBrowser(m, ReflectChild(data))
				WriteJSON(b.Root())
				if sel, err := b.Root().Find("c?depth=1"); err == nil && sel != nil {
					WriteJSON(sel)
				}
				rdr, _ := ReadJSON(`{"c":{"s":"y"},"t":{"r":15,"un":"abcde","rl":[9,1],"ln":"ab","d64":9.5}}`)
				b.Root().UpsertFrom(rdr)
				if sel, err := b.Root().Find("t/r"); err == nil && sel != nil {
					sel.SetValue(100 + i + j)
				}
			}
		}(i)
	}
	wg.Wait()
}

//vp:setup S_c20
//vp:race R_C20_use
func H_C20_use_writes_nothing_shared(s any) {
	m := s.(*meta.Module)
	vpCheckpoint()
	src := newMemStore()
	src.quiet = true
	c20Data(src)
	b := node.NewBrowser(m, src.node())
	var err error
	what := ""
	switch vpChoose(11) {
	case 9:
		what = "validated edit"
		r := vpInt32()
		vpAssume((r >= 0 && r <= 5) || (r >= 10 && r <= 20) || r >= 100) // any alternative of the range
		t := src.root.ensureKid(src, "t")
		t.leaves["r"] = val.Int32(r)
		t.leaves["ln"] = val.String([]string{"a", "ab", "abcd"}[vpChoose(3)])
		t.leaves["rl"] = val.UInt8List([]uint8{[]uint8{1, 3, 9}[vpChoose(3)], 2})
		t.leaves["lr"] = val.Int32(r)
		t.leaves["w"] = val.String("wv")
		t.leaves["idr"] = val.IdentRef{Label: "kid-id"}
		dst := newMemStore()
		dst.quiet = true
		err = node.NewBrowser(m, dst.node()).Root().UpsertFrom(src.node())
	case 10:
		what = "set values that match a later alternative"
		var sel *node.Selection
		sel, err = b.Root().Find("t")
		if err == nil && sel == nil {
			src.root.ensureKid(src, "t")
			sel, err = b.Root().Find("t")
		}
		if err == nil && sel != nil {
			u := vpUint8()
			vpAssume(u <= 9 || (u >= 50 && u <= 60))
			switch vpChoose(5) {
			case 0:
				err = c20Set(sel, "un", u)
			case 1:
				err = c20Set(sel, "un", []string{"abc", "abcde"}[vpChoose(2)])
			case 2:
				err = c20Set(sel, "r", 150)
			case 3:
				err = c20Set(sel, "d64", []float64{0.5, 6.5, 9.5}[vpChoose(3)])
			case 4:
				err = c20Set(sel, "rl", []uint8{9, 1})
			}
		}
	case 0:
		what = "export"
		out := newMemStore()
		out.quiet = true
		err = b.Root().UpsertInto(out.node())
	case 1:
		what = "upsert"
		dst := newMemStore()
		dst.quiet = true
		err = node.NewBrowser(m, dst.node()).Root().UpsertFrom(src.node())
	case 2:
		what = "find with query parameters"
		qs := []string{"c?depth=1", "c?fields=s%3Bin/x", "l=1?content=config", "?fc.range=l!0-1&with-defaults=trim", "c/in?fc.xfields=x", "?fc.max-node-count=50"}
		var sel *node.Selection
		sel, err = b.Root().Find(qs[vpChoose(len(qs))])
		if err == nil && sel != nil {
			out := newMemStore()
			out.quiet = true
			if meta.IsList(sel.Meta()) && !sel.InsideList {
				err = sel.UpsertInto(&memNode{s: out, l: out.root.ensureList(out, "l")})
			} else {
				err = sel.UpsertInto(&memNode{s: out, t: out.newTree()})
			}
		}
	case 3:
		what = "JSON write"
		var buf bytes.Buffer
		wtr := &JSONWtr{Out: &buf, Pretty: vpBool(), QualifyNamespace: vpBool()}
		err = b.Root().UpsertInto(wtr.Node())
	case 4:
		what = "XML tree write"
		w := &XMLWtr2{ns: "urn:m"}
		err = b.Root().UpsertInto(w)
	case 5:
		what = "JSON read"
		rdr, _ := ReadJSONValues(map[string]interface{}{"c": map[string]interface{}{"s": "x", "u": float64(3), "ll": []interface{}{float64(1)}}, "l": []interface{}{map[string]interface{}{"k": float64(5), "v": "y"}}})
		dst := newMemStore()
		dst.quiet = true
		err = node.NewBrowser(m, dst.node()).Root().UpsertFrom(rdr)
	case 6:
		what = "delete and replace"
		sel, ferr := b.Root().Find("l=1")
		if ferr == nil && sel != nil {
			err = sel.Delete()
		}
	case 7:
		what = "set and get"
		sel, ferr := b.Root().Find("c/u")
		if ferr == nil && sel != nil {
			err = sel.SetValue(9)
			_, _ = sel.Get()
		}
	case 8:
		what = "where"
		sel, ferr := b.Root().Find("l?where=k%3E0")
		if ferr == nil && sel != nil {
			out := newMemStore()
			out.quiet = true
			err = sel.UpsertInto(&memNode{s: out, l: out.root.ensureList(out, "l")})
		}
	}
	vpAssert(err == nil, what+": operation succeeds")
	n := vpSharedWrites()
	vpAssert(n == 0, what+": using a compiled module writes to no shared location (first: "+vpSharedWriteAt(0)+")")
	vpCover("reached")
}

const c20LoadText = `module m { namespace "urn:m"; prefix p; revision 2020-01-01; feature f; identity i1; typedef t { type int32; default 5; }
		grouping g { leaf a { type t; } container in { leaf b { type string; } } }
		container c { uses g; choice ch { case x { leaf x1 { type string; } } } } container d { uses g { refine a { default 6; } } if-feature "f"; }
		augment "/c" { leaf z { type enumeration { enum one; enum two; } } } rpc r { input { uses g; } } }`

// R_C20_load: the same load from 8 goroutines (native only, run under the race detector
// to confirm what the shared-write monitor reports)
func R_C20_load() {
	var wg sync.WaitGroup
	for i := 0; i < 8; i++ {
		wg.Add(1)
		go func() {
			defer wg.Done()
			for j := 0; j < 40; j++ {
				parser.LoadModuleFromString(nil, c20LoadText)
			}
		}()
	}
	wg.Wait()
}

// loading a module neither reads result-relevant nor writes process-wide state
//
//vp:race R_C20_load
func H_C20_load_touches_no_global() {
	// a first load warms nothing up that a second one may rely on
	vpCheckpoint()
	const text = c20LoadText
	m1, err1 := parser.LoadModuleFromString(nil, text)
	n1 := vpSharedWrites()
	vpAssertK("C20-uid-global", true, n1 == 0, "loading a module writes to no process-wide location (first: "+vpSharedWriteAt(0)+")")
	m2, err2 := parser.LoadModuleFromString(nil, text)
	vpAssert(err1 == nil && err2 == nil, "loads succeed")
	vpAssert(vpSharedWrites() == n1 || vpKnownStatus("C20-uid-global"), "a second load writes to no process-wide location either")
	_ = m1
	_ = m2
	vpCover("reached")
}

func c20Set(sel *node.Selection, leaf string, v interface{}) error {
	l, err := sel.Find(leaf)
	if err != nil {
		return err
	}
	if l == nil {
		return errors.New("leaf not found")
	}
	return l.SetValue(v)
}
