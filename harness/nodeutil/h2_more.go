package nodeutil

import (
	"bytes"
	"io"
	"math"
	"strings"

	"github.com/freeconf/yang/meta"
	"github.com/freeconf/yang/node"
	"github.com/freeconf/yang/parser"
	"github.com/freeconf/yang/val"
)

// Cases taken from the second wave of hunts (hunted/C15): typed values a node may hand to the JSON writer, and
// qualification with submodules, with start selections below the root, and with same-named identities.

func h2xOpener(name string, ext string) (io.Reader, error) {
	switch name {
	case "sub":
		return strings.NewReader(`submodule sub { belongs-to main { prefix m; } container sc { leaf a { type string; } } leaf insub { type string; } }`), nil
	case "ida":
		return strings.NewReader(`module ida { namespace "urn:a"; prefix a; identity base; identity x { base base; } }`), nil
	case "idb":
		return strings.NewReader(`module idb { namespace "urn:b"; prefix b; import ida { prefix a; } identity x { base a:base; } identity y { base a:base; } }`), nil
	}
	return nil, nil
}

func S_h2x() any {
	m, err := parser.LoadModuleFromString(h2xOpener, `module main { namespace "urn:m"; prefix m; include sub; import ida { prefix a; } import idb { prefix b; }
		identity x { base a:base; } identity y { base b:y; }
		leaf inmain { type string; } augment "/sc" { leaf b { type string; } }
		leaf-list bl { type binary; } leaf d { type decimal64 { fraction-digits 2; } } leaf-list dl { type decimal64 { fraction-digits 2; } }
		container c { leaf s { type string; } list el { key k; leaf k { type string; } } leaf mine { type identityref { base a:base; } } leaf id1 { type identityref { base a:base; } } }
		list top { key k; leaf k { type string; } }
		leaf after { type string; } }`)
	if err != nil {
		panic(err)
	}
	return m
}

//vp:setup S_h2x
func H_C15_typed_values_from_a_node(s any) {
	m := s.(*meta.Module)
	st := newMemStore()
	st.quiet = true
	st.root.leaves["after"] = val.String("x")
	kind := vpChoose(5)
	id := []string{"binary-list", "decimal64-inf", "decimal64-nan-in-list", "decimal64-ok", "binary-list-empty"}[kind]
	switch kind {
	case 0:
		st.root.leaves["bl"] = val.BinaryList{[]byte{0, 1, 2}, []byte{255}}
	case 1:
		st.root.leaves["d"] = val.Decimal64(math.Inf(1 - 2*vpChoose(2)))
	case 2:
		st.root.leaves["dl"] = val.Decimal64List{math.NaN(), 1.5}
	case 3:
		st.root.leaves["d"] = val.Decimal64(1.5)
		st.root.leaves["dl"] = val.Decimal64List{0.25, 1.5}
	case 4:
		st.root.leaves["bl"] = val.BinaryList{}
	}
	var buf bytes.Buffer
	wtr := &JSONWtr{Out: &buf, Pretty: vpBool()}
	var err error
	p := vpCatch(func() { err = node.NewBrowser(m, st.node()).Root().UpsertInto(wtr.Node()) })
	vpAssertK("C15-h2-"+id, true, !p, id+": writing returns")
	if p || err != nil {
		vpCover("reached")
		return // an error is an acceptable answer for a value that is no value of the type
	}
	root, ok := jparse(buf.String())
	vpAssertK("C15-h2-"+id, true, ok && root.kind == 'o', id+": what is written without an error is one well-formed JSON value")
	if ok && kind == 0 {
		bl := root.get("bl")
		vpAssertK("C15-h2-"+id, true, bl != nil && bl.kind == 'a' && len(bl.vals) == 2 && bl.vals[0].kind == 's' && bl.vals[0].str == "AAEC" && bl.vals[1].str == "/w==", "a binary leaf-list is an array of base64 strings")
	}
	vpCover("reached")
}

//vp:setup S_h2x
func H_C15_qualification_more(s any) {
	m := s.(*meta.Module)
	st := newMemStore()
	st.quiet = true
	st.root.leaves["inmain"] = val.String("x")
	st.root.leaves["insub"] = val.String("y")
	sc := st.root.ensureKid(st, "sc")
	sc.leaves["a"] = val.String("A")
	sc.leaves["b"] = val.String("B")
	c := st.root.ensureKid(st, "c")
	c.leaves["s"] = val.String("S")
	el := c.ensureList(st, "el").addRow(st, val.String("1"))
	el.leaves["k"] = val.String("1")
	c.leaves["mine"] = val.IdentRef{Label: "y"}
	c.leaves["id1"] = val.IdentRef{Label: "x"}
	tp := st.root.ensureList(st, "top").addRow(st, val.String("1"))
	tp.leaves["k"] = val.String("1")
	starts := []string{"", "c", "c/el", "c/el=1", "top=1", "top", "sc"}
	si := vpChoose(len(starts))
	sel := node.NewBrowser(m, st.node()).Root()
	if si > 0 {
		var ferr error
		sel, ferr = sel.Find(starts[si])
		vpAssert(ferr == nil && sel != nil, "start selection found")
	}
	var buf bytes.Buffer
	wtr := &JSONWtr{Out: &buf, QualifyNamespace: true}
	vpAssert(sel.UpsertInto(wtr.Node()) == nil, "writing succeeds")
	root, ok := jparse(buf.String())
	vpAssert(ok && root.kind == 'o', "one well-formed object")
	if !ok {
		return
	}
	switch si {
	case 0:
		vpAssert(root.get("main:inmain") != nil, "top-level member of the module")
		vpAssertK("C15-h2-submodule-qualifier", true, root.get("main:insub") != nil && root.get("main:sc") != nil, "nodes defined in a submodule are qualified with the name of the module it belongs to")
		if g := root.get("main:sc"); g != nil {
			vpAssertK("C15-h2-submodule-qualifier", true, g.get("a") != nil && g.get("b") != nil, "there is no module change between a submodule's container and the module's augment of it")
		}
		if g := root.get("main:c"); g != nil {
			vpAssertK("C15-h2-identityref-first-match", true, g.get("mine") != nil && g.get("mine").str == "y", "an identity of the leaf's own module is written unqualified (y of main, not y of idb)")
		}
	case 1:
		vpAssertK("C15-h2-start-below-root-unqualified", true, root.get("main:s") != nil && root.get("main:el") != nil, "every member of the top-level object is qualified, whatever the start selection (container)")
	case 2:
		vpAssertK("C15-h2-start-below-root-unqualified", true, root.get("main:el") != nil, "every member of the top-level object is qualified (nested list)")
	case 3, 4:
		vpAssertK("C15-h2-start-below-root-unqualified", true, root.get("main:k") != nil, "every member of the top-level object is qualified (list entry)")
	case 5:
		vpAssert(root.get("main:top") != nil, "a top-level list selection is qualified")
	case 6:
		vpAssertK("C15-h2-start-below-root-unqualified", true, root.get("main:a") != nil && root.get("main:b") != nil, "every member of the top-level object is qualified (container from a submodule)")
	}
	vpCover("reached")
}

// C08: Find by key on a JSON-backed tree, for keys that are not strings
func H_C08_json_source_keys() {
	m, err := parser.LoadModuleFromString(nil, `module m { namespace "urn:m"; prefix m; container top {
		list li { key k; leaf k { type int32; } leaf v { type string; } } list lb { key k; leaf k { type boolean; } leaf v { type string; } }
		list ls { key k; leaf k { type string; } leaf v { type string; } } list l2 { key "a b"; leaf a { type string; } leaf b { type uint8; } leaf v { type string; } } } }`)
	vpAssert(err == nil, "module loads")
	doc := map[string]interface{}{"top": map[string]interface{}{
		"li": []interface{}{map[string]interface{}{"k": float64(7), "v": "seven"}, map[string]interface{}{"k": float64(-1), "v": "minus"}},
		"lb": []interface{}{map[string]interface{}{"k": true, "v": "t"}},
		"ls": []interface{}{map[string]interface{}{"k": "7", "v": "str"}},
		"l2": []interface{}{map[string]interface{}{"a": "x", "b": float64(3), "v": "two"}},
	}}
	paths := []string{"top/li=7", "top/li=-1", "top/li=8", "top/lb=true", "top/lb=false", "top/ls=7", "top/l2=x,3", "top/l2=x,4"}
	want := []string{"seven", "minus", "", "t", "", "str", "two", ""}
	i := vpChoose(len(paths))
	rdr, rerr := ReadJSONValues(doc)
	vpAssert(rerr == nil, "reader")
	var sel *node.Selection
	p := vpCatch(func() { sel, err = node.NewBrowser(m, rdr).Root().Find(paths[i]) })
	vpAssert(!p && err == nil, "Find returns")
	vpAssertK("C08-json-non-string-keys", true, (sel != nil) == (want[i] != ""), "Find("+paths[i]+") on a JSON-backed tree finds the entry exactly when it is there")
	if sel != nil && want[i] != "" {
		v, gerr := sel.GetValue("v")
		vpAssert(gerr == nil && v != nil && v.String() == want[i], "and it is that entry")
	}
	vpCover("reached")
}
