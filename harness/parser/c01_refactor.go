package parser

import (
	"io"
	"strings"

	"github.com/freeconf/yang/meta"
)

// C01: the compiled schema depends only on what the definitions mean, not on
// how they were factored into groupings / uses / refine / augment / include /
// import. Each pair is the same tree written two ways; property slots
// (config, mandatory, min/max-elements) are filled identically on both sides.

type c01Pair struct {
	name string
	a, b string
}

const c01Head = `module m { namespace "urn:m"; prefix p; revision 2020-01-01; import other { prefix o; } include sub;
	feature f1;
`

var c01Pairs = []c01Pair{
	{"grouping",
		`grouping g { leaf a { type string; CFG1 } container in { CFG2 leaf b { type int32; MAND } } } container c { CFG3 uses g; leaf z { type string; } }`,
		`container c { CFG3 leaf a { type string; CFG1 } container in { CFG2 leaf b { type int32; MAND } } leaf z { type string; } }`},
	{"nested groupings",
		`grouping g1 { leaf a { type string; CFG1 } } grouping g2 { uses g1; container in { CFG2 uses g1; } } container c { CFG3 uses g2; }`,
		`container c { CFG3 leaf a { type string; CFG1 } container in { CFG2 leaf a { type string; CFG1 } } }`},
	{"sibling scoped grouping",
		`container c { CFG3 grouping local { leaf a { type string; CFG1 } } container d { CFG2 uses local; } uses local; }`,
		`container c { CFG3 container d { CFG2 leaf a { type string; CFG1 } } leaf a { type string; CFG1 } }`},
	{"refine",
		`grouping g { leaf a { type string; } leaf-list ll { type string; } container in { leaf b { type int32; } } } container c { CFG3 uses g { refine a { description "ra"; default "d"; CFG1 } refine ll { description "rl"; MINMAX } refine in { description "ri"; CFG2 } refine in/b { MAND must "../a"; } } }`,
		`container c { CFG3 leaf a { type string; description "ra"; default "d"; CFG1 } leaf-list ll { type string; description "rl"; MINMAX } container in { description "ri"; CFG2 leaf b { type int32; MAND must "../a"; } } }`},
	{"uses augment",
		`grouping g { container in { CFG2 leaf b { type int32; } } } container c { CFG3 uses g { augment "in" { leaf z { type string; CFG1 } } } }`,
		`container c { CFG3 container in { CFG2 leaf b { type int32; } leaf z { type string; CFG1 } } }`},
	{"module augment in textual order",
		`container c { CFG3 leaf a { type string; } } augment "/c" { leaf x1 { type string; CFG1 } } augment "/c" { leaf x2 { type string; } container x3 { CFG2 leaf y { type string; } } }`,
		`container c { CFG3 leaf a { type string; } leaf x1 { type string; CFG1 } leaf x2 { type string; } container x3 { CFG2 leaf y { type string; } } }`},
	{"augment a choice (implicit case)",
		`container c { CFG3 choice ch { case a { leaf a1 { type string; } } } } augment "/c/ch" { leaf sh { type string; CFG1 } case b { leaf b1 { type string; } } }`,
		`container c { CFG3 choice ch { case a { leaf a1 { type string; } } leaf sh { type string; CFG1 } case b { leaf b1 { type string; } } } }`},
	{"submodule definitions",
		`container c { CFG3 uses subg; leaf z { type string; CFG1 } }`,
		`container c { CFG3 leaf sg { type string; } leaf z { type string; CFG1 } }`},
	{"imported grouping",
		`container c { CFG3 uses o:og { refine oa { description "ro"; CFG1 } } leaf z { type string; } }`,
		`container c { CFG3 leaf oa { type string; description "ro"; CFG1 } container oin { leaf ob { type uint8; } } leaf z { type string; } }`},
	{"grouping used three times with different refines",
		`grouping g { leaf a { type string; } container in { leaf b { type int32; } } } container c1 { uses g { refine a { default "one"; CFG1 } } } container c2 { CFG2 uses g { refine in/b { description "rb"; MAND } } } container c3 { CFG3 uses g; }`,
		`container c1 { leaf a { type string; default "one"; CFG1 } container in { leaf b { type int32; } } } container c2 { CFG2 leaf a { type string; } container in { leaf b { type int32; description "rb"; MAND } } } container c3 { CFG3 leaf a { type string; } container in { leaf b { type int32; } } }`},
	{"grouping with list, choice, action and notification",
		`grouping g { list l { key "k"; MINMAX leaf k { type string; } } choice ch { case x { leaf x1 { type string; CFG1 } } } action act { input { leaf i { type string; } } } notification nt { leaf e { type string; } } } container c { CFG3 uses g; }`,
		`container c { CFG3 list l { key "k"; MINMAX leaf k { type string; } } choice ch { case x { leaf x1 { type string; CFG1 } } } action act { input { leaf i { type string; } } } notification nt { leaf e { type string; } } }`},
	{"grouping states config, one of two copies refines it",
		`grouping g { leaf a { type string; config true; } container in { config true; leaf b { type int32; } } } container c1 { uses g { refine a { config false; } refine in { config false; } } } container c2 { CFG3 uses g; } container c3 { uses g { refine a { description "r3"; MAND } } }`,
		`container c1 { leaf a { type string; config false; } container in { config false; leaf b { type int32; } } } container c2 { CFG3 leaf a { type string; config true; } container in { config true; leaf b { type int32; } } } container c3 { leaf a { type string; config true; description "r3"; MAND } container in { config true; leaf b { type int32; } } }`},
	{"grouping states mandatory and min/max, copies refine them differently",
		`grouping g { leaf a { type string; mandatory true; } leaf-list ll { type string; min-elements 1; max-elements 5; } } container c1 { uses g { refine a { mandatory false; } refine ll { min-elements 2; } } } container c2 { uses g; } container c3 { uses g { refine ll { max-elements 3; } } }`,
		`container c1 { leaf a { type string; mandatory false; } leaf-list ll { type string; min-elements 2; max-elements 5; } } container c2 { leaf a { type string; mandatory true; } leaf-list ll { type string; min-elements 1; max-elements 5; } } container c3 { leaf a { type string; mandatory true; } leaf-list ll { type string; min-elements 1; max-elements 3; } }`},
	{"submodule that includes another submodule",
		`container c { CFG3 uses deepg; leaf z { type string; CFG1 } }`,
		`container c { CFG3 leaf dg { type string; } leaf z { type string; CFG1 } }`},
	{"local grouping wrapping an imported grouping of the same name",
		`grouping og { container wrap { CFG2 uses o:og; } leaf mine { type string; CFG1 } } container c { CFG3 uses og; }`,
		`container c { CFG3 container wrap { CFG2 leaf oa { type string; } container oin { leaf ob { type uint8; } } } leaf mine { type string; CFG1 } }`},
	{"grouping from a submodule wrapping an imported grouping of the same name",
		`container c { CFG3 uses o:og; container w { CFG2 uses subg; } }`,
		`container c { CFG3 leaf oa { type string; } container oin { leaf ob { type uint8; } } container w { CFG2 leaf sg { type string; } } }`},
	{"grouping used inside itself through a different grouping (no recursion)",
		`grouping inner { leaf a { type string; CFG1 } } grouping outer { container x { uses inner; } container y { CFG2 uses inner; } } container c { CFG3 uses outer; uses inner; }`,
		`container c { CFG3 container x { leaf a { type string; CFG1 } } container y { CFG2 leaf a { type string; CFG1 } } leaf a { type string; CFG1 } }`},
	{"uses under if-feature and when",
		`grouping g { leaf a { type string; CFG1 } } container c { CFG3 uses g { if-feature "f1"; when "z='1'"; } leaf z { type string; } }`,
		`container c { CFG3 leaf a { type string; CFG1 when "z='1'"; } leaf z { type string; } }`},
}

func c01Opener(name string, ext string) (io.Reader, error) {
	switch name {
	case "other":
		return &c14Reader{s: `module other { namespace "o"; prefix o; grouping og { leaf oa { type string; } container oin { leaf ob { type uint8; } } } }`, failAt: -1}, nil
	case "sub":
		return &c14Reader{s: `submodule sub { belongs-to m { prefix p; } include deep; grouping subg { leaf sg { type string; } } container fromsub { leaf s { type string; } } }`, failAt: -1}, nil
	case "deep":
		return &c14Reader{s: `submodule deep { belongs-to m { prefix p; } grouping deepg { leaf dg { type string; } } container fromdeep { leaf d { type string; } } augment "/p:fromsub" { leaf addedbydeep { type string; } } }`, failAt: -1}, nil
	}
	return nil, nil
}

func c01Fill(s string, cfg [3]int, mand int, mm int) string {
	cfgText := []string{"", "config true;", "config false;"}
	for i := 0; i < 3; i++ {
		s = strings.ReplaceAll(s, "CFG"+string(rune('1'+i)), cfgText[cfg[i]])
	}
	s = strings.ReplaceAll(s, "MAND", []string{"", "mandatory true;", "mandatory false;"}[mand])
	s = strings.ReplaceAll(s, "MINMAX", []string{"", "min-elements 1;", "max-elements 4;", "min-elements 2; max-elements 3;"}[mm])
	return s
}

func H_C01_refactoring_pairs() {
	pr := c01Pairs[vpChoose(len(c01Pairs))]
	cfg := [3]int{vpChoose(3), vpChoose(3), vpChoose(3)}
	mand, mm := vpChoose(3), vpChoose(4)
	ta := c01Head + c01Fill(pr.a, cfg, mand, mm) + "\n}"
	tb := c01Head + c01Fill(pr.b, cfg, mand, mm) + "\n}"
	a, errA := LoadModuleFromString(c01Opener, ta)
	b, errB := LoadModuleFromString(c01Opener, tb)
	vpAssertK("C01-"+pr.name, true, (errA == nil) == (errB == nil), pr.name+": both writings load, or both are rejected (e.g. config true under config false)")
	if errA != nil || errB != nil {
		return
	}
	da, db := vpDump(a), vpDump(b)
	vpAssertK("C01-"+pr.name, true, da == db, pr.name+": the compiled tree is the same however it was factored")
	vpCover("reached")
}

// config is inherited from the nearest ancestor that states it
func H_C01_config_inheritance() {
	cfg := [4]int{vpChoose(3), vpChoose(3), vpChoose(3), vpChoose(3)}
	cfgText := []string{"", "config true;", "config false;"}
	text := "module m { namespace \"urn:m\"; prefix p; container l1 { " + cfgText[cfg[0]] + " container l2 { " + cfgText[cfg[1]] + " container l3 { " + cfgText[cfg[2]] + " leaf x { type string; " + cfgText[cfg[3]] + " } } } } }"
	m, err := LoadModuleFromString(nil, text)
	// effective config top-down: default true; a node may not be config true below config false
	eff := true
	legal := true
	var effs [4]bool
	for i := 0; i < 4; i++ {
		switch cfg[i] {
		case 1:
			if !eff {
				legal = false
			}
			eff = true
		case 2:
			eff = false
		}
		effs[i] = eff
	}
	vpAssert((err == nil) == legal, "config true below config false is rejected, everything else loads")
	if err != nil {
		return
	}
	paths := []string{"l1", "l1/l2", "l1/l2/l3", "l1/l2/l3/x"}
	for i, p := range paths {
		vpAssert(meta.Find(m, p).(meta.HasConfig).Config() == effs[i], "config is inherited from the nearest ancestor that states it")
	}
	vpCover("reached")
}

// every copy of a grouping used several times is complete and independent of the others
func H_C01_grouping_copies_independent() {
	m, err := LoadModuleFromString(nil, `module m { namespace "urn:m"; prefix p;
		grouping g { leaf a { type string; } container in { leaf b { type int32; } list l { key "k"; leaf k { type string; } } } }
		container c1 { uses g; } container c2 { uses g; } container c3 { uses g; } }`)
	vpAssert(err == nil, "module loads")
	seen := map[meta.Definition]bool{}
	var walk func(d meta.Definition, parent meta.Meta)
	walk = func(d meta.Definition, parent meta.Meta) {
		vpAssert(!seen[d], "no definition object is shared between two copies of the grouping")
		seen[d] = true
		vpAssert(d.Parent() == parent, "every copied definition has the using node (or its copy) as parent")
		if h, ok := d.(meta.HasDataDefinitions); ok {
			for _, c := range h.DataDefinitions() {
				walk(c, d)
			}
		}
	}
	for _, id := range []string{"c1", "c2", "c3"} {
		c := meta.Find(m, id)
		vpAssert(len(c.(meta.HasDataDefinitions).DataDefinitions()) == 2, "copy is complete")
		walk(c, m)
	}
	vpCover("reached")
}

// the same pairs with every map range of the loader reversed / rotated (Go randomises map order per run)
func H_C01_refactoring_pairs_maporder() {
	pr := c01Pairs[vpChoose(len(c01Pairs))]
	cfg := [3]int{0, vpChoose(3), 0}
	ta := c01Head + c01Fill(pr.a, cfg, 1, 3) + "\n}"
	tb := c01Head + c01Fill(pr.b, cfg, 1, 3) + "\n}"
	b, errB := LoadModuleFromString(c01Opener, tb)
	vpPermuteMaps(1 + vpChoose(2))
	a, errA := LoadModuleFromString(c01Opener, ta)
	vpPermuteMaps(0)
	vpAssert((errA == nil) == (errB == nil), pr.name+": loadability does not depend on map iteration order")
	if errA != nil || errB != nil {
		return
	}
	vpAssert(vpDump(a) == vpDump(b), pr.name+": the compiled tree does not depend on map iteration order")
	vpCover("reached")
}
