package parser

import (
	"io"

	"github.com/freeconf/yang/meta"
)

// C02 (type derivation): a leaf whose type is written through typedefs (any
// depth and scope), groupings, imports or submodules has the same effective
// type, default and units as the leaf with everything written inline.

type c02Pair struct {
	name string
	a, b string // a: factored, b: inline
}

const c02Head = `module m { namespace "urn:m"; prefix p; revision 2020-01-01; import other { prefix o; } include sub;
`

var c02Pairs = []c02Pair{
	{"typedef default and units",
		`typedef t { type int32 { range "0..10"; } default 5; units "s"; } leaf x { type t; }`,
		`leaf x { type int32 { range "0..10"; } default 5; units "s"; }`},
	{"leaf value wins over typedef",
		`typedef t { type int32; default 5; units "s"; } leaf x { type t; default 7; units "ms"; }`,
		`leaf x { type int32; default 7; units "ms"; }`},
	{"chain of two: nearest stating level",
		`typedef t1 { type int32; default 1; units "u1"; } typedef t2 { type t1; default 2; } leaf x { type t2; }`,
		`leaf x { type int32; default 2; units "u1"; }`},
	{"chain of three",
		`typedef t1 { type int32 { range "0..100"; } } typedef t2 { type t1; units "m"; } typedef t3 { type t2; default 25; } leaf x { type t3; }`,
		`leaf x { type int32 { range "0..100"; } units "m"; default 25; }`},
	{"typedef in an ancestor container",
		`container c { typedef t { type string { length "1..3"; } default "ab"; } container d { leaf x { type t; } } }`,
		`container c { container d { leaf x { type string { length "1..3"; } default "ab"; } } }`},
	{"typedef from an imported module",
		`leaf x { type o:ot; }`,
		`leaf x { type uint8 { range "1..9"; } default 3; units "ou"; }`},
	{"typedef from a submodule",
		`leaf x { type st; }`,
		`leaf x { type string { pattern "a.*"; } default "a"; }`},
	{"enumeration typedef",
		`typedef t { type enumeration { enum a; enum b { value 5; } enum c; } default b; } leaf x { type t; }`,
		`leaf x { type enumeration { enum a; enum b { value 5; } enum c; } default b; }`},
	{"bits typedef",
		`typedef t { type bits { bit b0; bit b4 { position 4; } bit b5; } } leaf x { type t; }`,
		`leaf x { type bits { bit b0; bit b4 { position 4; } bit b5; } }`},
	{"union typedef",
		`typedef t { type union { type int32; type string; } } leaf x { type t; }`,
		`leaf x { type union { type int32; type string; } }`},
	{"leaf-list through typedef",
		`typedef t { type int32 { range "0..10"; } units "s"; } leaf-list x { type t; }`,
		`leaf-list x { type int32 { range "0..10"; } units "s"; }`},
	{"leafref relative and absolute",
		`typedef r { type leafref { path "../k"; } } leaf k { type uint16; } leaf x { type r; } leaf y { type leafref { path "/p:k"; } }`,
		`leaf k { type uint16; } leaf x { type leafref { path "../k"; } } leaf y { type leafref { path "/p:k"; } }`},
	{"identityref typedef",
		`identity b1; identity d1 { base b1; } typedef t { type identityref { base b1; } } leaf x { type t; }`,
		`identity b1; identity d1 { base b1; } leaf x { type identityref { base b1; } }`},
	{"decimal64 typedef",
		`typedef t { type decimal64 { fraction-digits 3; range "1.5..2.5"; } } leaf x { type t; }`,
		`leaf x { type decimal64 { fraction-digits 3; range "1.5..2.5"; } }`},
	{"grouping used twice",
		`typedef t { type int32; default 5; units "s"; } grouping g { leaf x { type t; } } container c1 { uses g; } container c2 { uses g; }`,
		`container c1 { leaf x { type int32; default 5; units "s"; } } container c2 { leaf x { type int32; default 5; units "s"; } }`},
	{"grouping used three times, nested",
		`typedef t { type string { length "2"; } default "xy"; } grouping g { container in { leaf x { type t; } } } container c1 { uses g; } container c2 { uses g; } list l { key "k"; leaf k { type string; } uses g; }`,
		`container c1 { container in { leaf x { type string { length "2"; } default "xy"; } } } container c2 { container in { leaf x { type string { length "2"; } default "xy"; } } } list l { key "k"; leaf k { type string; } container in { leaf x { type string { length "2"; } default "xy"; } } }`},
	{"grouping with refine default",
		`typedef t { type int32; default 5; } grouping g { leaf x { type t; } } container c1 { uses g { refine x { default 9; } } } container c2 { uses g; }`,
		`container c1 { leaf x { type int32; default 9; } } container c2 { leaf x { type int32; default 5; } }`},
}

func c02Opener(name string, ext string) (io.Reader, error) {
	switch name {
	case "other":
		return &c14Reader{s: `module other { namespace "o"; prefix o; typedef ot { type uint8 { range "1..9"; } default 3; units "ou"; } }`, failAt: -1}, nil
	case "sub":
		return &c14Reader{s: `submodule sub { belongs-to m { prefix p; } typedef st { type string { pattern "a.*"; } default "a"; } }`, failAt: -1}, nil
	}
	return nil, nil
}

func H_C02_type_equivalence() {
	pr := c02Pairs[vpChoose(len(c02Pairs))]
	a, errA := LoadModuleFromString(c02Opener, c02Head+pr.a+"\n}")
	b, errB := LoadModuleFromString(c02Opener, c02Head+pr.b+"\n}")
	vpAssert(errB == nil, pr.name+": inline module loads")
	vpAssertK("C02-"+pr.name, true, errA == nil, pr.name+": factored module loads")
	if errA != nil {
		return
	}
	vpDumpNoTypeIdent = true
	da, db := vpDump(a), vpDump(b)
	vpDumpNoTypeIdent = false
	vpAssertK("C02-grouping-copies-share-type", pr.name == "grouping used twice" || pr.name == "grouping used three times, nested" || pr.name == "grouping with refine default",
		da == db, pr.name+": same effective type, default and units as written inline")
	vpCover("reached")
}

// direct checks of what users see for a few derivations
func H_C02_effective_type_details() {
	m, err := LoadModuleFromString(c02Opener, c02Head+`
		typedef t1 { type int32 { range "0..100"; } default 1; units "u"; }
		typedef t2 { type t1 { range "10..50"; } }
		leaf x { type t2; }
		leaf k { type uint16; }
		leaf r { type leafref { path "../k"; } }
		identity b1; identity d1 { base b1; } identity d2 { base d1; }
		leaf idr { type identityref { base b1; } }
		leaf u { type union { type int8; type string { length "1"; } } }
		leaf-list ll { type t1; }
	}`)
	vpAssert(err == nil, "module loads")
	x := meta.Find(m, "x").(*meta.Leaf)
	vpAssert(x.Type().Format().String() == "int32" && len(x.Type().Range()) == 2, "built-in base and one restriction per typedef level")
	vpAssert(x.HasDefault() && x.Default() == "1" && x.Units() == "u", "default and units from the nearest typedef that states them")
	r := meta.Find(m, "r").(*meta.Leaf)
	vpAssert(r.Type().Resolve().Format().String() == "uint16", "leafref resolves to the type of the leaf its path points at")
	idr := meta.Find(m, "idr").(*meta.Leaf)
	vpAssert(len(idr.Type().Base()) == 1 && idr.Type().Base()[0].Ident() == "b1", "identityref base")
	vpAssert(meta.FindIdentity(idr.Type().Base(), "d2") != nil && meta.FindIdentity(idr.Type().Base(), "d1") != nil, "identityref accepts identities derived (also indirectly) from the base")
	vpAssert(meta.FindIdentity(idr.Type().Base(), "nosuch") == nil, "and no others")
	u := meta.Find(m, "u").(*meta.Leaf)
	vpAssert(len(u.Type().Union()) == 2 && u.Type().Union()[0].Format().String() == "int8" && u.Type().Union()[1].Format().String() == "string", "union member types in order")
	ll := meta.Find(m, "ll").(*meta.LeafList)
	vpAssert(ll.Type().Format().IsList() && ll.Type().Format().String() == "int32-list", "leaf-list has the list form of its base type")
	vpCover("reached")
}
