package parser

import (
	"io"
	"strings"

	"github.com/freeconf/yang/meta"
)

// C02 (type derivation): a leaf whose type is written through typedefs (any
// depth and scope), groupings, imports or submodules has the same effective
// type, default and units as the leaf with everything written inline.

type c02Pair struct {
	name string
	a, b string // a: factored, b: inline
}

const c02Head = `module m { namespace "urn:m"; prefix p; revision 2020-01-01; import other { prefix o; } include sub;
`

var c02Pairs = []c02Pair{
	{"typedef default and units",
		`typedef t { type int32 { range "0..10"; } default 5; units "s"; } leaf x { type t; }`,
		`leaf x { type int32 { range "0..10"; } default 5; units "s"; }`},
	{"leaf value wins over typedef",
		`typedef t { type int32; default 5; units "s"; } leaf x { type t; default 7; units "ms"; }`,
		`leaf x { type int32; default 7; units "ms"; }`},
	{"chain of two: nearest stating level",
		`typedef t1 { type int32; default 1; units "u1"; } typedef t2 { type t1; default 2; } leaf x { type t2; }`,
		`leaf x { type int32; default 2; units "u1"; }`},
	{"chain of three",
		`typedef t1 { type int32 { range "0..100"; } } typedef t2 { type t1; units "m"; } typedef t3 { type t2; default 25; } leaf x { type t3; }`,
		`leaf x { type int32 { range "0..100"; } units "m"; default 25; }`},
	{"typedef in an ancestor container",
		`container c { typedef t { type string { length "1..3"; } default "ab"; } container d { leaf x { type t; } } }`,
		`container c { container d { leaf x { type string { length "1..3"; } default "ab"; } } }`},
	{"typedef from an imported module",
		`leaf x { type o:ot; }`,
		`leaf x { type uint8 { range "1..9"; } default 3; units "ou"; }`},
	{"typedef from a submodule",
		`leaf x { type st; }`,
		`leaf x { type string { pattern "a.*"; } default "a"; }`},
	{"enumeration typedef",
		`typedef t { type enumeration { enum a; enum b { value 5; } enum c; } default b; } leaf x { type t; }`,
		`leaf x { type enumeration { enum a; enum b { value 5; } enum c; } default b; }`},
	{"bits typedef",
		`typedef t { type bits { bit b0; bit b4 { position 4; } bit b5; } } leaf x { type t; }`,
		`leaf x { type bits { bit b0; bit b4 { position 4; } bit b5; } }`},
	{"union typedef",
		`typedef t { type union { type int32; type string; } } leaf x { type t; }`,
		`leaf x { type union { type int32; type string; } }`},
	{"leaf-list through typedef",
		`typedef t { type int32 { range "0..10"; } units "s"; } leaf-list x { type t; }`,
		`leaf-list x { type int32 { range "0..10"; } units "s"; }`},
	{"leafref relative and absolute",
		`typedef r { type leafref { path "../k"; } } leaf k { type uint16; } leaf x { type r; } leaf y { type leafref { path "/p:k"; } }`,
		`leaf k { type uint16; } leaf x { type leafref { path "../k"; } } leaf y { type leafref { path "/p:k"; } }`},
	{"identityref typedef",
		`identity b1; identity d1 { base b1; } typedef t { type identityref { base b1; } } leaf x { type t; }`,
		`identity b1; identity d1 { base b1; } leaf x { type identityref { base b1; } }`},
	{"decimal64 typedef",
		`typedef t { type decimal64 { fraction-digits 3; range "1.5..2.5"; } } leaf x { type t; }`,
		`leaf x { type decimal64 { fraction-digits 3; range "1.5..2.5"; } }`},
	{"grouping used twice",
		`typedef t { type int32; default 5; units "s"; } grouping g { leaf x { type t; } } container c1 { uses g; } container c2 { uses g; }`,
		`container c1 { leaf x { type int32; default 5; units "s"; } } container c2 { leaf x { type int32; default 5; units "s"; } }`},
	{"grouping used three times, nested",
		`typedef t { type string { length "2"; } default "xy"; } grouping g { container in { leaf x { type t; } } } container c1 { uses g; } container c2 { uses g; } list l { key "k"; leaf k { type string; } uses g; }`,
		`container c1 { container in { leaf x { type string { length "2"; } default "xy"; } } } container c2 { container in { leaf x { type string { length "2"; } default "xy"; } } } list l { key "k"; leaf k { type string; } container in { leaf x { type string { length "2"; } default "xy"; } } }`},
	{"same typedef name in sibling containers",
		`container c1 { typedef t { type int32 { range "1..5"; } default 1; units "a"; } leaf x { type t; } } container c2 { typedef t { type string { length "2"; } default "zz"; } leaf x { type t; } } container c3 { typedef t { type enumeration { enum e1; enum e2; } } leaf x { type t; } }`,
		`container c1 { leaf x { type int32 { range "1..5"; } default 1; units "a"; } } container c2 { leaf x { type string { length "2"; } default "zz"; } } container c3 { leaf x { type enumeration { enum e1; enum e2; } } }`},
	{"same typedef name in two groupings",
		`grouping g1 { typedef t { type uint8; default 8; } leaf x { type t; } } grouping g2 { typedef t { type boolean; default true; } leaf y { type t; } } container c { uses g1; uses g2; }`,
		`container c { leaf x { type uint8; default 8; } leaf y { type boolean; default true; } }`},
	{"same typedef name in list and rpc scopes",
		`list l { key "k"; typedef t { type int16; units "l"; } leaf k { type t; } } rpc r { input { typedef t { type string; units "r"; } leaf i { type t; } } }`,
		`list l { key "k"; leaf k { type int16; units "l"; } } rpc r { input { leaf i { type string; units "r"; } } }`},
	{"local typedef and imported typedef of the same name",
		`container c { typedef ot { type string; default "local"; } leaf x { type ot; } leaf y { type o:ot; } }`,
		`container c { leaf x { type string; default "local"; } leaf y { type uint8 { range "1..9"; } default 3; units "ou"; } }`},
	{"typedef of typedef across scopes",
		`typedef base { type int32; units "b"; } container c { typedef mid { type base; default 10; } container d { typedef top { type mid { range "20..50"; } } leaf x { type top; } } }`,
		`container c { container d { leaf x { type int32 { range "20..50"; } units "b"; default 10; } } }`},
	{"union members through typedefs",
		`typedef a { type int8 { range "1..2"; } } typedef b { type string { length "3"; } } typedef u { type union { type a; type b; type enumeration { enum z; } } } leaf x { type u; }`,
		`leaf x { type union { type int8 { range "1..2"; } type string { length "3"; } type enumeration { enum z; } } }`},
	{"leafref to a typedef'd leaf",
		`typedef t { type uint32 { range "1..99"; } } container c { leaf k { type t; } } leaf x { type leafref { path "../c/k"; } }`,
		`container c { leaf k { type uint32 { range "1..99"; } } } leaf x { type leafref { path "../c/k"; } }`},
	{"grouping with refine default",
		`typedef t { type int32; default 5; } grouping g { leaf x { type t; } } container c1 { uses g { refine x { default 9; } } } container c2 { uses g; }`,
		`container c1 { leaf x { type int32; default 9; } } container c2 { leaf x { type int32; default 5; } }`},
}

func c02Opener(name string, ext string) (io.Reader, error) {
	switch name {
	case "other":
		return &c14Reader{s: `module other { namespace "o"; prefix o; typedef ot { type uint8 { range "1..9"; } default 3; units "ou"; } }`, failAt: -1}, nil
	case "sub":
		return &c14Reader{s: `submodule sub { belongs-to m { prefix p; } typedef st { type string { pattern "a.*"; } default "a"; } }`, failAt: -1}, nil
	}
	return nil, nil
}

func H_C02_type_equivalence() {
	pr := c02Pairs[vpChoose(len(c02Pairs))]
	a, errA := LoadModuleFromString(c02Opener, c02Head+pr.a+"\n}")
	b, errB := LoadModuleFromString(c02Opener, c02Head+pr.b+"\n}")
	vpAssert(errB == nil, pr.name+": inline module loads")
	vpAssertK("C02-"+pr.name, true, errA == nil, pr.name+": factored module loads")
	if errA != nil {
		return
	}
	vpDumpNoTypeIdent = true
	da, db := vpDump(a), vpDump(b)
	vpDumpNoTypeIdent = false
	vpAssertK("C02-grouping-copies-share-type", pr.name == "grouping used twice" || pr.name == "grouping used three times, nested" || pr.name == "grouping with refine default",
		da == db, pr.name+": same effective type, default and units as written inline")
	vpCover("reached")
}

// identityref whose base lives two imports away: the accepted identities are the same however the modules are cut
const c02Far = `module far { namespace "f"; prefix f; identity root-id; identity kid { base root-id; } identity grandkid { base kid; } }`

func c02ChainOpener(mid string) func(string, string) (io.Reader, error) {
	return func(name string, ext string) (io.Reader, error) {
		switch name {
		case "far":
			return &c14Reader{s: c02Far, failAt: -1}, nil
		case "mid":
			return &c14Reader{s: mid, failAt: -1}, nil
		case "ext":
			return &c14Reader{s: `module ext { namespace "e"; prefix e; import far { prefix f; } identity ext-kid { base f:kid; } }`, failAt: -1}, nil
		}
		return nil, nil
	}
}

func H_C02_identity_import_chain() {
	mids := []string{
		// the intermediate module has no identities of its own
		`module mid { namespace "m"; prefix md; import far { prefix f; } typedef idt { type identityref { base f:root-id; } } }`,
		// it has one
		`module mid { namespace "m"; prefix md; import far { prefix f; } identity mid-kid { base f:root-id; } typedef idt { type identityref { base f:root-id; } } }`,
		// it reaches far through yet another module without identities in between
		`module mid { namespace "m"; prefix md; import far { prefix f; } import ext { prefix e; } typedef idt { type identityref { base f:root-id; } } }`,
	}
	which := vpChoose(len(mids))
	a, errA := LoadModuleFromString(c02ChainOpener(mids[which]), `module m { namespace "urn:m"; prefix p; import mid { prefix md; } leaf x { type md:idt; } }`)
	vpAssert(errA == nil, "chain of three modules loads")
	x := meta.Find(a, "x").(*meta.Leaf)
	bases := x.Type().Base()
	vpAssert(len(bases) == 1 && bases[0].Ident() == "root-id", "identityref base found two imports away")
	got := vpDerivedClosure(bases[0], 0)
	want := "grandkid,kid"
	if which == 1 {
		want = "grandkid,kid,mid-kid"
	}
	if which == 2 {
		want = "ext-kid,grandkid,kid"
	}
	vpAssert(strings.Join(got, ",") == want, "the identityref accepts every identity derived from its base in any loaded module, whichever module imports which")
	vpCover("reached")
}

// direct checks of what users see for a few derivations
func H_C02_effective_type_details() {
	m, err := LoadModuleFromString(c02Opener, c02Head+`
		typedef t1 { type int32 { range "0..100"; } default 1; units "u"; }
		typedef t2 { type t1 { range "10..50"; } }
		leaf x { type t2; }
		leaf k { type uint16; }
		leaf r { type leafref { path "../k"; } }
		identity b1; identity d1 { base b1; } identity d2 { base d1; }
		leaf idr { type identityref { base b1; } }
		leaf u { type union { type int8; type string { length "1"; } } }
		leaf-list ll { type t1; }
	}`)
	vpAssert(err == nil, "module loads")
	x := meta.Find(m, "x").(*meta.Leaf)
	vpAssert(x.Type().Format().String() == "int32" && len(x.Type().Range()) == 2, "built-in base and one restriction per typedef level")
	vpAssert(x.HasDefault() && x.Default() == "1" && x.Units() == "u", "default and units from the nearest typedef that states them")
	r := meta.Find(m, "r").(*meta.Leaf)
	vpAssert(r.Type().Resolve().Format().String() == "uint16", "leafref resolves to the type of the leaf its path points at")
	idr := meta.Find(m, "idr").(*meta.Leaf)
	vpAssert(len(idr.Type().Base()) == 1 && idr.Type().Base()[0].Ident() == "b1", "identityref base")
	vpAssert(meta.FindIdentity(idr.Type().Base(), "d2") != nil && meta.FindIdentity(idr.Type().Base(), "d1") != nil, "identityref accepts identities derived (also indirectly) from the base")
	vpAssert(meta.FindIdentity(idr.Type().Base(), "nosuch") == nil, "and no others")
	u := meta.Find(m, "u").(*meta.Leaf)
	vpAssert(len(u.Type().Union()) == 2 && u.Type().Union()[0].Format().String() == "int8" && u.Type().Union()[1].Format().String() == "string", "union member types in order")
	ll := meta.Find(m, "ll").(*meta.LeafList)
	vpAssert(ll.Type().Format().IsList() && ll.Type().Format().String() == "int32-list", "leaf-list has the list form of its base type")
	vpCover("reached")
}
