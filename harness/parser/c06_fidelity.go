package parser

import (
	"io"
	"strings"

	"github.com/freeconf/yang/meta"
)

// C06: every statement argument can be read back unchanged from the compiled
// schema, under every legal quoting; sibling order is textual order; loading
// the same text again gives an identical schema whatever the map iteration order.

type c06Kind struct {
	name string
	body string // module body with ARG where the (already quoted) argument goes
	get  func(m *meta.Module) string
}

func c06Leaf(m *meta.Module) *meta.Leaf { return meta.Find(m, "c/x").(*meta.Leaf) }

var c06Kinds = []c06Kind{
	{"module description", `description ARG; container c { leaf x { type string; } }`, func(m *meta.Module) string { return m.Description() }},
	{"module contact", `contact ARG; container c { leaf x { type string; } }`, func(m *meta.Module) string { return m.Contact() }},
	{"module organization", `organization ARG; container c { leaf x { type string; } }`, func(m *meta.Module) string { return m.Organization() }},
	{"module reference", `reference ARG; container c { leaf x { type string; } }`, func(m *meta.Module) string { return m.Reference() }},
	{"leaf description", `container c { leaf x { type string; description ARG; } }`, func(m *meta.Module) string { return c06Leaf(m).Description() }},
	{"leaf reference", `container c { leaf x { type string; reference ARG; } }`, func(m *meta.Module) string { return c06Leaf(m).Reference() }},
	{"leaf units", `container c { leaf x { type string; units ARG; } }`, func(m *meta.Module) string { return c06Leaf(m).Units() }},
	{"typedef units", `typedef t { type string; units ARG; } container c { leaf x { type t; } }`, func(m *meta.Module) string { return c06Leaf(m).Units() }},
	{"leaf default", `container c { leaf x { type string; default ARG; } }`, func(m *meta.Module) string { return c06Leaf(m).Default() }},
	{"leaf when", `container c { leaf x { type string; when ARG; } }`, func(m *meta.Module) string { return c06Leaf(m).When().Expression() }},
	{"leaf must", `container c { leaf x { type string; must ARG; } }`, func(m *meta.Module) string { return c06Leaf(m).Musts()[0].Expression() }},
	{"must error-message", `container c { leaf x { type string; must "a" { error-message ARG; } } }`, func(m *meta.Module) string { return c06Leaf(m).Musts()[0].ErrorMessage() }},
	{"must error-app-tag", `container c { leaf x { type string; must "a" { error-app-tag ARG; } } }`, func(m *meta.Module) string { return c06Leaf(m).Musts()[0].ErrorAppTag() }},
	{"container presence", `container c { presence ARG; leaf x { type string; } }`, func(m *meta.Module) string { return meta.Find(m, "c").(*meta.Container).Presence() }},
	{"extension argument", `extension e { argument a; } container c { p:e ARG; leaf x { type string; } }`, func(m *meta.Module) string { return meta.Find(m, "c").(*meta.Container).Extensions()[0].Argument() }},
	{"enum description", `container c { leaf x { type enumeration { enum one { description ARG; } } } }`, func(m *meta.Module) string { return c06Leaf(m).Type().Enums()[0].Description() }},
	{"revision description", `revision 2021-02-03 { description ARG; } container c { leaf x { type string; } }`, func(m *meta.Module) string { return m.Revision().Description() }},
}

// c06Quote renders text under a quoting style; ok=false when the style cannot carry the text.
func c06Quote(text string, style int) (string, bool) {
	switch style {
	case 0: // double quotes with the escapes of RFC 7950 6.1.3
		var sb strings.Builder
		sb.WriteByte('"')
		for i := 0; i < len(text); i++ {
			switch c := text[i]; c {
			case '"':
				sb.WriteString(`\"`)
			case '\\':
				sb.WriteString(`\\`)
			case '\n':
				sb.WriteString(`\n`)
			case '\t':
				sb.WriteString(`\t`)
			default:
				sb.WriteByte(c)
			}
		}
		sb.WriteByte('"')
		return sb.String(), true
	case 1: // single quotes: everything verbatim, no single quote inside
		for i := 0; i < len(text); i++ {
			if text[i] == '\'' || text[i] == '\n' || text[i] == '\t' {
				return "", false
			}
		}
		return "'" + text + "'", true
	case 2: // unquoted
		if len(text) == 0 {
			return "", false
		}
		for i := 0; i < len(text); i++ {
			c := text[i]
			ok := (c >= 'a' && c <= 'z') || (c >= 'A' && c <= 'Z') || (c >= '0' && c <= '9') || c == '-' || c == '_' || c == '.' || c == ':' || c == '=' || c == '<' || c == '!' || c == '@' || c == '#' || c == '$' || c == '%' || c == '^' || c == '&' || c == '(' || c == ')' || c == '[' || c == ']' || c == '|' || c == ',' || c == '?' || c == '~'
			if !ok {
				return "", false
			}
		}
		return text, true
	case 3: // concatenation of two double-quoted parts, split in the middle
		h := len(text) / 2
		a, _ := c06Quote(text[:h], 0)
		b, _ := c06Quote(text[h:], 0)
		return a + " + " + b, true
	case 4: // double quotes, comments and odd whitespace around the tokens
		a, _ := c06Quote(text, 0)
		return "/* c1 */ " + a + " // c2\n\t", true
	}
	return "", false
}

func c06Len(k c06Kind) int {
	if vpTier() > 0 {
		// three bytes ran for more than 28 minutes per statement kind (more than four hours in all): two bytes for
		// every kind is the deepest bound that was run clean
		return 2
	}
	switch k.name { // on every change: two bytes where quoting matters most, one byte elsewhere
	case "leaf description", "leaf units", "extension argument", "leaf default":
		return 2
	}
	return 1
}

func c06Check(k c06Kind) {
	text := vpString(c06Len(k))
	for i := 0; i < len(text); i++ {
		vpAssume(text[i] < 0x80 && text[i] != '\r' && text[i] != 0)
	}
	style := vpChoose(5)
	q, ok := c06Quote(text, style)
	if !ok {
		return
	}
	if len(text) == 0 && (k.name == "leaf default") {
		return
	}
	src := "module m { namespace \"urn:m\"; prefix p; " + strings.Replace(k.body, "ARG", q, 1) + " }"
	var m *meta.Module
	var err error
	p := vpCatch(func() { m, err = LoadModuleFromString(nil, src) })
	vpAssert(!p, k.name+": no crash")
	vpAssertK("C06-escapes", true, err == nil, k.name+": a legally quoted argument loads")
	if err != nil || m == nil {
		return
	}
	got := k.get(m)
	vpAssertK("C06-escapes", true, got == text, k.name+": the argument reads back unchanged (quotes removed, escapes resolved, parts joined)")
	vpCover("reached")
}

func H_C06_arg_module_description()   { c06Check(c06Kinds[0]) }
func H_C06_arg_module_contact()       { c06Check(c06Kinds[1]) }
func H_C06_arg_module_organization()  { c06Check(c06Kinds[2]) }
func H_C06_arg_module_reference()     { c06Check(c06Kinds[3]) }
func H_C06_arg_leaf_description()     { c06Check(c06Kinds[4]) }
func H_C06_arg_leaf_reference()       { c06Check(c06Kinds[5]) }
func H_C06_arg_leaf_units()           { c06Check(c06Kinds[6]) }
func H_C06_arg_typedef_units()        { c06Check(c06Kinds[7]) }
func H_C06_arg_leaf_default()         { c06Check(c06Kinds[8]) }
func H_C06_arg_leaf_when()            { c06Check(c06Kinds[9]) }
func H_C06_arg_leaf_must()            { c06Check(c06Kinds[10]) }
func H_C06_arg_error_message()        { c06Check(c06Kinds[11]) }
func H_C06_arg_error_app_tag()        { c06Check(c06Kinds[12]) }
func H_C06_arg_presence()             { c06Check(c06Kinds[13]) }
func H_C06_arg_extension()            { c06Check(c06Kinds[14]) }
func H_C06_arg_enum_description()     { c06Check(c06Kinds[15]) }
func H_C06_arg_revision_description() { c06Check(c06Kinds[16]) }

// scalar properties and identifiers read back as written; siblings keep textual order
func H_C06_properties_and_order() {
	cfg, mand := vpBool(), vpBool()
	minE, maxE := vpChoose(4), 4+vpChoose(3)
	ord := vpChoose(2)
	b := func(v bool) string {
		if v {
			return "true"
		}
		return "false"
	}
	names := []string{"zeta", "alpha", "mid", "beta"}
	var sb strings.Builder
	sb.WriteString("module m { namespace \"urn:m\"; prefix p; revision 2021-02-03; revision 2020-01-01; container c { ")
	for _, n := range names {
		sb.WriteString("leaf " + n + " { type string; } ")
	}
	sb.WriteString("} leaf x { type string; config " + b(cfg) + "; mandatory " + b(mand) + "; status deprecated; } ")
	sb.WriteString("leaf-list ll { type string; min-elements " + string(rune('0'+minE)) + "; max-elements " + string(rune('0'+maxE)) + "; ordered-by " + []string{"user", "system"}[ord] + "; } ")
	sb.WriteString("list l { key \"b a\"; unique \"c d\"; leaf a { type string; } leaf b { type string; } leaf c { type string; } leaf d { type string; } } }")
	m, err := LoadModuleFromString(nil, sb.String())
	vpAssert(err == nil, "module loads")
	c := meta.Find(m, "c").(*meta.Container)
	for i, d := range c.DataDefinitions() {
		vpAssert(d.Ident() == names[i], "sibling definitions keep their textual order")
	}
	x := meta.Find(m, "x").(*meta.Leaf)
	vpAssert(x.Config() == cfg && x.Mandatory() == mand, "config, mandatory")
	vpAssertK("C06-status-dropped", true, x.Status() == meta.Deprecated, "status")
	ll := meta.Find(m, "ll").(*meta.LeafList)
	vpAssert(ll.MinElements() == minE && ll.MaxElements() == maxE, "min-elements / max-elements")
	vpAssert((ll.OrderedBy() == meta.OrderedByUser) == (ord == 0), "ordered-by")
	l := meta.Find(m, "l").(*meta.List)
	km := l.KeyMeta()
	vpAssert(len(km) == 2 && km[0].Ident() == "b" && km[1].Ident() == "a", "key leaves in the written order")
	vpAssert(len(l.Unique()) == 1 && strings.Join(l.Unique()[0], " ") == "c d", "unique")
	vpAssert(m.Revision().Ident() == "2021-02-03" && len(m.RevisionHistory()) == 2, "revisions")
	vpAssert(m.Namespace() == "urn:m" && m.Prefix() == "p", "namespace and prefix")
	vpCover("reached")
}

// loading the same text again yields an identical schema under every map iteration order explored
const c06Big = `module m { namespace "urn:m"; prefix p; revision 2020-01-01;
	import other { prefix o; }
	include sub;
	feature f1; feature f2;
	identity i1; identity i2 { base i1; } identity i3 { base i1; }
	typedef t1 { type string; } typedef t2 { type int32; }
	grouping g1 { leaf a { type string; } } grouping g2 { leaf b { type o:ot; } }
	container c { uses g1; uses g2; choice ch { case x { leaf x1 { type t1; } } case y { leaf y1 { type t2; } } case z { leaf z1 { type string; } } } }
	rpc r1 { input { leaf i { type string; } } } rpc r2 { input { leaf i { type string; } } }
	notification n1 { leaf e { type string; } } notification n2 { leaf e { type string; } }
	leaf idr { type identityref { base i1; } }
}`

func c06Opener(name string, ext string) (io.Reader, error) {
	switch name {
	case "other":
		return &c14Reader{s: `module other { namespace "o"; prefix o; typedef ot { type string; } }`, failAt: -1}, nil
	case "sub":
		return &c14Reader{s: `submodule sub { belongs-to m { prefix p; } leaf fromsub { type string; } rpc subr { input { leaf i { type string; } } } notification subn { leaf e { type string; } } }`, failAt: -1}, nil
	}
	return nil, nil
}

func H_C06_reload_identical() {
	ref, err := LoadModuleFromString(c06Opener, c06Big)
	vpAssert(err == nil, "reference load")
	want := vpDump(ref)
	vpPermuteMaps(1 + vpChoose(2)) // every map range reversed / rotated (Go randomises the order per run)
	m, err2 := LoadModuleFromString(c06Opener, c06Big)
	vpPermuteMaps(0)
	vpAssert(err2 == nil, "the same text loads under every map iteration order")
	if err2 == nil {
		vpAssert(vpDump(m) == want, "loading the same text again yields an identical schema")
	}
	vpCover("reached")
}
