package parser

import (
	"io"
	"strings"

	"github.com/freeconf/yang/meta"
)

// C06, further: comment and whitespace placement between any two tokens, statements that share argument text
// (patterns), arguments of statements whose grammar rule takes the raw token, separators inside key / unique,
// extensions under argument-only statements, textual order of every kind of sibling, and a catalogue of legal
// spellings that have to load.

// tokens of a small module; sepNeeded[i] says that the gap before token i must contain white space
var c06Toks = []string{"module", "m", "{", "namespace", `"urn:m"`, ";", "prefix", "p", ";", "description", `"d1"`, "+", `"d2"`, ";",
	"leaf", "x", "{", "type", "string", "{", "pattern", `"a+"`, ";", "}", "default", `"aa"`, ";", "}", "container", "c", "{", "presence", `"pr"`, ";", "}", "}"}

func c06NeedsSep(prev, cur string) bool {
	punct := func(s string) bool { return s == "{" || s == "}" || s == ";" || s == "+" }
	quoted := func(s string) bool { return s[0] == '"' || s[0] == '\'' }
	if punct(prev) || punct(cur) {
		return false
	}
	if quoted(prev) && quoted(cur) {
		return true
	}
	return true // keyword / identifier next to a keyword, identifier or string
}

func H_C06_gap_between_tokens() {
	pos := 1 + vpChoose(len(c06Toks)-1) // the gap before token pos
	fillers := []string{"", " ", "\t", "\n", "\r\n", "/*c*/", "/**/", "//c\n", " /* c */ ", " // c\n", "/* a */ /* b */", "/* // */", "/*/ c */", "\n\n\t // one\n // two\n"}
	f := fillers[vpChoose(len(fillers))]
	if c06NeedsSep(c06Toks[pos-1], c06Toks[pos]) && strings.TrimLeft(f, " \t\r\n") == f && strings.TrimRight(f, " \t\r\n") == f {
		f = " " + f // the grammar wants white space here; a comment alone is not a separator
	}
	var sb, ref strings.Builder
	for i, t := range c06Toks {
		if i == pos {
			sb.WriteString(f)
		} else if i > 0 {
			sb.WriteString(" ")
		}
		if i > 0 {
			ref.WriteString(" ")
		}
		sb.WriteString(t)
		ref.WriteString(t)
	}
	want, errR := LoadModuleFromString(nil, ref.String())
	vpAssert(errR == nil, "reference spelling loads")
	got, err := LoadModuleFromString(nil, sb.String())
	vpAssertK("C06-comment-placement", true, err == nil, "white space or a comment between '"+c06Toks[pos-1]+"' and '"+c06Toks[pos]+"' is legal")
	if err == nil {
		vpAssertK("C06-comment-placement", true, vpDump(got) == vpDump(want), "white space and comments between tokens do not change the schema")
	}
	vpCover("reached")
}

// statements that carry the same argument text keep their own sub-statements, within a module and across loads
func H_C06_same_argument_text() {
	text := func(e1, e2 string) string {
		return `module m { namespace "urn:m"; prefix p;
			leaf a { type string { pattern "[a-z]+" { error-message "` + e1 + `"; error-app-tag "t1"; description "da"; } } }
			leaf b { type string { pattern "[a-z]+" { error-message "` + e2 + `"; modifier invert-match; } length "1..3" { error-message "len-b"; } } }
			leaf c { type string { pattern "[a-z]+"; length "1..3" { error-message "len-c"; } } must "x" { error-message "must-c"; } }
			leaf d { type string; must "x" { error-message "must-d"; } } }`
	}
	check := func(m *meta.Module, e1, e2 string) {
		pa := meta.Find(m, "a").(*meta.Leaf).Type().Patterns()[0]
		pb := meta.Find(m, "b").(*meta.Leaf).Type().Patterns()[0]
		pc := meta.Find(m, "c").(*meta.Leaf).Type().Patterns()[0]
		vpAssert(pa.ErrorMessage() == e1 && pa.ErrorAppTag() == "t1" && !pa.Inverted(), "pattern of leaf a keeps its own error-message, app-tag and modifier")
		vpAssert(pb.ErrorMessage() == e2 && pb.ErrorAppTag() == "" && pb.Inverted(), "pattern of leaf b keeps its own error-message and modifier")
		vpAssert(pc.ErrorMessage() == "" && !pc.Inverted(), "pattern of leaf c has none")
		vpAssert(meta.Find(m, "c").(*meta.Leaf).Musts()[0].ErrorMessage() == "must-c" && meta.Find(m, "d").(*meta.Leaf).Musts()[0].ErrorMessage() == "must-d", "must statements with the same expression keep their own error-message")
	}
	m1, err1 := LoadModuleFromString(nil, text("msg-a", "msg-b"))
	vpAssert(err1 == nil, "first load")
	check(m1, "msg-a", "msg-b")
	d1 := vpDump(m1)
	m2, err2 := LoadModuleFromString(nil, text("other-a", "other-b"))
	vpAssert(err2 == nil, "second load with other sub-statements under the same pattern text")
	check(m2, "other-a", "other-b")
	check(m1, "msg-a", "msg-b")
	vpAssert(vpDump(m1) == d1, "a schema already handed out does not change when another module is loaded")
	vpCover("reached")
}

// arguments of statements whose grammar rule takes the token as it stands
func H_C06_quoted_plain_arguments() {
	type kase struct {
		id, text string
		get      func(m *meta.Module) string
		want     string
	}
	cases := []kase{
		{"revision", `revision "2020-01-01" { description "r"; }`, func(m *meta.Module) string { return m.Revision().Ident() }, "2020-01-01"},
		{"revision-single", `revision '2020-01-01';`, func(m *meta.Module) string { return m.Revision().Ident() }, "2020-01-01"},
		{"yang-version", `yang-version "1.1";`, func(m *meta.Module) string { return m.Version() }, "1.1"},
		{"argument", `extension e { argument "name"; }`, func(m *meta.Module) string { return m.ExtensionDefs()["e"].Argument().Ident() }, "name"},
		{"extension-argument-with-body", `extension e { argument a; } p:e "hello" { description "d"; }`, func(m *meta.Module) string { return m.Extensions()[0].Argument() }, "hello"},
		{"enum-single-quoted", `leaf l { type enumeration { enum 'a b'; } }`, func(m *meta.Module) string { return meta.Find(m, "l").(*meta.Leaf).Type().Enums()[0].Ident() }, "a b"},
		{"enum-escaped", `leaf l { type enumeration { enum "c\"d"; } }`, func(m *meta.Module) string { return meta.Find(m, "l").(*meta.Leaf).Type().Enums()[0].Ident() }, "c\"d"},
		{"enum-concatenated", `leaf l { type enumeration { enum "a" + "b"; } }`, func(m *meta.Module) string { return meta.Find(m, "l").(*meta.Leaf).Type().Enums()[0].Ident() }, "ab"},
		{"bit-quoted", `leaf l { type bits { bit "b0"; } }`, func(m *meta.Module) string { return meta.Find(m, "l").(*meta.Leaf).Type().Bits()[0].Ident() }, "b0"},
		{"leaf-name-quoted", `leaf "q" { type string; }`, func(m *meta.Module) string { return meta.Find(m, "q").Ident() }, "q"},
		{"type-name-quoted", `leaf q { type "string"; }`, func(m *meta.Module) string { return meta.Find(m, "q").(*meta.Leaf).Type().Ident() }, "string"},
		{"mandatory-quoted", `leaf q { type string; mandatory "true"; }`, func(m *meta.Module) string {
			if meta.Find(m, "q").(*meta.Leaf).Mandatory() {
				return "true"
			}
			return "false"
		}, "true"},
		{"key-quoted-single", `list q { key 'k'; leaf k { type string; } }`, func(m *meta.Module) string { return meta.Find(m, "q").(*meta.List).KeyMeta()[0].Ident() }, "k"},
	}
	c := cases[vpChoose(len(cases))]
	m, err := LoadModuleFromString(nil, `module m { namespace "urn:m"; prefix p; `+c.text+` }`)
	vpAssertK("C06-raw-"+c.id, true, err == nil, c.id+": a quoted argument is legal for every statement")
	if err == nil {
		var got string
		p := vpCatch(func() { got = c.get(m) })
		vpAssertK("C06-raw-"+c.id, true, !p && got == c.want, c.id+": the argument reads back without its quotes and with escapes resolved")
	}
	vpCover("reached")
}

// key and unique arguments are lists separated by any white space
func H_C06_key_unique_separators() {
	seps := []string{" ", "  ", "\t", "\n", "\n      ", " \t "}
	s1, s2 := seps[vpChoose(len(seps))], seps[vpChoose(len(seps))]
	pad := []string{"", " ", "\n "}[vpChoose(3)]
	m, err := LoadModuleFromString(nil, `module m { namespace "urn:m"; prefix p; list l { key "`+pad+`a`+s1+`b`+pad+`"; unique "`+pad+`c`+s2+`d`+pad+`"; leaf a { type string; } leaf b { type string; } leaf c { type string; } leaf d { type string; } } }`)
	vpAssertK("C06-key-separators", true, err == nil, "key and unique take names separated by any white space")
	if err == nil {
		l := meta.Find(m, "l").(*meta.List)
		km := l.KeyMeta()
		vpAssertK("C06-key-separators", true, len(km) == 2 && km[0].Ident() == "a" && km[1].Ident() == "b", "key leaves")
		vpAssertK("C06-key-separators", true, len(l.Unique()) == 1 && len(l.Unique()[0]) == 2 && l.Unique()[0][0] == "c" && l.Unique()[0][1] == "d", "unique names")
	}
	vpCover("reached")
}

// an extension statement written once is stored once, whatever it is written under
func H_C06_extension_once() {
	hosts := []string{`description "d" { p:e; }`, `presence "x" { p:e "arg"; }`, `reference "r" { p:e; }`, `config true { p:e; }`, `p:e;`, `p:e "a" { p:e "nested"; }`}
	h := vpChoose(len(hosts))
	m, err := LoadModuleFromString(nil, `module m { namespace "urn:m"; prefix p; extension e { argument a; } container c { `+hosts[h]+` leaf x { type string; units "u" { p:e "onunits"; } } } }`)
	hostName := []string{"description", "presence", "reference", "config", "container", "extension-with-argument"}[h]
	vpAssertK("C06-extension-under-"+hostName, true, err == nil, "an extension statement may stand under a "+hostName+" statement")
	if err == nil {
		c := meta.Find(m, "c").(*meta.Container)
		vpAssertK("C06-extension-duplicated", true, len(c.Extensions()) == 1, "the extension written once on or under the container's statements is stored once")
		x := meta.Find(m, "c/x").(*meta.Leaf)
		vpAssertK("C06-extension-duplicated", true, len(x.Extensions()) == 1 && x.Extensions()[0].Argument() == "onunits", "the extension under units is stored once, with its argument")
	}
	vpCover("reached")
}

// textual order of every kind of sibling
func H_C06_sibling_order_all_kinds() {
	m, err := LoadModuleFromString(nil, `module m { namespace "urn:m"; prefix p;
		choice ch { case zz { leaf z { type string; } } case aa { leaf a { type string; } } leaf mm { type string; } }
		rpc r2 { input { leaf i { type string; } } } rpc r1 { input { leaf i { type string; } } }
		notification n2 { leaf e { type string; } } notification n1 { leaf e { type string; } }
		leaf l2 { type enumeration { enum zz; enum aa; enum mm; } } leaf l1 { type bits { bit zz; bit aa; } }
		leaf u { type union { type string; type int32; type boolean; } }
		leaf-list dl { type string; default "z"; default "a"; default "m"; } }`)
	vpAssert(err == nil, "module loads")
	dd := m.DataDefinitions()
	vpAssert(len(dd) == 5 && dd[0].Ident() == "ch" && dd[1].Ident() == "l2" && dd[2].Ident() == "l1" && dd[3].Ident() == "u" && dd[4].Ident() == "dl", "data definitions keep textual order")
	en := meta.Find(m, "l2").(*meta.Leaf).Type().Enums()
	vpAssert(len(en) == 3 && en[0].Ident() == "zz" && en[1].Ident() == "aa" && en[2].Ident() == "mm", "enums keep textual order")
	dl := meta.Find(m, "dl").(*meta.LeafList).Default()
	vpAssert(len(dl) == 3 && dl[0] == "z" && dl[1] == "a" && dl[2] == "m", "defaults of a leaf-list keep textual order")
	ids := meta.Find(m, "ch").(*meta.Choice).CaseIdents()
	vpAssertK("C06-case-order", true, len(ids) == 3 && ids[0] == "zz" && ids[1] == "aa" && ids[2] == "mm", "the cases of a choice keep textual order")
	vpCover("reached")
}

// a node inside a grouping keeps its own when if the uses has one too
func H_C06_when_on_uses() {
	m, err := LoadModuleFromString(nil, `module m { namespace "urn:m"; prefix p; grouping g { leaf a { type string; when "../b = 'x'"; } leaf b { type string; } }
		container c { uses g { when "1 = 1"; } } container d { uses g; } }`)
	vpAssert(err == nil, "module loads")
	da := meta.Find(m, "d/a").(*meta.Leaf)
	vpAssert(da.When() != nil && da.When().Expression() == "../b = 'x'", "without a when on the uses the node keeps its own")
	ca := meta.Find(m, "c/a").(*meta.Leaf)
	vpAssertK("C06-uses-when-overwrites", true, ca.When() != nil && strings.Contains(ca.When().Expression(), "../b = 'x'"), "a when on the uses does not erase the when written on a node of the grouping")
	cb := meta.Find(m, "c/b").(*meta.Leaf)
	vpAssert(cb.When() != nil && cb.When().Expression() == "1 = 1", "the when of the uses applies to the grouping's nodes")
	vpCover("reached")
}

// multi-line double-quoted strings (RFC 7950 6.1.3): white space before a line break and the indentation of
// continuation lines up to the column of the opening quote are not part of the value
func H_C06_multiline_string() {
	texts := []string{
		"module m { namespace \"urn:m\"; prefix p;\ndescription \"line one   \n             line two\n               line three\";\n}",
		"module m { namespace \"urn:m\"; prefix p;\n  description\n    \"first\n     second\";\n}",
	}
	wants := []string{"line one\nline two\n  line three", "first\nsecond"}
	i := vpChoose(len(texts))
	m, err := LoadModuleFromString(nil, texts[i])
	vpAssert(err == nil, "module loads")
	vpAssertK("C06-multiline-indent", true, m.Description() == wants[i], "continuation-line indentation and blanks before a line break are stripped")
	vpCover("reached")
}

// legal spellings that have to load (each with its own id)
func H_C06_legal_text_loads() {
	type kase struct{ id, body string }
	var plus strings.Builder
	plus.WriteString(`description "p0"`)
	for i := 1; i < 40; i++ {
		plus.WriteString(` + "p"`)
	}
	plus.WriteString(";")
	cases := []kase{
		{"many-concatenations", plus.String()},
		{"comment-slash-star-slash", `/*/ still inside */ leaf a { type string; }`},
		{"import-prefix-equals-other-module-name", `import a { prefix b; } import b { prefix c; } leaf x { type b:ta; } leaf y { type c:tb; }`},
		{"container-without-body", `container c;`},
		{"rpc-without-body", `rpc r;`},
		{"extension-prefix-starts-with-keyword", `import leafext { prefix leaf-ext; } leaf-ext:foo "x";`},
		{"refine-presence", `grouping g { container gc { leaf a { type string; } } } container c { uses g { refine gc { presence "p"; } } }`},
		{"bit-if-feature", `feature f; leaf b { type bits { bit b0 { if-feature f; } } }`},
		{"position-max", `leaf b { type bits { bit b0 { position 4294967295; } } }`},
		{"extension-without-argument-with-body", `extension e; p:e { description "d"; }`},
		{"two-extensions-under-description", `extension e; description "d" { p:e; p:e; }`},
		{"status-quoted", `leaf s { type string; status "current"; }`},
	}
	c := cases[vpChoose(len(cases))]
	opener := c14PlacementOpener
	if c.id == "import-prefix-equals-other-module-name" || c.id == "extension-prefix-starts-with-keyword" {
		opener = c06ImportOpener
	}
	_, err := LoadModuleFromString(opener, `module m { namespace "urn:m"; prefix p; `+c.body+` }`)
	vpAssertK("C06-legal-"+c.id, true, err == nil, c.id+": a well-formed module loads")
	vpCover("reached")
}

func c06ImportOpener(name string, ext string) (r io.Reader, err error) {
	switch name {
	case "a":
		return strings.NewReader(`module a { namespace "urn:a"; prefix a; typedef ta { type string; } }`), nil
	case "b":
		return strings.NewReader(`module b { namespace "urn:b"; prefix b; typedef tb { type string; } }`), nil
	case "leafext":
		return strings.NewReader(`module leafext { namespace "urn:le"; prefix le; extension foo { argument a; } }`), nil
	}
	return nil, nil
}
