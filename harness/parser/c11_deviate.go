package parser

import "strings"

// C11 (deviations): a module with a deviation compiles to the same schema as
// the module written with the deviated property inline; nothing else changes.

const c11DevHead = `module m { namespace "urn:m"; prefix m; revision 2020-01-01;
`

type c11Dev struct {
	name     string
	base     string // body without the deviation
	dev      string // the deviation statement
	expected string // body equivalent to base+deviation (no deviation statement)
}

var c11Devs = []c11Dev{
	{"not-supported leaf",
		`container c { leaf a { type string; } leaf b { type string; } leaf d { type int32; } }`,
		`deviation /c/b { deviate not-supported; }`,
		`container c { leaf a { type string; } leaf d { type int32; } }`},
	{"not-supported container",
		`container c { container x { leaf y { type string; } } leaf a { type string; } } container k { leaf z { type string; } }`,
		`deviation /c/x { deviate not-supported; }`,
		`container c { leaf a { type string; } } container k { leaf z { type string; } }`},
	{"not-supported list",
		`container c { list l { key "k"; leaf k { type string; } } leaf a { type string; } }`,
		`deviation /c/l { deviate not-supported; }`,
		`container c { leaf a { type string; } }`},
	{"add units",
		`container c { leaf a { type int32; } leaf b { type int32; } }`,
		`deviation /c/a { deviate add { units "sec"; } }`,
		`container c { leaf a { type int32; units "sec"; } leaf b { type int32; } }`},
	{"add default",
		`container c { leaf a { type int32; } leaf b { type int32; } }`,
		`deviation /c/a { deviate add { default "5"; } }`,
		`container c { leaf a { type int32; default "5"; } leaf b { type int32; } }`},
	{"add config",
		`container c { leaf a { type int32; } leaf b { type int32; } }`,
		`deviation /c/a { deviate add { config false; } }`,
		`container c { leaf a { type int32; config false; } leaf b { type int32; } }`},
	{"add mandatory",
		`container c { leaf a { type int32; } leaf b { type int32; } }`,
		`deviation /c/a { deviate add { mandatory true; } }`,
		`container c { leaf a { type int32; mandatory true; } leaf b { type int32; } }`},
	{"add must",
		`container c { leaf a { type int32; } leaf b { type int32; } }`,
		`deviation /c/a { deviate add { must "../b > 0"; } }`,
		`container c { leaf a { type int32; must "../b > 0"; } leaf b { type int32; } }`},
	{"add max-elements",
		`container c { leaf-list a { type int32; } leaf b { type int32; } }`,
		`deviation /c/a { deviate add { max-elements 3; } }`,
		`container c { leaf-list a { type int32; max-elements 3; } leaf b { type int32; } }`},
	{"add min-elements",
		`container c { list l { key "k"; leaf k { type string; } } leaf b { type int32; } }`,
		`deviation /c/l { deviate add { min-elements 2; } }`,
		`container c { list l { key "k"; min-elements 2; leaf k { type string; } } leaf b { type int32; } }`},
	{"replace units",
		`container c { leaf a { type int32; units "min"; } leaf b { type int32; units "min"; } }`,
		`deviation /c/a { deviate replace { units "sec"; } }`,
		`container c { leaf a { type int32; units "sec"; } leaf b { type int32; units "min"; } }`},
	{"replace default",
		`container c { leaf a { type int32; default "1"; } leaf b { type int32; default "1"; } }`,
		`deviation /c/a { deviate replace { default "7"; } }`,
		`container c { leaf a { type int32; default "7"; } leaf b { type int32; default "1"; } }`},
	{"replace config",
		`container c { leaf a { type int32; config true; } leaf b { type int32; } }`,
		`deviation /c/a { deviate replace { config false; } }`,
		`container c { leaf a { type int32; config false; } leaf b { type int32; } }`},
	{"replace mandatory",
		`container c { leaf a { type int32; mandatory false; } leaf b { type int32; } }`,
		`deviation /c/a { deviate replace { mandatory true; } }`,
		`container c { leaf a { type int32; mandatory true; } leaf b { type int32; } }`},
	{"replace max-elements",
		`container c { leaf-list a { type int32; max-elements 9; } leaf b { type int32; } }`,
		`deviation /c/a { deviate replace { max-elements 3; } }`,
		`container c { leaf-list a { type int32; max-elements 3; } leaf b { type int32; } }`},
	{"delete units",
		`container c { leaf a { type int32; units "sec"; } leaf b { type int32; units "sec"; } }`,
		`deviation /c/a { deviate delete { units "sec"; } }`,
		`container c { leaf a { type int32; } leaf b { type int32; units "sec"; } }`},
	{"delete default",
		`container c { leaf a { type int32; default "5"; } leaf b { type int32; default "5"; } }`,
		`deviation /c/a { deviate delete { default "5"; } }`,
		`container c { leaf a { type int32; } leaf b { type int32; default "5"; } }`},
	{"delete must",
		`container c { leaf a { type int32; must "../b > 0"; must "../b < 9"; } leaf b { type int32; } }`,
		`deviation /c/a { deviate delete { must "../b > 0"; } }`,
		`container c { leaf a { type int32; must "../b < 9"; } leaf b { type int32; } }`},
	{"delete two musts",
		`container c { leaf a { type int32; must "../b > 0"; must "../b < 9"; must "../b != 5"; } leaf b { type int32; } }`,
		`deviation /c/a { deviate delete { must "../b > 0"; must "../b != 5"; } }`,
		`container c { leaf a { type int32; must "../b < 9"; } leaf b { type int32; } }`},
	{"add two musts",
		`container c { leaf a { type int32; } leaf b { type int32; } }`,
		`deviation /c/a { deviate add { must "../b > 0"; must "../b < 9"; } }`,
		`container c { leaf a { type int32; must "../b > 0"; must "../b < 9"; } leaf b { type int32; } }`},
	{"delete two uniques",
		`container c { list l { key "k"; unique "x"; unique "y"; unique "x y"; leaf k { type string; } leaf x { type string; } leaf y { type string; } } }`,
		`deviation /c/l { deviate delete { unique "x"; unique "x y"; } }`,
		`container c { list l { key "k"; unique "y"; leaf k { type string; } leaf x { type string; } leaf y { type string; } } }`},
	{"two deviations on two targets",
		`container c { leaf a { type int32; units "sec"; } leaf b { type int32; } leaf d { type string; } }`,
		`deviation /c/a { deviate delete { units "sec"; } } deviation /c/b { deviate add { default "3"; } }`,
		`container c { leaf a { type int32; } leaf b { type int32; default "3"; } leaf d { type string; } }`},
	{"add and replace in one deviation",
		`container c { leaf a { type int32; units "min"; } leaf b { type int32; } }`,
		`deviation /c/a { deviate add { default "3"; } deviate replace { units "sec"; } }`,
		`container c { leaf a { type int32; units "sec"; default "3"; } leaf b { type int32; } }`},
	{"delete unique",
		`container c { list l { key "k"; unique "x"; unique "y"; leaf k { type string; } leaf x { type string; } leaf y { type string; } } }`,
		`deviation /c/l { deviate delete { unique "x"; } }`,
		`container c { list l { key "k"; unique "y"; leaf k { type string; } leaf x { type string; } leaf y { type string; } } }`},
	{"add unique",
		`container c { list l { key "k"; leaf k { type string; } leaf x { type string; } } }`,
		`deviation /c/l { deviate add { unique "x"; } }`,
		`container c { list l { key "k"; unique "x"; leaf k { type string; } leaf x { type string; } } }`},
}

func H_C11_deviation() {
	d := c11Devs[vpChoose(len(c11Devs))]
	a, errA := LoadModuleFromString(nil, c11DevHead+d.base+"\n"+d.dev+"\n}")
	b, errB := LoadModuleFromString(nil, c11DevHead+d.expected+"\n}")
	vpAssert(errB == nil, "reference module loads: "+d.name)
	known := "C11-dev-" + strings.ReplaceAll(d.name, " ", "-")
	vpAssertK(known, true, errA == nil, "module with deviation '"+d.name+"' loads")
	if errA != nil {
		return
	}
	da, db := vpDump(a), vpDump(b)
	vpAssertK(known, true, da == db, "deviation '"+d.name+"' changes exactly the named property and nothing else")
	vpCover("reached")
}
