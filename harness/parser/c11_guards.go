package parser

import (
	"io"
	"strings"

	"github.com/freeconf/yang/meta"
)

// C11 (system level): a definition guarded by if-feature is present in the
// compiled schema exactly when its expression holds, for every guardable
// statement kind and every feature configuration (allow-list and deny-list).

const c11Head = `module m { namespace "urn:m"; prefix m; revision 2020-01-01;
	feature a; feature b; feature c; feature d;
	grouping g { leaf gl { type string; } leaf gl2 { type string; } }
	container base { leaf keep { type string; } }
`

type c11Kind struct {
	name string
	body string // EXPR is replaced
	// present reports whether the guarded definition exists in the compiled module
	present func(m *meta.Module) bool
	// intact reports that the unguarded neighbours are untouched
	intact func(m *meta.Module) bool
}

func c11Has(m *meta.Module, path string) bool {
	return meta.Find(m, path) != nil
}

func c11Keep(m *meta.Module) bool { return c11Has(m, "base/keep") }

var c11Kinds = []c11Kind{
	{"leaf", `leaf x { if-feature "EXPR"; type string; } leaf after { type string; }`,
		func(m *meta.Module) bool { return c11Has(m, "x") }, func(m *meta.Module) bool { return c11Has(m, "after") }},
	{"container", `container x { if-feature "EXPR"; leaf y { type string; } } leaf after { type string; }`,
		func(m *meta.Module) bool { return c11Has(m, "x") }, func(m *meta.Module) bool { return c11Has(m, "after") }},
	{"list", `list x { if-feature "EXPR"; key "k"; leaf k { type string; } } leaf after { type string; }`,
		func(m *meta.Module) bool { return c11Has(m, "x") }, func(m *meta.Module) bool { return c11Has(m, "after") }},
	{"leaf-list", `leaf-list x { if-feature "EXPR"; type string; } leaf after { type string; }`,
		func(m *meta.Module) bool { return c11Has(m, "x") }, func(m *meta.Module) bool { return c11Has(m, "after") }},
	{"choice", `choice x { if-feature "EXPR"; case c1 { leaf y { type string; } } } leaf after { type string; }`,
		func(m *meta.Module) bool { return c11Has(m, "x") }, func(m *meta.Module) bool { return c11Has(m, "after") }},
	{"case", `choice ch { case x { if-feature "EXPR"; leaf y { type string; } } case other { leaf z { type string; } } }`,
		func(m *meta.Module) bool {
			ch := meta.Find(m, "ch").(*meta.Choice)
			_, ok := ch.Cases()["x"]
			return ok
		}, func(m *meta.Module) bool {
			ch := meta.Find(m, "ch").(*meta.Choice)
			_, ok := ch.Cases()["other"]
			return ok
		}},
	{"uses", `container u { uses g { if-feature "EXPR"; } leaf after { type string; } }`,
		func(m *meta.Module) bool { return c11Has(m, "u/gl") }, func(m *meta.Module) bool { return c11Has(m, "u/after") }},
	{"augment", `augment "/base" { if-feature "EXPR"; leaf x { type string; } }`,
		func(m *meta.Module) bool { return c11Has(m, "base/x") }, c11Keep},
	{"refine", `container u { uses g { refine gl { if-feature "EXPR"; description "refined"; } refine gl2 { description "r2"; } } }`,
		func(m *meta.Module) bool { return meta.Find(m, "u/gl").(*meta.Leaf).Description() == "refined" },
		func(m *meta.Module) bool { return meta.Find(m, "u/gl2").(*meta.Leaf).Description() == "r2" }},
	{"anydata", `anydata x { if-feature "EXPR"; } leaf after { type string; }`,
		func(m *meta.Module) bool { return c11Has(m, "x") }, func(m *meta.Module) bool { return c11Has(m, "after") }},
	{"notification", `notification x { if-feature "EXPR"; leaf y { type string; } } notification other { leaf z { type string; } }`,
		func(m *meta.Module) bool { _, ok := m.Notifications()["x"]; return ok },
		func(m *meta.Module) bool { _, ok := m.Notifications()["other"]; return ok }},
	{"rpc", `rpc x { if-feature "EXPR"; input { leaf y { type string; } } } rpc other { input { leaf z { type string; } } }`,
		func(m *meta.Module) bool { _, ok := m.Actions()["x"]; return ok },
		func(m *meta.Module) bool { _, ok := m.Actions()["other"]; return ok }},
}

var c11L2Exprs = []struct {
	text string
	eval func(a, b, c, d bool) bool
}{
	{"a and (b or c) or d", func(a, b, c, d bool) bool { return a && (b || c) || d }},
	{"not a or b and c", func(a, b, c, d bool) bool { return !a || b && c }},
	{"not a and b", func(a, b, c, d bool) bool { return !a && b }}, // false when every feature is on
	// the same grammar under every separator RFC 7950 allows (sep = space / tab / line break) and with prefixed names
	{"a\tand\t(b\tor\tc)\tor\td", func(a, b, c, d bool) bool { return a && (b || c) || d }},
	{"a and\n      (b or c)\n      or d", func(a, b, c, d bool) bool { return a && (b || c) || d }},
	{"  ( a and ( b or c ) )  or  d ", func(a, b, c, d bool) bool { return a && (b || c) || d }},
	{"m:a and (m:b or c) or m:d", func(a, b, c, d bool) bool { return a && (b || c) || d }},
	{"not m:a or b and m:c", func(a, b, c, d bool) bool { return !a || b && c }},
}

func c11Guard(kind c11Kind) {
	e := c11L2Exprs[vpChoose(len(c11L2Exprs))]
	allow := vpBool() // allow-list (FeaturesOn) or deny-list (FeaturesOff)
	var listed [4]bool
	var list []string
	for i, f := range []string{"a", "b", "c", "d"} {
		listed[i] = vpBool()
		if listed[i] {
			list = append(list, f)
		}
	}
	var fs meta.FeatureSet
	if allow {
		fs = meta.FeaturesOn(list)
	} else if len(list) == 0 && vpBool() {
		fs = meta.AllFeaturesOn()
	} else {
		fs = meta.FeaturesOff(list)
	}
	on := func(i int) bool { return listed[i] == allow }
	text := c11Head + strings.Replace(kind.body, "EXPR", e.text, 1) + "\n}"
	m, err := LoadModuleFromStringWithOptions(nil, text, Options{Features: fs})
	vpAssert(err == nil, "module with guarded "+kind.name+" loads")
	want := e.eval(on(0), on(1), on(2), on(3))
	vpAssertK("C11-guard-"+kind.name, true, kind.present(m) == want, "guarded "+kind.name+" is present exactly when its if-feature expression is true")
	vpAssertK("C11-guard-"+kind.name, true, kind.intact(m) && c11Keep(m), "definitions next to the guarded "+kind.name+" are untouched")
	vpCover("reached")
}

func H_C11_guard_leaf()      { c11Guard(c11Kinds[0]) }
func H_C11_guard_container() { c11Guard(c11Kinds[1]) }
func H_C11_guard_list()      { c11Guard(c11Kinds[2]) }
func H_C11_guard_leaflist()  { c11Guard(c11Kinds[3]) }
func H_C11_guard_choice()    { c11Guard(c11Kinds[4]) }
func H_C11_guard_case()      { c11Guard(c11Kinds[5]) }
func H_C11_guard_uses()      { c11Guard(c11Kinds[6]) }
func H_C11_guard_augment()   { c11Guard(c11Kinds[7]) }
func H_C11_guard_refine()    { c11Guard(c11Kinds[8]) }
func H_C11_guard_anydata()   { c11Guard(c11Kinds[9]) }

// a malformed expression is an error under every feature configuration (also all-on / default options)
func H_C11_guard_malformed() {
	bad := []string{"a and", "(a", "a b", "not", "a or or b", "!a", "a&&b", "a,b", "a|b", "a or\tor b", "(a))", "a:", ":a", "m:", "nosuchprefix:a", "a and 1b", "a or b)", "()", "not (", "a AND b", "a;b"}
	e := bad[vpChoose(len(bad))]
	text := c11Head + `leaf x { if-feature "` + e + `"; type string; }` + "\n}"
	var opts Options
	switch vpChoose(4) {
	case 0: // default options
	case 1:
		opts.Features = meta.AllFeaturesOn()
	case 2:
		opts.Features = meta.FeaturesOn([]string{"a"})
	case 3:
		opts.Features = meta.FeaturesOff([]string{"a"})
	}
	_, err := LoadModuleFromStringWithOptions(nil, text, opts)
	vpAssertK("C11-malformed-token", true, err != nil, "a malformed if-feature expression ("+strings.ReplaceAll(e, "\t", "<TAB>")+") is an error, whatever the feature configuration")
	vpCover("reached")
}

// a malformed expression is an error wherever it stands: second if-feature of a node whose first one is false,
// on a node inside a guarded-off container, on a case, uses, augment, refine
func H_C11_guard_malformed_anywhere() {
	bodies := []string{
		`leaf x { if-feature "not a"; if-feature "a and"; type string; }`,
		`leaf x { if-feature "a and"; if-feature "not a"; type string; }`,
		`container off { if-feature "not a"; leaf x { if-feature "(a"; type string; } }`,
		`choice ch { case x { if-feature "a or"; leaf y { type string; } } }`,
		`container u { uses g { if-feature "a b"; } }`,
		`augment "/base" { if-feature "or a"; leaf x { type string; } }`,
		`container u { uses g { refine gl { if-feature "a and and b"; description "r"; } } }`,
		`leaf-list x { if-feature ")"; type string; }`,
	}
	text := c11Head + bodies[vpChoose(len(bodies))] + "\n}"
	var opts Options
	if vpBool() {
		opts.Features = meta.FeaturesOff([]string{"b"})
	}
	_, err := LoadModuleFromStringWithOptions(nil, text, opts)
	vpAssertK("C11-malformed-skipped", true, err != nil, "a malformed if-feature expression is an error wherever it stands")
	vpCover("reached")
}

// features declared in a submodule or in an imported module
func c11FeatOpener(name string, ext string) (io.Reader, error) {
	switch name {
	case "sub":
		return strings.NewReader(`submodule sub { belongs-to m { prefix m; } feature sf; leaf plain { type string; } leaf sl { if-feature sf; type string; } }`), nil
	case "other":
		return strings.NewReader(`module other { namespace "urn:o"; prefix o; feature of; leaf ol { if-feature of; type string; } }`), nil
	}
	return nil, nil
}

func H_C11_guard_foreign_features() {
	text := `module m { namespace "urn:m"; prefix m; revision 2020-01-01; include sub; import other { prefix o; } feature a;
		leaf l { if-feature sf; type string; } leaf l2 { if-feature "m:sf and a"; type string; } leaf l3 { if-feature "o:of"; type string; } leaf l4 { if-feature "not o:of or a"; type string; } leaf keep { type string; } }`
	cfg := vpChoose(6)
	var fs meta.FeatureSet
	sf, a, of := true, true, true
	switch cfg {
	case 0: // default options
	case 1:
		fs = meta.AllFeaturesOn()
	case 2:
		fs = meta.FeaturesOn([]string{"sf"})
		a, of = false, false
	case 3:
		fs = meta.FeaturesOff([]string{"sf"})
		sf = false
	case 4:
		fs = meta.FeaturesOn([]string{"sf", "a", "of"})
	case 5:
		fs = meta.FeaturesOff([]string{"of"})
		of = false
	}
	m, err := LoadModuleFromStringWithOptions(c11FeatOpener, text, Options{Features: fs})
	vpAssert(err == nil, "module loads")
	if err != nil {
		return
	}
	vpAssert(c11Has(m, "keep") && c11Has(m, "plain"), "unguarded definitions of module and submodule are present")
	vpAssertK("C11-submodule-feature", true, c11Has(m, "l") == sf && c11Has(m, "sl") == sf, "a node guarded by a feature declared in a submodule is present exactly when that feature is enabled")
	vpAssertK("C11-prefixed-feature", true, c11Has(m, "l2") == (sf && a), "a feature name with the module's own prefix names the same feature")
	vpAssertK("C11-prefixed-feature", true, c11Has(m, "l3") == of && c11Has(m, "l4") == (!of || a), "a feature name with an import's prefix names the imported module's feature")
	vpCover("reached")
}
