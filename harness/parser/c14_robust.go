package parser

import (
	"errors"
	"io"
	"strings"

	"github.com/freeconf/yang/meta"
	"github.com/freeconf/yang/source"
)

// C14: loading any text terminates with a module or an error; a returned
// module can be walked through the public accessors.

const c14Base = `module m {
	namespace "urn:m";
	prefix "m";
	revision 2020-01-01 { description "first"; }
	feature f1;
	identity base-id;
	identity kid { base base-id; }
	typedef t { type int32 { range "0..10"; } default 5; units "s"; }
	extension ext { argument "name"; }
	grouping g { leaf gx { type t; } leaf-list gy { type string; max-elements 3; } }
	container c {
		m:ext "arg";
		description "a /* not a comment */ container";
		uses g { refine gx { default 7; } }
		list l { key "k"; unique "v"; leaf k { type string { length "1..4"; pattern "[a-z]+"; } } leaf v { type uint8; } }
		choice ch { case a { leaf a1 { type enumeration { enum one; enum two { value 5; } } } } leaf sh { type boolean; } }
		leaf ref { type leafref { path "../l/k"; } }
		leaf idr { if-feature "f1"; type identityref { base base-id; } must "../ref" { error-message "no"; } when "sh=1"; }
		leaf u { type union { type int32; type string; } }
		leaf b { type bits { bit b0; bit b1 { position 4; } } }
	}
	augment "/c" { leaf aug { type string; } }
	rpc r { input { leaf i { type string; } } output { leaf o { type string; } } }
	notification n { leaf e { type string; } }
	// trailing comment
}
`

// c14Load loads text and classifies the outcome; a module is walked.
func c14Load(text string, opener source.Opener) (loaded bool, panicked bool) {
	// non-termination is a violation here, not an inconclusive unwinding bound: loops are limited
	// only by the step budget (about 100x the longest valid load) and the frame-depth budget
	vpUnwind(1 << 30)
	vpSteps(4000000)
	vpDepth(1500)
	panicked = vpCatch(func() {
		m, err := LoadModuleFromString(opener, text)
		if err == nil && m != nil {
			loaded = true
			c14Walk(m, 0)
		}
	})
	return
}

// c14Walk touches the public accessors of every definition (no formatting).
func c14Walk(d meta.Definition, depth int) int {
	if depth > 400 {
		return 0
	}
	n := len(d.Ident())
	if h, ok := d.(meta.HasExtensions); ok {
		for _, e := range h.Extensions() {
			n += len(e.Keyword()) + len(e.Argument())
		}
	}
	if l, ok := d.(meta.Leafable); ok {
		t := l.Type()
		if t != nil {
			n += int(t.Format()) + len(t.Range()) + len(t.Length()) + len(t.Patterns()) + len(t.Enum()) + len(t.Bits()) + len(t.Union()) + len(t.Base()) + len(t.Path())
		}
		n += len(l.Units())
		if l.HasDefault() {
			_ = l.DefaultValue()
		}
	}
	if h, ok := d.(meta.HasDetails); ok && h.Config() && h.Mandatory() {
		n++
	}
	if h, ok := d.(meta.HasWhen); ok && h.When() != nil {
		n += len(h.When().Expression())
	}
	if h, ok := d.(meta.HasMusts); ok {
		n += len(h.Musts())
	}
	if l, ok := d.(*meta.List); ok {
		n += len(l.KeyMeta())
	}
	if c, ok := d.(*meta.Choice); ok {
		for _, id := range c.CaseIdents() {
			n += c14Walk(c.Cases()[id], depth+1)
		}
		return n
	}
	if h, ok := d.(meta.HasDataDefinitions); ok {
		for _, c := range h.DataDefinitions() {
			n += c14Walk(c, depth+1)
		}
	}
	if r, ok := d.(*meta.Rpc); ok {
		if r.Input() != nil {
			n += c14Walk(r.Input(), depth+1)
		}
		if r.Output() != nil {
			n += c14Walk(r.Output(), depth+1)
		}
	}
	if h, ok := d.(meta.HasActions); ok {
		for _, a := range h.Actions() {
			n += c14Walk(a, depth+1)
		}
	}
	if h, ok := d.(meta.HasNotifications); ok {
		for _, x := range h.Notifications() {
			n += c14Walk(x, depth+1)
		}
	}
	return n
}

func c14Step() int {
	if vpTier() > 0 {
		return 1
	}
	return 3
}

// one arbitrary byte anywhere in a valid module
func H_C14_window_byte() {
	n := (len(c14Base) + c14Step() - 1) / c14Step()
	pos := vpChoose(n) * c14Step()
	b := vpByte()
	text := c14Base[:pos] + string([]byte{b}) + c14Base[pos+1:]
	_, p := c14Load(text, nil)
	vpAssertK("C14-window-panics", true, !p, "a module with one arbitrary byte loads or fails with an error, never a panic")
	vpCover("reached")
}

// one arbitrary byte inserted at any position
func H_C14_T_insert_byte() {
	pos := vpChoose(len(c14Base))
	b := vpByte()
	text := c14Base[:pos] + string([]byte{b}) + c14Base[pos:]
	_, p := c14Load(text, nil)
	vpAssertK("C14-window-panics", true, !p, "a module with one inserted arbitrary byte loads or fails with an error")
	vpCover("reached")
}

// every truncation point
func H_C14_prefix() {
	cut := vpChoose(len(c14Base) + 1)
	_, p := c14Load(c14Base[:cut], nil)
	vpAssertK("C14-truncation-panics", true, !p, "every prefix of a module loads or fails with an error, never a panic")
	vpCover("reached")
}

// single-token deletion / duplication / substitution
func c14Tokens() []string {
	var toks []string
	cur := ""
	flush := func() {
		if cur != "" {
			toks = append(toks, cur)
			cur = ""
		}
	}
	inStr := false
	for i := 0; i < len(c14Base); i++ {
		c := c14Base[i]
		switch {
		case inStr:
			cur += string(c)
			if c == '"' {
				inStr = false
				flush()
			}
		case c == '"':
			flush()
			cur = "\""
			inStr = true
		case c == ' ' || c == '\n' || c == '\t':
			flush()
		case c == '{' || c == '}' || c == ';':
			flush()
			toks = append(toks, string(c))
		default:
			cur += string(c)
		}
	}
	flush()
	return toks
}

func H_C14_token_edit() {
	toks := c14Tokens()
	i := vpChoose(len(toks))
	var out []string
	switch vpChoose(4) {
	case 0: // delete
		out = append(append(out, toks[:i]...), toks[i+1:]...)
	case 1: // duplicate
		out = append(append(append(out, toks[:i+1]...), toks[i]), toks[i+1:]...)
	case 2: // substitute with a brace / keyword / string
		subs := []string{"{", "}", ";", "leaf", "\"x\"", "type", "module", "+", "99999999999999999999", "min", "''"}
		out = append(append(append(out, toks[:i]...), subs[vpChoose(len(subs))]), toks[i+1:]...)
	case 3: // swap with the next token
		out = append(out, toks...)
		if i+1 < len(out) {
			out[i], out[i+1] = out[i+1], out[i]
		}
	}
	_, p := c14Load(strings.Join(out, " "), nil)
	vpAssertK("C14-token-edit-panics", true, !p, "a module with one token deleted, duplicated, substituted or swapped loads or fails with an error")
	vpCover("reached")
}

var c14Pathological = []struct{ name, text string }{
	{"comment at eof", "module m { namespace \"u\"; prefix p; } // trailing"},
	{"open block comment", "module m { namespace \"u\"; prefix p; /* never closed"},
	{"typedef cycle", "module m { namespace \"u\"; prefix p; typedef a { type a; } leaf x { type a; } }"},
	{"typedef mutual cycle", "module m { namespace \"u\"; prefix p; typedef a { type b; } typedef b { type a; } leaf x { type a; } }"},
	{"grouping self use", "module m { namespace \"u\"; prefix p; grouping g { uses g; } container c { uses g; } }"},
	{"grouping mutual use", "module m { namespace \"u\"; prefix p; grouping g { uses h; } grouping h { uses g; } container c { uses g; } }"},
	{"identity self base", "module m { namespace \"u\"; prefix p; identity i { base i; } leaf x { type identityref { base i; } } }"},
	{"identity cycle", "module m { namespace \"u\"; prefix p; identity i { base j; } identity j { base i; } leaf x { type identityref { base i; } } }"},
	{"unknown type", "module m { namespace \"u\"; prefix p; leaf x { type nosuch; } }"},
	{"unknown grouping", "module m { namespace \"u\"; prefix p; container c { uses nosuch; } }"},
	{"unknown prefix", "module m { namespace \"u\"; prefix p; leaf x { type q:t; } }"},
	{"augment missing target", "module m { namespace \"u\"; prefix p; augment \"/nosuch\" { leaf x { type string; } } }"},
	{"deviation missing target", "module m { namespace \"u\"; prefix p; deviation /nosuch { deviate not-supported; } }"},
	{"leafref missing target", "module m { namespace \"u\"; prefix p; leaf x { type leafref { path \"../nosuch\"; } } }"},
	{"key missing leaf", "module m { namespace \"u\"; prefix p; list l { key \"nosuch\"; leaf k { type string; } } }"},
	{"refine missing target", "module m { namespace \"u\"; prefix p; grouping g { leaf a { type string; } } container c { uses g { refine nosuch { default \"1\"; } } } }"},
	{"empty", ""},
	{"only whitespace", "  \n\t "},
	{"only comment", "// nothing"},
	{"empty string tokens", "module m { namespace \"\"; prefix \"\"; description \"\"; }"},
	{"duplicate leaf", "module m { namespace \"u\"; prefix p; leaf x { type string; } leaf x { type string; } }"},
	{"bad range", "module m { namespace \"u\"; prefix p; leaf x { type int32 { range \"a..b\"; } } }"},
	{"bad pattern", "module m { namespace \"u\"; prefix p; leaf x { type string { pattern \"(\"; } } }"},
	{"bad revision", "module m { namespace \"u\"; prefix p; revision nodate; }"},
	{"choice default missing", "module m { namespace \"u\"; prefix p; choice c { default nosuch; case a { leaf x { type string; } } } }"},
	{"union empty", "module m { namespace \"u\"; prefix p; leaf x { type union; } }"},
	{"enum empty", "module m { namespace \"u\"; prefix p; leaf x { type enumeration; } }"},
	{"config true under false", "module m { namespace \"u\"; prefix p; container c { config false; leaf x { config true; type string; } } }"},
	{"leafref to container", "module m { namespace \"u\"; prefix p; container c { leaf a { type string; } } leaf x { type leafref { path \"../c\"; } } }"},
	{"leafref to list", "module m { namespace \"u\"; prefix p; list l { key k; leaf k { type string; } } leaf x { type leafref { path \"../l\"; } } }"},
	{"leafref to choice", "module m { namespace \"u\"; prefix p; choice ch { leaf a { type string; } } leaf x { type leafref { path \"../ch\"; } } }"},
	{"leafref to itself", "module m { namespace \"u\"; prefix p; leaf x { type leafref { path \"../x\"; } } }"},
	{"leafref mutual", "module m { namespace \"u\"; prefix p; leaf x { type leafref { path \"../y\"; } } leaf y { type leafref { path \"../x\"; } } }"},
	{"leafref in typedef to container", "module m { namespace \"u\"; prefix p; typedef r { type leafref { path \"../c\"; } } container c { leaf a { type string; } } leaf x { type r; } }"},
	{"key names container", "module m { namespace \"u\"; prefix p; list l { key c; container c { leaf a { type string; } } } }"},
	{"key names leaf-list", "module m { namespace \"u\"; prefix p; list l { key c; leaf-list c { type string; } } }"},
	{"unique names container", "module m { namespace \"u\"; prefix p; list l { key k; unique c; leaf k { type string; } container c { leaf a { type string; } } } }"},
	{"augment targets leaf", "module m { namespace \"u\"; prefix p; leaf a { type string; } augment \"/a\" { leaf x { type string; } } }"},
	{"augment targets rpc", "module m { namespace \"u\"; prefix p; rpc r { input { leaf i { type string; } } } augment \"/r\" { leaf x { type string; } } }"},
	{"refine default on container", "module m { namespace \"u\"; prefix p; grouping g { container a { leaf l { type string; } } } container c { uses g { refine a { default \"1\"; mandatory true; max-elements 3; min-elements 1; } } } }"},
	{"refine presence on leaf", "module m { namespace \"u\"; prefix p; grouping g { leaf a { type string; } } container c { uses g { refine a { presence \"x\"; config false; } } } }"},
	{"deviate replace type on container", "module m { namespace \"u\"; prefix p; container c { leaf a { type string; } } deviation /c { deviate replace { type int32; default 1; units s; mandatory true; min-elements 1; max-elements 2; config false; } } }"},
	{"deviate add unique on leaf", "module m { namespace \"u\"; prefix p; leaf a { type string; } deviation /a { deviate add { unique x; must \"1\"; default d; } } }"},
	{"deviate delete on leaf", "module m { namespace \"u\"; prefix p; leaf a { type string; } deviation /a { deviate delete { unique x; must \"1\"; default d; units s; } } }"},
	{"choice default names nested", "module m { namespace \"u\"; prefix p; choice c { default x; case a { leaf x { type string; } } } }"},
	{"uses names typedef", "module m { namespace \"u\"; prefix p; typedef g { type string; } container c { uses g; } }"},
	{"type names grouping", "module m { namespace \"u\"; prefix p; grouping g { leaf a { type string; } } leaf x { type g; } }"},
	{"identityref base names feature", "module m { namespace \"u\"; prefix p; feature i; leaf x { type identityref { base i; } } }"},
	{"identityref no base", "module m { namespace \"u\"; prefix p; leaf x { type identityref; } }"},
	{"leafref no path", "module m { namespace \"u\"; prefix p; leaf x { type leafref; } }"},
	{"belongs-to in module", "module m { namespace \"u\"; prefix p; belongs-to x { prefix x; } leaf a { type string; } }"},
	{"belongs-to bare in module", "module m { namespace \"u\"; prefix p; belongs-to x; leaf a { type string; } }"},
	{"submodule alone", "submodule s { belongs-to m { prefix p; } leaf a { type string; } }"},
	{"submodule without belongs-to", "submodule s { leaf a { type string; } }"},
	{"import without source", "module m { namespace \"u\"; prefix p; import other { prefix o; } leaf a { type o:t; } }"},
	{"include without source", "module m { namespace \"u\"; prefix p; include sub; }"},
	{"if-feature unknown", "module m { namespace \"u\"; prefix p; leaf a { if-feature nosuch; type string; } }"},
	{"if-feature malformed", "module m { namespace \"u\"; prefix p; feature f; leaf a { if-feature \"f and (\"; type string; } leaf b { if-feature \"not\"; type string; } leaf c { if-feature \") or (\"; type string; } }"},
	{"default not in enum", "module m { namespace \"u\"; prefix p; leaf a { type enumeration { enum x; } default y; } }"},
	{"default not a number", "module m { namespace \"u\"; prefix p; leaf a { type int32; default zz; } leaf-list b { type uint8; default 300; } }"},
	{"union of leafrefs", "module m { namespace \"u\"; prefix p; leaf a { type string; } leaf x { type union { type leafref { path \"../a\"; } type leafref { path \"../nosuch\"; } } } }"},
	{"rpc input twice", "module m { namespace \"u\"; prefix p; rpc r { input { leaf i { type string; } } input { leaf j { type string; } } output { } output { } } }"},
	{"action in list without key", "module m { namespace \"u\"; prefix p; list l { action a { input { leaf i { type string; } } } notification n { leaf e { type string; } } } }"},
	{"extension argument misuse", "module m { namespace \"u\"; prefix p; extension e; p:e \"a\" { p:e { p:nosuch; } } q:zz; }"},
}

func H_C14_pathological() {
	c := c14Pathological[vpChoose(len(c14Pathological))]
	_, p := c14Load(c.text, nil)
	vpAssertK("C14-"+strings.ReplaceAll(c.name, " ", "-"), true, !p, c.name+": loads or fails with an error, never a panic, stack exhaustion or hang")
	vpCover("reached")
}

func H_C14_deep_and_wide() {
	var sb strings.Builder
	sb.WriteString("module m { namespace \"u\"; prefix p; ")
	switch vpChoose(3) {
	case 0: // deep nesting
		depth := 300
		for i := 0; i < depth; i++ {
			sb.WriteString("container c { ")
		}
		sb.WriteString("leaf x { type string; } ")
		for i := 0; i < depth; i++ {
			sb.WriteString("} ")
		}
	case 1: // many extension arguments / unknown statements
		sb.WriteString("extension e { argument a; } ")
		for i := 0; i < 100; i++ {
			sb.WriteString("p:e \"v\"; ")
		}
	case 2: // many concatenated string parts
		sb.WriteString("description \"a\"")
		for i := 0; i < 100; i++ {
			sb.WriteString(" + \"b\"")
		}
		sb.WriteString("; ")
	}
	sb.WriteString("}")
	_, p := c14Load(sb.String(), nil)
	vpAssertK("C14-deep-nesting", true, !p, "pathological nesting depth and argument counts load or fail with an error")
	vpCover("reached")
}

// opener behaviours
type c14Reader struct {
	s      string
	pos    int
	failAt int
}

func (r *c14Reader) Read(p []byte) (int, error) {
	if r.failAt >= 0 && r.pos >= r.failAt {
		return 0, errors.New("vp read failure")
	}
	if r.pos >= len(r.s) {
		return 0, io.EOF
	}
	n := copy(p, r.s[r.pos:])
	if r.failAt >= 0 && r.pos+n > r.failAt {
		n = r.failAt - r.pos
	}
	r.pos += n
	return n, nil
}

const c14Main = `module m { namespace "u"; prefix p; import other { prefix o; } include sub; identity mi; leaf x { type o:t; } }`
const c14Other = `module other { namespace "o"; prefix o; typedef t { type string; } }`
const c14OtherBack = `module other { namespace "o"; prefix o; import m { prefix m; } typedef t { type string; } identity oi; }`
const c14OtherThird = `module other { namespace "o"; prefix o; import third { prefix t; } typedef t { type string; } }`
const c14Third = `module third { namespace "t"; prefix t; import m { prefix m; } identity ti; }`
const c14SubSelf = `submodule sub { belongs-to m { prefix p; } include sub; include m; leaf s { type string; } }`
const c14OtherUses = `module other { namespace "o"; prefix o; import m { prefix m; } typedef t { type string; } identity oi { base m:mi; } leaf oy { type leafref { path "/m:x"; } } }`
const c14AliasX = `module x { namespace "x"; prefix x; import other2 { prefix y; } typedef t { type string; } }`
const c14AliasY = `module y { namespace "y"; prefix y; import other { prefix x; } }`
const c14AliasSelf = `module z { namespace "z"; prefix z; import elsewhere { prefix e; } typedef t { type string; } }`
const c14Sub = `submodule sub { belongs-to m { prefix p; } leaf s { type string; } }`

func H_C14_opener_faults() {
	behaviour := vpChoose(14)
	opener := func(name string, ext string) (io.Reader, error) {
		switch behaviour {
		case 0: // everything available
		case 1: // missing file: nil, nil
			return nil, nil
		case 2:
			return nil, errors.New("vp open failure")
		case 3: // read error after a few bytes
			if name == "other" {
				return &c14Reader{s: c14Other, failAt: 10}, nil
			}
		case 4: // a module where a submodule is expected
			if name == "sub" {
				return &c14Reader{s: c14Other, failAt: -1}, nil
			}
		case 5: // the importing module itself (self import)
			if name == "other" {
				return &c14Reader{s: c14Main, failAt: -1}, nil
			}
		case 6: // a submodule where a module is expected
			if name == "other" {
				return &c14Reader{s: c14Sub, failAt: -1}, nil
			}
		case 7: // garbage
			return &c14Reader{s: "}}}{{{ ;;; \"", failAt: -1}, nil
		case 8: // plain mutual import: other imports m back
			if name == "other" {
				return &c14Reader{s: c14OtherBack, failAt: -1}, nil
			}
			if name == "m" {
				return &c14Reader{s: c14Main, failAt: -1}, nil
			}
		case 9: // import cycle of length three: m -> other -> third -> m
			switch name {
			case "other":
				return &c14Reader{s: c14OtherThird, failAt: -1}, nil
			case "third":
				return &c14Reader{s: c14Third, failAt: -1}, nil
			case "m":
				return &c14Reader{s: c14Main, failAt: -1}, nil
			}
		case 10: // the submodule includes itself / its parent module
			if name == "sub" {
				return &c14Reader{s: c14SubSelf, failAt: -1}, nil
			}
			if name == "m" {
				return &c14Reader{s: c14Main, failAt: -1}, nil
			}
		case 12: // an import cycle through file names that differ from the module names inside
			switch name {
			case "other":
				return &c14Reader{s: c14AliasX, failAt: -1}, nil
			case "other2":
				return &c14Reader{s: c14AliasY, failAt: -1}, nil
			}
		case 13: // every name is answered with one and the same module that imports yet another name
			if name != "sub" {
				return &c14Reader{s: c14AliasSelf, failAt: -1}, nil
			}
		case 11: // mutual import where each side uses the other's definitions
			if name == "other" {
				return &c14Reader{s: c14OtherUses, failAt: -1}, nil
			}
			if name == "m" {
				return &c14Reader{s: c14Main, failAt: -1}, nil
			}
		}
		switch name {
		case "other":
			return &c14Reader{s: c14Other, failAt: -1}, nil
		case "sub":
			return &c14Reader{s: c14Sub, failAt: -1}, nil
		}
		return nil, nil
	}
	loaded, p := c14Load(c14Main, opener)
	vpAssertK("C14-opener-fault-panics", true, !p, "every opener behaviour ends in a module or an error")
	if behaviour == 0 {
		vpAssert(loaded, "with everything available the module loads")
	}
	vpCover("reached")
}

// every statement keyword placed in every block statement: a misplaced statement is an error, never a crash
var c14Blocks = []string{"module", "container", "list", "leaf", "leaf-list", "choice", "case", "grouping", "typedef", "type", "rpc", "input", "output",
	"action", "notification", "augment", "uses", "refine", "deviation", "deviate", "identity", "feature", "extension", "revision", "import", "include",
	"enum", "bit", "range", "length", "pattern", "must", "when", "anyxml", "anydata"}
var c14Stmts = []string{"namespace u", "prefix p", "yang-version 1.1", "organization o", "contact c", "description d", "reference r", "revision 2020-01-01",
	"revision-date 2020-01-01", "import other { prefix o; }", "include sub", "belongs-to m { prefix p; }", "feature f2", "if-feature f1", "identity i2 { base i1; }", "base i1",
	"typedef t2 { type string; }", "type string", "type int32 { range \"1..2\"; }", "type enumeration { enum a; }", "type leafref { path \"../zz\"; }", "type union { type string; }",
	"type identityref { base i1; }", "type bits { bit b; }", "type decimal64 { fraction-digits 2; }", "fraction-digits 2", "range \"1..2\"", "length \"1..2\"", "pattern \"a*\"",
	"enum e", "bit b", "value 3", "position 3", "path \"../zz\"", "require-instance true", "units s", "default 1", "config false", "mandatory true", "presence p", "status deprecated",
	"min-elements 1", "max-elements 2", "ordered-by user", "key k", "unique k", "must \"1\"", "when \"1\"", "error-message e", "error-app-tag t",
	"container c2 { leaf z { type string; } }", "leaf z2 { type string; }", "leaf-list z3 { type string; }", "list z4 { key k; leaf k { type string; } }", "choice z5 { leaf z6 { type string; } }",
	"case z7 { leaf z8 { type string; } }", "anyxml z9", "anydata z10", "grouping g2 { leaf z11 { type string; } }", "uses g1", "uses g1 { refine gx { default 3; } }", "refine gx { default 3; }",
	"augment \"/c\" { leaf z12 { type string; } }", "augment \"c\" { leaf z12 { type string; } }", "rpc r2 { input { leaf i { type string; } } }", "action a2 { input { leaf i { type string; } } }",
	"input { leaf i2 { type string; } }", "output { leaf o2 { type string; } }", "notification n2 { leaf e { type string; } }", "extension x2 { argument a; }", "argument a", "yin-element true",
	"deviation /c { deviate not-supported; }", "deviate not-supported", "deviate add { default 1; }", "deviate replace { type string; }", "deviate delete { units s; }", "p:ext1 arg", "p:ext1", "modifier invert-match"}

func c14Placed(block, stmt string) string {
	var sb strings.Builder
	sb.WriteString("module m { namespace \"u\"; prefix p; feature f1; identity i1; extension ext1 { argument a; } grouping g1 { leaf gx { type int32; } } container c { leaf k { type string; } } ")
	inner := stmt + "; "
	if strings.HasSuffix(stmt, "}") {
		inner = stmt + " "
	}
	switch block {
	case "module":
		sb.WriteString(inner)
	case "container", "list", "choice", "case", "grouping", "rpc", "notification", "anyxml", "anydata", "identity", "feature", "extension", "typedef":
		sb.WriteString(block + " b1 { " + inner + "} ")
	case "leaf", "leaf-list":
		sb.WriteString(block + " b1 { type string; " + inner + "} ")
	case "type":
		sb.WriteString("leaf b1 { type int32 { " + inner + "} } ")
	case "enum":
		sb.WriteString("leaf b1 { type enumeration { enum e1 { " + inner + "} } } ")
	case "bit":
		sb.WriteString("leaf b1 { type bits { bit b1 { " + inner + "} } } ")
	case "range":
		sb.WriteString("leaf b1 { type int32 { range \"1..2\" { " + inner + "} } } ")
	case "length":
		sb.WriteString("leaf b1 { type string { length \"1..2\" { " + inner + "} } } ")
	case "pattern":
		sb.WriteString("leaf b1 { type string { pattern \"a\" { " + inner + "} } } ")
	case "must", "when":
		sb.WriteString("leaf b1 { type string; " + block + " \"1\" { " + inner + "} } ")
	case "input", "output":
		sb.WriteString("rpc b1 { " + block + " { " + inner + "} } ")
	case "action":
		sb.WriteString("container b0 { action b1 { " + inner + "} } ")
	case "augment":
		sb.WriteString("augment \"/c\" { " + inner + "} ")
	case "uses":
		sb.WriteString("container b1 { uses g1 { " + inner + "} } ")
	case "refine":
		sb.WriteString("container b1 { uses g1 { refine gx { " + inner + "} } } ")
	case "deviation":
		sb.WriteString("deviation /c/k { " + inner + "} ")
	case "deviate":
		sb.WriteString("deviation /c/k { deviate add { " + inner + "} } ")
	case "revision":
		sb.WriteString("revision 2021-01-01 { " + inner + "} ")
	case "import":
		sb.WriteString("import other { prefix o; " + inner + "} ")
	case "include":
		sb.WriteString("include sub { " + inner + "} ")
	}
	sb.WriteString("}")
	return sb.String()
}

func c14PlacementOpener(name string, ext string) (io.Reader, error) {
	switch name {
	case "other":
		return &c14Reader{s: c14Other, failAt: -1}, nil
	case "sub":
		return &c14Reader{s: c14Sub, failAt: -1}, nil
	}
	return nil, errors.New("vp no such file")
}

func c14Placement(blocks []string) {
	block := blocks[vpChoose(len(blocks))]
	stmt := c14Stmts[vpChoose(len(c14Stmts))]
	_, p := c14Load(c14Placed(block, stmt), c14PlacementOpener)
	vpAssertK("C14-placement-"+block, true, !p, "statement '"+stmt+"' inside a "+block+" block loads or fails with an error")
	vpCover("reached")
}

func H_C14_placement_core()   { c14Placement(c14Blocks[:8]) }
func H_C14_T_placement_rest() { c14Placement(c14Blocks[8:]) }
