package parser

import (
	"errors"
	"io"
	"strings"

	"github.com/freeconf/yang/meta"
	"github.com/freeconf/yang/source"
)

// C14: loading any text terminates with a module or an error; a returned
// module can be walked through the public accessors.

const c14Base = `module m {
	namespace "urn:m";
	prefix "m";
	revision 2020-01-01 { description "first"; }
	feature f1;
	identity base-id;
	identity kid { base base-id; }
	typedef t { type int32 { range "0..10"; } default 5; units "s"; }
	extension ext { argument "name"; }
	grouping g { leaf gx { type t; } leaf-list gy { type string; max-elements 3; } }
	container c {
		m:ext "arg";
		description "a /* not a comment */ container";
		uses g { refine gx { default 7; } }
		list l { key "k"; unique "v"; leaf k { type string { length "1..4"; pattern "[a-z]+"; } } leaf v { type uint8; } }
		choice ch { case a { leaf a1 { type enumeration { enum one; enum two { value 5; } } } } leaf sh { type boolean; } }
		leaf ref { type leafref { path "../l/k"; } }
		leaf idr { if-feature "f1"; type identityref { base base-id; } must "../ref" { error-message "no"; } when "sh=1"; }
		leaf u { type union { type int32; type string; } }
		leaf b { type bits { bit b0; bit b1 { position 4; } } }
	}
	augment "/c" { leaf aug { type string; } }
	rpc r { input { leaf i { type string; } } output { leaf o { type string; } } }
	notification n { leaf e { type string; } }
	// trailing comment
}
`

// c14Load loads text and classifies the outcome; a module is walked.
func c14Load(text string, opener source.Opener) (loaded bool, panicked bool) {
	// non-termination is a violation here, not an inconclusive unwinding bound: loops are limited
	// only by the step budget (about 100x the longest valid load) and the frame-depth budget
	vpUnwind(1 << 30)
	vpSteps(4000000)
	vpDepth(1500)
	panicked = vpCatch(func() {
		m, err := LoadModuleFromString(opener, text)
		if err == nil && m != nil {
			loaded = true
			c14Walk(m, 0)
		}
	})
	return
}

// c14Walk touches the public accessors of every definition (no formatting).
func c14Walk(d meta.Definition, depth int) int {
	if depth > 400 {
		return 0
	}
	n := len(d.Ident())
	if h, ok := d.(meta.HasExtensions); ok {
		for _, e := range h.Extensions() {
			n += len(e.Keyword()) + len(e.Argument())
		}
	}
	if l, ok := d.(meta.Leafable); ok {
		t := l.Type()
		if t != nil {
			n += int(t.Format()) + len(t.Range()) + len(t.Length()) + len(t.Patterns()) + len(t.Enum()) + len(t.Bits()) + len(t.Union()) + len(t.Base()) + len(t.Path())
		}
		n += len(l.Units())
		if l.HasDefault() {
			_ = l.DefaultValue()
		}
	}
	if h, ok := d.(meta.HasDetails); ok && h.Config() && h.Mandatory() {
		n++
	}
	if h, ok := d.(meta.HasWhen); ok && h.When() != nil {
		n += len(h.When().Expression())
	}
	if h, ok := d.(meta.HasMusts); ok {
		n += len(h.Musts())
	}
	if l, ok := d.(*meta.List); ok {
		n += len(l.KeyMeta())
	}
	if c, ok := d.(*meta.Choice); ok {
		for _, id := range c.CaseIdents() {
			n += c14Walk(c.Cases()[id], depth+1)
		}
		return n
	}
	if h, ok := d.(meta.HasDataDefinitions); ok {
		for _, c := range h.DataDefinitions() {
			n += c14Walk(c, depth+1)
		}
	}
	if r, ok := d.(*meta.Rpc); ok {
		if r.Input() != nil {
			n += c14Walk(r.Input(), depth+1)
		}
		if r.Output() != nil {
			n += c14Walk(r.Output(), depth+1)
		}
	}
	if h, ok := d.(meta.HasActions); ok {
		for _, a := range h.Actions() {
			n += c14Walk(a, depth+1)
		}
	}
	if h, ok := d.(meta.HasNotifications); ok {
		for _, x := range h.Notifications() {
			n += c14Walk(x, depth+1)
		}
	}
	return n
}

func c14Step() int {
	if vpTier() > 0 {
		return 1
	}
	return 3
}

// one arbitrary byte anywhere in a valid module
func H_C14_window_byte() {
	n := (len(c14Base) + c14Step() - 1) / c14Step()
	pos := vpChoose(n) * c14Step()
	b := vpByte()
	text := c14Base[:pos] + string([]byte{b}) + c14Base[pos+1:]
	_, p := c14Load(text, nil)
	vpAssertK("C14-window-panics", true, !p, "a module with one arbitrary byte loads or fails with an error, never a panic")
	vpCover("reached")
}

// one arbitrary byte inserted at any position
func H_C14_T_insert_byte() {
	pos := vpChoose(len(c14Base))
	b := vpByte()
	text := c14Base[:pos] + string([]byte{b}) + c14Base[pos:]
	_, p := c14Load(text, nil)
	vpAssertK("C14-window-panics", true, !p, "a module with one inserted arbitrary byte loads or fails with an error")
	vpCover("reached")
}

// every truncation point
func H_C14_prefix() {
	cut := vpChoose(len(c14Base) + 1)
	_, p := c14Load(c14Base[:cut], nil)
	vpAssertK("C14-truncation-panics", true, !p, "every prefix of a module loads or fails with an error, never a panic")
	vpCover("reached")
}

// single-token deletion / duplication / substitution
func c14Tokens() []string {
	var toks []string
	cur := ""
	flush := func() {
		if cur != "" {
			toks = append(toks, cur)
			cur = ""
		}
	}
	inStr := false
	for i := 0; i < len(c14Base); i++ {
		c := c14Base[i]
		switch {
		case inStr:
			cur += string(c)
			if c == '"' {
				inStr = false
				flush()
			}
		case c == '"':
			flush()
			cur = "\""
			inStr = true
		case c == ' ' || c == '\n' || c == '\t':
			flush()
		case c == '{' || c == '}' || c == ';':
			flush()
			toks = append(toks, string(c))
		default:
			cur += string(c)
		}
	}
	flush()
	return toks
}

func H_C14_token_edit() {
	toks := c14Tokens()
	i := vpChoose(len(toks))
	var out []string
	switch vpChoose(4) {
	case 0: // delete
		out = append(append(out, toks[:i]...), toks[i+1:]...)
	case 1: // duplicate
		out = append(append(append(out, toks[:i+1]...), toks[i]), toks[i+1:]...)
	case 2: // substitute with a brace / keyword / string
		subs := []string{"{", "}", ";", "leaf", "\"x\"", "type", "module", "+", "99999999999999999999", "min", "''"}
		out = append(append(append(out, toks[:i]...), subs[vpChoose(len(subs))]), toks[i+1:]...)
	case 3: // swap with the next token
		out = append(out, toks...)
		if i+1 < len(out) {
			out[i], out[i+1] = out[i+1], out[i]
		}
	}
	_, p := c14Load(strings.Join(out, " "), nil)
	vpAssertK("C14-token-edit-panics", true, !p, "a module with one token deleted, duplicated, substituted or swapped loads or fails with an error")
	vpCover("reached")
}

var c14Pathological = []struct{ name, text string }{
	{"comment at eof", "module m { namespace \"u\"; prefix p; } // trailing"},
	{"open block comment", "module m { namespace \"u\"; prefix p; /* never closed"},
	{"typedef cycle", "module m { namespace \"u\"; prefix p; typedef a { type a; } leaf x { type a; } }"},
	{"typedef mutual cycle", "module m { namespace \"u\"; prefix p; typedef a { type b; } typedef b { type a; } leaf x { type a; } }"},
	{"grouping self use", "module m { namespace \"u\"; prefix p; grouping g { uses g; } container c { uses g; } }"},
	{"grouping mutual use", "module m { namespace \"u\"; prefix p; grouping g { uses h; } grouping h { uses g; } container c { uses g; } }"},
	{"identity self base", "module m { namespace \"u\"; prefix p; identity i { base i; } leaf x { type identityref { base i; } } }"},
	{"identity cycle", "module m { namespace \"u\"; prefix p; identity i { base j; } identity j { base i; } leaf x { type identityref { base i; } } }"},
	{"unknown type", "module m { namespace \"u\"; prefix p; leaf x { type nosuch; } }"},
	{"unknown grouping", "module m { namespace \"u\"; prefix p; container c { uses nosuch; } }"},
	{"unknown prefix", "module m { namespace \"u\"; prefix p; leaf x { type q:t; } }"},
	{"augment missing target", "module m { namespace \"u\"; prefix p; augment \"/nosuch\" { leaf x { type string; } } }"},
	{"deviation missing target", "module m { namespace \"u\"; prefix p; deviation /nosuch { deviate not-supported; } }"},
	{"leafref missing target", "module m { namespace \"u\"; prefix p; leaf x { type leafref { path \"../nosuch\"; } } }"},
	{"key missing leaf", "module m { namespace \"u\"; prefix p; list l { key \"nosuch\"; leaf k { type string; } } }"},
	{"refine missing target", "module m { namespace \"u\"; prefix p; grouping g { leaf a { type string; } } container c { uses g { refine nosuch { default \"1\"; } } } }"},
	{"empty", ""},
	{"only whitespace", "  \n\t "},
	{"only comment", "// nothing"},
	{"empty string tokens", "module m { namespace \"\"; prefix \"\"; description \"\"; }"},
	{"duplicate leaf", "module m { namespace \"u\"; prefix p; leaf x { type string; } leaf x { type string; } }"},
	{"bad range", "module m { namespace \"u\"; prefix p; leaf x { type int32 { range \"a..b\"; } } }"},
	{"bad pattern", "module m { namespace \"u\"; prefix p; leaf x { type string { pattern \"(\"; } } }"},
	{"bad revision", "module m { namespace \"u\"; prefix p; revision nodate; }"},
	{"choice default missing", "module m { namespace \"u\"; prefix p; choice c { default nosuch; case a { leaf x { type string; } } } }"},
	{"union empty", "module m { namespace \"u\"; prefix p; leaf x { type union; } }"},
	{"enum empty", "module m { namespace \"u\"; prefix p; leaf x { type enumeration; } }"},
	{"config true under false", "module m { namespace \"u\"; prefix p; container c { config false; leaf x { config true; type string; } } }"},
}

func H_C14_pathological() {
	c := c14Pathological[vpChoose(len(c14Pathological))]
	_, p := c14Load(c.text, nil)
	vpAssertK("C14-"+strings.ReplaceAll(c.name, " ", "-"), true, !p, c.name+": loads or fails with an error, never a panic, stack exhaustion or hang")
	vpCover("reached")
}

func H_C14_deep_and_wide() {
	var sb strings.Builder
	sb.WriteString("module m { namespace \"u\"; prefix p; ")
	switch vpChoose(3) {
	case 0: // deep nesting
		depth := 300
		for i := 0; i < depth; i++ {
			sb.WriteString("container c { ")
		}
		sb.WriteString("leaf x { type string; } ")
		for i := 0; i < depth; i++ {
			sb.WriteString("} ")
		}
	case 1: // many extension arguments / unknown statements
		sb.WriteString("extension e { argument a; } ")
		for i := 0; i < 100; i++ {
			sb.WriteString("p:e \"v\"; ")
		}
	case 2: // many concatenated string parts
		sb.WriteString("description \"a\"")
		for i := 0; i < 100; i++ {
			sb.WriteString(" + \"b\"")
		}
		sb.WriteString("; ")
	}
	sb.WriteString("}")
	_, p := c14Load(sb.String(), nil)
	vpAssertK("C14-deep-nesting", true, !p, "pathological nesting depth and argument counts load or fail with an error")
	vpCover("reached")
}

// opener behaviours
type c14Reader struct {
	s      string
	pos    int
	failAt int
}

func (r *c14Reader) Read(p []byte) (int, error) {
	if r.failAt >= 0 && r.pos >= r.failAt {
		return 0, errors.New("vp read failure")
	}
	if r.pos >= len(r.s) {
		return 0, io.EOF
	}
	n := copy(p, r.s[r.pos:])
	if r.failAt >= 0 && r.pos+n > r.failAt {
		n = r.failAt - r.pos
	}
	r.pos += n
	return n, nil
}

const c14Main = `module m { namespace "u"; prefix p; import other { prefix o; } include sub; leaf x { type o:t; } }`
const c14Other = `module other { namespace "o"; prefix o; typedef t { type string; } }`
const c14Sub = `submodule sub { belongs-to m { prefix p; } leaf s { type string; } }`

func H_C14_opener_faults() {
	behaviour := vpChoose(8)
	opener := func(name string, ext string) (io.Reader, error) {
		switch behaviour {
		case 0: // everything available
		case 1: // missing file: nil, nil
			return nil, nil
		case 2:
			return nil, errors.New("vp open failure")
		case 3: // read error after a few bytes
			if name == "other" {
				return &c14Reader{s: c14Other, failAt: 10}, nil
			}
		case 4: // a module where a submodule is expected
			if name == "sub" {
				return &c14Reader{s: c14Other, failAt: -1}, nil
			}
		case 5: // the importing module itself (self import)
			if name == "other" {
				return &c14Reader{s: c14Main, failAt: -1}, nil
			}
		case 6: // a submodule where a module is expected
			if name == "other" {
				return &c14Reader{s: c14Sub, failAt: -1}, nil
			}
		case 7: // garbage
			return &c14Reader{s: "}}}{{{ ;;; \"", failAt: -1}, nil
		}
		switch name {
		case "other":
			return &c14Reader{s: c14Other, failAt: -1}, nil
		case "sub":
			return &c14Reader{s: c14Sub, failAt: -1}, nil
		}
		return nil, nil
	}
	loaded, p := c14Load(c14Main, opener)
	vpAssertK("C14-opener-fault-panics", true, !p, "every opener behaviour ends in a module or an error")
	if behaviour == 0 {
		vpAssert(loaded, "with everything available the module loads")
	}
	vpCover("reached")
}

