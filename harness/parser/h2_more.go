package parser

import (
	"io"
	"strings"

	"github.com/freeconf/yang/meta"
)

// Cases taken from the second wave of hunts (hunted/C01, C02), as refactoring / derivation pairs or direct checks.

func h2Opener(name string, ext string) (io.Reader, error) {
	switch name {
	case "s1":
		return strings.NewReader(`submodule s1 { belongs-to m { prefix p; } include s2; container a { uses g2; } }`), nil
	case "s2":
		return strings.NewReader(`submodule s2 { belongs-to m { prefix p; } grouping g2 { leaf q { type string; } } container b { leaf z { type string; } } }`), nil
	}
	return nil, nil
}

func H_C01_more_factorings() {
	type pair struct{ id, a, b string }
	pairs := []pair{
		{"submodule-included-twice",
			`include s1; include s2; container top { uses g2; }`,
			`container a { leaf q { type string; } } container b { leaf z { type string; } } container top { leaf q { type string; } }`},
		{"grouping-with-config-in-rpc-input",
			`grouping g { leaf x { config true; type string; } container k { config false; leaf z { type string; } } } rpc r { input { uses g; } } notification n { uses g; }`,
			`rpc r { input { leaf x { config true; type string; } container k { config false; leaf z { type string; } } } } notification n { leaf x { config true; type string; } container k { config false; leaf z { type string; } } }`},
		{"refine-max-elements-over-unbounded",
			`grouping g { leaf-list ll { type string; max-elements unbounded; } list li { key k; leaf k { type string; } max-elements unbounded; } } container c { uses g { refine ll { max-elements 4; } refine li { max-elements 4; } } }`,
			`container c { leaf-list ll { type string; max-elements 4; } list li { key k; leaf k { type string; } max-elements 4; } }`},
		{"uses-augment-with-inner-uses",
			`grouping g { container c { leaf l { type string; } } } container top { uses g { augment "c" { container inner { uses g; } } } }`,
			`container top { container c { leaf l { type string; } container inner { container c { leaf l { type string; } } } } }`},
		{"uses-inside-a-case",
			`grouping g { leaf x { type string; } } container c { choice ch { case k { uses g; } } leaf r { type leafref { path "../x"; } } }`,
			`container c { choice ch { case k { leaf x { type string; } } } leaf r { type leafref { path "../x"; } } }`},
		{"refine-of-a-node-removed-by-if-feature",
			`feature f; grouping g { leaf a { if-feature "not f"; type string; } leaf b { type string; } } container c { uses g { refine a { description "r"; } } }`,
			`container c { leaf b { type string; } }`},
	}
	pr := pairs[vpChoose(len(pairs))]
	head := `module m { namespace "urn:m"; prefix p; `
	var a *meta.Module
	var errA error
	pa := vpCatch(func() { a, errA = LoadModuleFromString(h2Opener, head+pr.a+" }") })
	b, errB := LoadModuleFromString(h2Opener, head+pr.b+" }")
	vpAssert(errB == nil, "inline writing loads: "+pr.id)
	vpAssertK("C01-h2-"+pr.id, true, !pa && errA == nil, pr.id+": the factored writing loads")
	if pa || errA != nil {
		return
	}
	if pr.id == "submodule-included-twice" {
		// the order in which the definitions of submodules are merged is not what is asked here
		vpAssert(meta.Find(a, "top/q") != nil && meta.Find(a, "a/q") != nil && meta.Find(a, "b/z") != nil && len(a.DataDefinitions()) == 3, "every definition of module and submodules is there once")
		vpCover("reached")
		return
	}
	var da, db string
	pd := vpCatch(func() { da, db = vpDumpOpt(a, true), vpDumpOpt(b, true) })
	vpAssertK("C01-h2-"+pr.id, true, !pd && da == db, pr.id+": the compiled tree is the same however it was factored")
	vpCover("reached")
}

func H_C02_more_derivations() {
	type kase struct {
		id, body string
		check    func(m *meta.Module) bool
	}
	enumIds := func(m *meta.Module, leaf string) string {
		var sb strings.Builder
		for _, e := range meta.Find(m, leaf).(*meta.Leaf).Type().Enum() {
			sb.WriteString(e.Label + "=" + string(rune('0'+e.Id)) + " ")
		}
		return sb.String()
	}
	bitPos := func(m *meta.Module, leaf string) string {
		var sb strings.Builder
		for _, b := range meta.Find(m, leaf).(*meta.Leaf).Type().Bits() {
			sb.WriteString(b.Ident() + "=" + string(rune('0'+b.Position)) + " ")
		}
		return sb.String()
	}
	cases := []kase{
		{"restricted-enum-keeps-its-value", `yang-version 1.1; typedef abc { type enumeration { enum a; enum b; enum c; } } leaf l { type abc { enum c; } } leaf plain { type abc; }`,
			func(m *meta.Module) bool { return enumIds(m, "l") == "c=2 " && enumIds(m, "plain") == "a=0 b=1 c=2 " }},
		{"restricted-bits-keep-their-position", `yang-version 1.1; typedef abc { type bits { bit a; bit b; bit c; } } leaf plain { type abc; } leaf onlyc { type abc { bit c; } }`,
			func(m *meta.Module) bool { return bitPos(m, "onlyc") == "c=2 " && bitPos(m, "plain") == "a=0 b=1 c=2 " }},
		{"typedef-named-any", `typedef any { type string { length "1..3"; } default "x"; units "u"; } leaf l { type any; }`,
			func(m *meta.Module) bool {
				l := meta.Find(m, "l").(*meta.Leaf)
				return l.Type().Format().String() == "string" && len(l.Type().Length()) == 1 && l.HasDefault() && l.Units() == "u"
			}},
		{"relative-leafref-in-a-typedef", `typedef r { type leafref { path "../name"; } } container c { leaf name { type uint16; } leaf x { type r; } }`,
			func(m *meta.Module) bool {
				return meta.Find(m, "c/x").(*meta.Leaf).Type().Resolve().Format().String() == "uint16"
			}},
		{"grouping-leafref-resolved-per-use", `grouping g { leaf r { type leafref { path "../t"; } } } container a { leaf t { type string; } uses g; } container b { leaf t { type int32; } uses g; }`,
			func(m *meta.Module) bool {
				return meta.Find(m, "a/r").(*meta.Leaf).Type().Resolve().Format().String() == "string" && meta.Find(m, "b/r").(*meta.Leaf).Type().Resolve().Format().String() == "int32"
			}},
		{"leafref-path-with-a-predicate", `list ifc { key name; leaf name { type string; } container addr { leaf ip { type string; } } } leaf ifname { type string; } leaf x { type leafref { path "/ifc[name=current()/../ifname]/addr/ip"; } }`,
			func(m *meta.Module) bool {
				return meta.Find(m, "x").(*meta.Leaf).Type().Resolve().Format().String() == "string"
			}},
		{"leafref-from-inside-a-case", `container c { leaf name { type uint8; } choice ch { case k { leaf x { type leafref { path "../name"; } } } } }`,
			func(m *meta.Module) bool {
				return meta.Find(m, "c/x").(*meta.Leaf).Type().Resolve().Format().String() == "uint8"
			}},
	}
	c := cases[vpChoose(len(cases))]
	var m *meta.Module
	var err error
	p := vpCatch(func() { m, err = LoadModuleFromString(nil, `module m { namespace "urn:m"; prefix p; `+c.body+` }`) })
	vpAssertK("C02-h2-"+c.id, true, !p && err == nil, c.id+": the module loads")
	if p || err != nil {
		return
	}
	var ok bool
	p2 := vpCatch(func() { ok = c.check(m) })
	vpAssertK("C02-h2-"+c.id, true, !p2 && ok, c.id+": the effective type is the RFC 7950 derivation")
	vpCover("reached")
}
