package parser

import "github.com/freeconf/yang/meta"

const vpGateYang = `module m {
	namespace "urn:m";
	prefix "m";
	revision 2020-01-01;
	typedef t { type int32 { range "0..10"; } default 5; units "sec"; }
	grouping g { leaf x { type t; } leaf-list y { type string; } }
	container c {
		uses g;
		list l { key "k"; leaf k { type string; } leaf v { type uint8; } }
		choice ch { case a { leaf a1 { type string; } } case b { leaf b1 { type string; } } }
	}
	leaf e { type enumeration { enum one; enum two; } }
}`

func S_gate() any {
	m, err := LoadModuleFromString(nil, vpGateYang)
	if err != nil {
		panic(err)
	}
	return m
}

//vp:setup S_gate
func H_L2_gate(s any) {
	m := s.(*meta.Module)
	vpAssert(m.Ident() == "m", "ident")
	c := m.DataDefinitions()[0].(*meta.Container)
	vpAssert(c.Ident() == "c", "c")
	vpAssert(len(c.DataDefinitions()) == 4, "c children")
	x := c.DataDefinitions()[0].(*meta.Leaf)
	vpAssert(x.Ident() == "x" && x.Units() == "sec", "x units")
	vpCover("done")
}
