package xml

import (
	"bytes"
	"unicode/utf8"
)

// C19 (escape kernel): EscapeText output, un-escaped by a reference decoder,
// is the original text, and contains no markup characters.

func c19Unescape(s string) (string, bool) {
	var out []byte
	for i := 0; i < len(s); {
		c := s[i]
		if c == '<' || c == '>' {
			return "", false // raw markup must never appear in escaped text
		}
		if c == '\r' {
			return "", false // a raw carriage return is turned into a line feed by every XML parser (XML 1.0 2.11)
		}
		if c != '&' {
			out = append(out, c)
			i++
			continue
		}
		j := i + 1
		for j < len(s) && s[j] != ';' {
			j++
		}
		if j >= len(s) {
			return "", false
		}
		ent := s[i+1 : j]
		switch ent {
		case "lt":
			out = append(out, '<')
		case "gt":
			out = append(out, '>')
		case "amp":
			out = append(out, '&')
		case "quot", "#34":
			out = append(out, '"')
		case "apos", "#39":
			out = append(out, '\'')
		case "#x9":
			out = append(out, '\t')
		case "#xA":
			out = append(out, '\n')
		case "#xD":
			out = append(out, '\r')
		default:
			return "", false
		}
		i = j + 1
	}
	return string(out), true
}

func H_C19_escapeText_bytes() {
	n := 2 + vpTier()
	s := vpString(n)
	vpAssume(utf8.ValidString(s))
	for i := 0; i < len(s); i++ {
		// characters XML cannot carry at all (most C0 controls) are replaced by U+FFFD by design
		vpAssume(s[i] >= 0x20 || s[i] == '\t' || s[i] == '\n' || s[i] == '\r')
		// U+FFFE and U+FFFF (EF BF BE / EF BF BF) are valid UTF-8 but not XML 1.0 characters either
		if i+2 < len(s) {
			vpAssume(!(s[i] == 0xEF && s[i+1] == 0xBF && (s[i+2] == 0xBE || s[i+2] == 0xBF)))
		}
	}
	var b bytes.Buffer
	err := EscapeText(&b, []byte(s))
	vpAssert(err == nil, "escaping succeeds")
	back, ok := c19Unescape(b.String())
	vpAssert(ok, "escaped text contains no raw markup and only known entities")
	vpAssert(back == s, "escaped text decodes to the original")
	vpCover("reached")
}
