package val

// C10 oracle helpers: integers as (sign, magnitude) so that int64 and uint64
// values compare mathematically.

type mathInt struct {
	neg bool
	mag uint64
}

func miS(x int64) mathInt {
	if x < 0 {
		return mathInt{true, uint64(-x)} // -MinInt64 wraps to 2^63, which is its magnitude
	}
	return mathInt{false, uint64(x)}
}

func miU(x uint64) mathInt { return mathInt{false, x} }

func miEq(a, b mathInt) bool { return vpAnd(a.neg == b.neg, a.mag == b.mag) }

// fltIsInt64: f denotes exactly the integer r.
func fltIsInt64(f float64, r int64) bool {
	inRange := vpAnd(f >= -9223372036854775808.0, f < 9223372036854775808.0)
	if !inRange {
		return false
	}
	t := int64(f) // exact truncation for in-range f
	return vpAnd(float64(t) == f, t == r)
}

func fltIsUint64(f float64, r uint64) bool {
	inRange := vpAnd(f >= 0, f < 18446744073709551616.0)
	if !inRange {
		return false
	}
	t := uint64(f)
	return vpAnd(float64(t) == f, t == r)
}

func strBoundC10() int {
	if vpTier() > 0 {
		return 4
	}
	return 3
}

// refParseInt: ^[+-]?[0-9]+$ with its value (short strings only: no overflow).
func refParseInt(s string) (bool, mathInt) {
	i := 0
	neg := false
	if len(s) > 0 && (s[0] == '+' || s[0] == '-') {
		neg = s[0] == '-'
		i = 1
	}
	if i >= len(s) {
		return false, mathInt{}
	}
	var mag uint64
	for ; i < len(s); i++ {
		if s[i] < '0' || s[i] > '9' {
			return false, mathInt{}
		}
		mag = mag*10 + uint64(s[i]-'0')
	}
	if mag == 0 {
		neg = false
	}
	return true, mathInt{neg, mag}
}

// Decimal64 from integers: exact only when the integer is representable.
func H_C10_conv_Decimal64_from_int64() {
	s := vpInt64()
	vpCover("reached")
	v, err := Conv(FmtDecimal64, s)
	if err != nil {
		return
	}
	r := float64(v.(Decimal64))
	vpAssertK("C10-decimal64-is-float64", true, fltIsInt64(r, s), "decimal64 denotes the same number")
}

func H_C10_conv_Decimal64_from_uint64() {
	s := vpUint64()
	vpCover("reached")
	v, err := Conv(FmtDecimal64, s)
	if err != nil {
		return
	}
	r := float64(v.(Decimal64))
	vpAssertK("C10-decimal64-is-float64", true, fltIsUint64(r, s), "decimal64 denotes the same number")
}

func H_C10_conv_Decimal64_from_int32() {
	s := vpInt32()
	vpCover("reached")
	v, err := Conv(FmtDecimal64, s)
	vpAssert(err == nil, "int32 always fits")
	vpAssert(fltIsInt64(float64(v.(Decimal64)), int64(s)), "exact")
}

func H_C10_conv_Decimal64_from_float64() {
	s := vpFloat64()
	vpCover("reached")
	v, err := Conv(FmtDecimal64, s)
	finite := s == s && s-s == 0 // neither NaN nor an infinity: decimal64 has neither (C05-decimal64-nan)
	vpAssert((err == nil) == finite, "a float64 converts exactly when it is finite")
	if err != nil {
		return
	}
	r := float64(v.(Decimal64))
	vpAssert(r == s, "identity")
}

func H_C10_conv_Bool() {
	b := vpBool()
	vpCover("reached")
	v, err := Conv(FmtBool, b)
	vpAssert(err == nil && bool(v.(Bool)) == b, "bool identity")
	s := vpString(2)
	v2, err2 := Conv(FmtBool, s)
	if err2 == nil {
		t := bool(v2.(Bool))
		vpAssert(vpImplies(t, s == "1"), "short true spellings") // "true"/"yes" are longer than the bound
		vpAssert(vpImplies(!t, vpOr(s == "0", s == "no")), "short false spellings (every other text of up to two bytes is refused, hunt C10 finding 9)")
	}
	n := vpInt32()
	_, err3 := Conv(FmtBool, n)
	vpAssert(err3 != nil, "number is not a bool")
}

// Conv(FmtString, integer) renders the number exactly (real strconv interpreted on the symbolic value).
func H_C10_T_conv_String_from_int16() {
	n := vpInt16()
	vpCover("reached")
	v, err := Conv(FmtString, n)
	vpAssert(err == nil, "int16 converts to string")
	ok, m := refParseInt(string(v.(String)))
	vpAssert(ok && miEq(m, miS(int64(n))), "decimal text denotes the number")
}

func H_C10_conv_String_from_uint8() {
	n := vpUint8()
	vpCover("reached")
	v, err := Conv(FmtString, n)
	vpAssert(err == nil, "uint8 converts to string")
	ok, m := refParseInt(string(v.(String)))
	vpAssert(ok && miEq(m, miU(uint64(n))), "decimal text denotes the number")
}

func H_C10_conv_String_from_string() {
	s := vpString(3)
	vpCover("reached")
	v, err := Conv(FmtString, s)
	vpAssert(err == nil && string(v.(String)) == s, "string identity")
	rb, ok := v.Value().(string)
	vpAssert(ok && rb == s, "read back")
}

// toString(float64) rounds to an integer: 1.4 -> "1" (pinned by the repo's own Test_Conv).
// FormatFloat on a symbolic double is out of reach; the float is drawn from an
// enumerated set (reported as enumerated, not symbolic).
var c10Floats = []float64{0, 1, -1, 99, 6000, 0.5, 1.4, 1.5, 2.5, -0.5, 3.7, 0.1, 1e15, 123456789.25}

func H_C10_conv_String_from_float64() {
	f := c10Floats[vpChoose(len(c10Floats))]
	vpCover("reached")
	v, err := Conv(FmtString, f)
	if err != nil {
		return
	}
	s := string(v.(String))
	ok, m := refParseInt(s)
	integral := float64(int64(f)) == f
	vpAssertK("C10-float-to-string-rounds", !integral, ok && integral && miEq(m, miS(int64(f))), "float64 -> string keeps the number")
}

// Lists convert element-wise with the same exactness.
func H_C10_conv_Int8List_from_ifaces() {
	a, b := vpInt64(), vpUint16()
	vpCover("reached")
	v, err := Conv(FmtInt8List, []interface{}{a, b})
	if err != nil {
		return
	}
	l := v.(Int8List)
	vpAssert(len(l) == 2, "length kept")
	vpAssertK("C10-int-narrowing", true, vpAnd(miEq(miS(int64(l[0])), miS(a)), miEq(miS(int64(l[1])), miU(uint64(b)))), "elements exact")
}

func H_C10_conv_UInt32List_from_ifaces() {
	a, b := vpInt64(), vpFloat64()
	vpCover("reached")
	v, err := Conv(FmtUInt32List, []interface{}{a, b})
	if err != nil {
		return
	}
	l := v.(UInt32List)
	vpAssert(len(l) == 2, "length kept")
	vpAssertK("C10-int-narrowing", true, miEq(miU(uint64(l[0])), miS(a)), "element 0 exact")
	vpAssertK("C10-float-to-int", true, fltIsUint64(b, uint64(l[1])), "element 1 exact")
}

func H_C10_conv_Int64List_from_floats() {
	a, b := vpFloat64(), vpFloat64()
	vpCover("reached")
	v, err := Conv(FmtInt64List, []float64{a, b})
	if err != nil {
		return
	}
	l := v.(Int64List)
	vpAssertK("C10-float-to-int", true, vpAnd(fltIsInt64(a, l[0]), fltIsInt64(b, l[1])), "elements exact")
}

// ConvOneOf: whichever member accepts, the result is exact.
func H_C10_convOneOf() {
	s := vpInt64()
	vpCover("reached")
	v, f, err := ConvOneOf([]Format{FmtInt8, FmtUInt16, FmtInt64}, s)
	vpAssert(err == nil, "int64 member always accepts")
	switch f {
	case FmtInt8:
		vpAssertK("C10-int-narrowing", true, miEq(miS(int64(v.(Int8))), miS(s)), "exact as int8")
	case FmtUInt16:
		vpAssertK("C10-int-narrowing", true, miEq(miU(uint64(v.(UInt16))), miS(s)), "exact as uint16")
	case FmtInt64:
		vpAssert(int64(v.(Int64)) == s, "exact as int64")
	default:
		vpAssert(false, "format is one of the members")
	}
}

// hunt C10 finding 5: the []float64 form of a decimal64 list let NaN and the infinities through
func H_C10_conv_Decimal64List_from_floats() {
	a, b := vpFloat64(), vpFloat64()
	vpCover("reached")
	v, err := Conv(FmtDecimal64List, []float64{a, b})
	finite := vpAnd(vpAnd(a == a, a-a == 0), vpAnd(b == b, b-b == 0))
	vpAssert((err == nil) == finite, "a list of float64 converts exactly when every element is finite")
	if err != nil {
		return
	}
	l := v.(Decimal64List)
	vpAssert(len(l) == 2 && vpAnd(l[0] == a, l[1] == b), "elements exact")
}
