package val

import "math"

// C17: Compare / Equal / CompareVals agree with what the values denote.

func sgn(c int) int {
	if c < 0 {
		return -1
	}
	if c > 0 {
		return 1
	}
	return 0
}

func H_C17_order_decimal64() {
	a, b := vpFloat64(), vpFloat64()
	// finite operands (NaN has no order; stated in DESIGN)
	vpAssume(!math.IsNaN(a) && !math.IsNaN(b))
	c := Decimal64(a).Compare(Decimal64(b))
	vpAssert((c < 0) == (a < b), "lt")
	vpAssert((c == 0) == (a == b), "eq")
	vpAssert((c > 0) == (a > b), "gt")
	vpCover("reached")
}

func H_C17_order_bool() {
	a, b := vpBool(), vpBool()
	c := Bool(a).Compare(Bool(b))
	vpAssert((c == 0) == (a == b), "eq")
	vpAssert((c < 0) == (!a && b), "false<true")
	vpAssert((c > 0) == (a && !b), "true>false")
	vpAssert(Equal(Bool(a), Bool(b)) == (a == b), "Equal")
	vpCover("reached")
}

func strBound() int {
	if vpTier() > 0 {
		return 4
	}
	return 2
}

func H_C17_order_string() {
	a, b := vpString(strBound()), vpString(strBound())
	c := String(a).Compare(String(b))
	vpAssert((c < 0) == (a < b), "lt")
	vpAssert((c == 0) == (a == b), "eq")
	vpAssert((c > 0) == (a > b), "gt")
	vpAssert(Equal(String(a), String(b)) == (a == b), "Equal")
	vpCover("reached")
}

func H_C17_order_identref() {
	a, b := vpString(strBound()), vpString(strBound())
	x, y := IdentRef{Label: a}, IdentRef{Label: b}
	c := x.Compare(y)
	vpAssert((c < 0) == (a < b), "lt")
	vpAssert((c == 0) == (a == b), "eq")
	vpAssert(Equal(x, y) == (a == b), "Equal")
	vpCover("reached")
}

func H_C17_order_enum() {
	a, b := vpInt32(), vpInt32() // YANG enum values are int32
	x, y := Enum{Id: int(a), Label: "x"}, Enum{Id: int(b), Label: "y"}
	c := x.Compare(y)
	vpAssert((c < 0) == (a < b), "lt")
	vpAssert((c == 0) == (a == b), "eq")
	vpAssert((c > 0) == (a > b), "gt")
	vpCover("reached")
}

func H_C17_order_binary() {
	a, b := vpString(strBound()), vpString(strBound())
	c := Binary([]byte(a)).Compare(Binary([]byte(b)))
	vpAssert((c < 0) == (a < b), "lt")
	vpAssert((c == 0) == (a == b), "eq")
	vpCover("reached")
}

// CompareVals orders key tuples lexicographically (mixed key types).
func H_C17_compareVals_lex() {
	a0, b0 := vpUint8(), vpUint8()
	a1, b1 := vpInt64(), vpInt64()
	c := sgn(CompareVals([]Value{UInt8(a0), Int64(a1)}, []Value{UInt8(b0), Int64(b1)}))
	want := 0
	switch {
	case a0 < b0:
		want = -1
	case a0 > b0:
		want = 1
	case a1 < b1:
		want = -1
	case a1 > b1:
		want = 1
	}
	vpAssert(c == want, "lexicographic")
	eq := EqualVals([]Value{UInt8(a0), Int64(a1)}, []Value{UInt8(b0), Int64(b1)})
	vpAssert(eq == (a0 == b0 && a1 == b1), "EqualVals")
	vpCover("reached")
}

// Equal on list values is element-wise equality.
func H_C17_equal_lists() {
	a0, a1, b0, b1 := vpInt32(), vpInt32(), vpInt32(), vpInt32()
	eq := Equal(Int32List([]int32{a0, a1}), Int32List([]int32{b0, b1}))
	vpAssert(eq == (a0 == b0 && a1 == b1), "Int32List Equal")
	vpAssert(!Equal(Int32List([]int32{a0}), Int32List([]int32{a0, a1})), "different length")
	vpAssert(!Equal(Int32(a0), Int64(int64(a0))), "different format never equal")
	vpCover("reached")
}
