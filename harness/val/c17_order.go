package val

// C17: Compare agrees with the mathematical order for every integer width.

func sgn(c int) int {
	if c < 0 {
		return -1
	}
	if c > 0 {
		return 1
	}
	return 0
}

func H_C17_order_uint8() {
	a, b := vpUint8(), vpUint8()
	c := UInt8(a).Compare(UInt8(b))
	vpAssert((c < 0) == (a < b), "lt")
	vpAssert((c == 0) == (a == b), "eq")
	vpAssert((c > 0) == (a > b), "gt")
	vpCover("reached")
}

func H_C17_order_int32() {
	a, b := vpInt32(), vpInt32()
	c := Int32(a).Compare(Int32(b))
	vpAssert((c < 0) == (a < b), "lt")
	vpAssert((c == 0) == (a == b), "eq")
	vpAssert((c > 0) == (a > b), "gt")
	vpCover("reached")
}
