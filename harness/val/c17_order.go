package val

import "math"

// C17: Compare / Equal / CompareVals agree with what the values denote.

func sgn(c int) int {
	if c < 0 {
		return -1
	}
	if c > 0 {
		return 1
	}
	return 0
}

func H_C17_order_decimal64() {
	a, b := vpFloat64(), vpFloat64()
	// finite operands (NaN has no order; stated in DESIGN)
	vpAssume(!math.IsNaN(a) && !math.IsNaN(b))
	c := Decimal64(a).Compare(Decimal64(b))
	vpAssert((c < 0) == (a < b), "lt")
	vpAssert((c == 0) == (a == b), "eq")
	vpAssert((c > 0) == (a > b), "gt")
	vpCover("reached")
}

func H_C17_order_bool() {
	a, b := vpBool(), vpBool()
	c := Bool(a).Compare(Bool(b))
	vpAssert((c == 0) == (a == b), "eq")
	vpAssert((c < 0) == (!a && b), "false<true")
	vpAssert((c > 0) == (a && !b), "true>false")
	vpAssert(Equal(Bool(a), Bool(b)) == (a == b), "Equal")
	vpCover("reached")
}

func strBound() int {
	if vpTier() > 0 {
		return 4
	}
	return 2
}

func H_C17_order_string() {
	a, b := vpString(strBound()), vpString(strBound())
	c := String(a).Compare(String(b))
	vpAssert((c < 0) == (a < b), "lt")
	vpAssert((c == 0) == (a == b), "eq")
	vpAssert((c > 0) == (a > b), "gt")
	vpAssert(Equal(String(a), String(b)) == (a == b), "Equal")
	vpCover("reached")
}

func H_C17_order_identref() {
	a, b := vpString(strBound()), vpString(strBound())
	x, y := IdentRef{Label: a}, IdentRef{Label: b}
	c := x.Compare(y)
	vpAssert((c < 0) == (a < b), "lt")
	vpAssert((c == 0) == (a == b), "eq")
	vpAssert(Equal(x, y) == (a == b), "Equal")
	vpCover("reached")
}

func H_C17_order_enum() {
	a, b := vpInt32(), vpInt32() // YANG enum values are int32
	x, y := Enum{Id: int(a), Label: "x"}, Enum{Id: int(b), Label: "y"}
	c := x.Compare(y)
	vpAssert((c < 0) == (a < b), "lt")
	vpAssert((c == 0) == (a == b), "eq")
	vpAssert((c > 0) == (a > b), "gt")
	vpCover("reached")
}

func H_C17_order_binary() {
	a, b := vpString(strBound()), vpString(strBound())
	c := Binary([]byte(a)).Compare(Binary([]byte(b)))
	vpAssert((c < 0) == (a < b), "lt")
	vpAssert((c == 0) == (a == b), "eq")
	vpCover("reached")
}

// CompareVals orders key tuples lexicographically (mixed key types).
func H_C17_compareVals_lex() {
	a0, b0 := vpUint8(), vpUint8()
	a1, b1 := vpInt64(), vpInt64()
	c := sgn(CompareVals([]Value{UInt8(a0), Int64(a1)}, []Value{UInt8(b0), Int64(b1)}))
	want := 0
	switch {
	case a0 < b0:
		want = -1
	case a0 > b0:
		want = 1
	case a1 < b1:
		want = -1
	case a1 > b1:
		want = 1
	}
	vpAssert(c == want, "lexicographic")
	eq := EqualVals([]Value{UInt8(a0), Int64(a1)}, []Value{UInt8(b0), Int64(b1)})
	vpAssert(eq == (a0 == b0 && a1 == b1), "EqualVals")
	vpCover("reached")
}

// Equal on list values is element-wise equality.
func H_C17_equal_lists() {
	a0, a1, b0, b1 := vpInt32(), vpInt32(), vpInt32(), vpInt32()
	eq := Equal(Int32List([]int32{a0, a1}), Int32List([]int32{b0, b1}))
	vpAssert(eq == (a0 == b0 && a1 == b1), "Int32List Equal")
	vpAssert(!Equal(Int32List([]int32{a0}), Int32List([]int32{a0, a1})), "different length")
	vpAssert(!Equal(Int32(a0), Int64(int64(a0))), "different format never equal")
	vpCover("reached")
}

// CompareVals over tuples of every key type whose Compare may return a
// magnitude other than -1/0/1 (Int32 and Enum return differences).
func lexWant(c0, c1 int) int {
	if c0 != 0 {
		return c0
	}
	return c1
}

func cmpI64(a, b int64) int {
	if a < b {
		return -1
	}
	if a > b {
		return 1
	}
	return 0
}

func H_C17_compareVals_enum_int32() {
	e0, f0 := vpInt32(), vpInt32()
	a1, b1 := vpInt32(), vpInt32()
	x := []Value{Enum{Id: int(e0), Label: "x"}, Int32(a1)}
	y := []Value{Enum{Id: int(f0), Label: "y"}, Int32(b1)}
	vpAssert(sgn(CompareVals(x, y)) == lexWant(cmpI64(int64(e0), int64(f0)), cmpI64(int64(a1), int64(b1))), "lexicographic (enum, int32)")
	vpAssert(sgn(CompareVals(y, x)) == -sgn(CompareVals(x, y)), "antisymmetric on tuples")
	vpCover("reached")
}

func H_C17_compareVals_int32_enum() {
	e0, f0 := vpInt32(), vpInt32()
	a1, b1 := vpInt32(), vpInt32()
	x := []Value{Int32(a1), Enum{Id: int(e0), Label: "x"}}
	y := []Value{Int32(b1), Enum{Id: int(f0), Label: "y"}}
	vpAssert(sgn(CompareVals(x, y)) == lexWant(cmpI64(int64(a1), int64(b1)), cmpI64(int64(e0), int64(f0))), "lexicographic (int32, enum)")
	vpCover("reached")
}

func H_C17_compareVals_string_uint64() {
	s0, t0 := vpString(1), vpString(1)
	a1, b1 := vpUint64(), vpUint64()
	x := []Value{String(s0), UInt64(a1)}
	y := []Value{String(t0), UInt64(b1)}
	c0 := 0
	if s0 < t0 {
		c0 = -1
	} else if s0 > t0 {
		c0 = 1
	}
	c1 := 0
	if a1 < b1 {
		c1 = -1
	} else if a1 > b1 {
		c1 = 1
	}
	vpAssert(sgn(CompareVals(x, y)) == lexWant(c0, c1), "lexicographic (string, uint64)")
	vpAssert(EqualVals(x, y) == (s0 == t0 && a1 == b1), "EqualVals")
	vpCover("reached")
}

func H_C17_compareVals_three() {
	a, b := [3]int8{vpInt8(), vpInt8(), vpInt8()}, [3]int8{vpInt8(), vpInt8(), vpInt8()}
	x := []Value{Int8(a[0]), Int8(a[1]), Int8(a[2])}
	y := []Value{Int8(b[0]), Int8(b[1]), Int8(b[2])}
	want := lexWant(cmpI64(int64(a[0]), int64(b[0])), lexWant(cmpI64(int64(a[1]), int64(b[1])), cmpI64(int64(a[2]), int64(b[2]))))
	vpAssert(sgn(CompareVals(x, y)) == want, "lexicographic over three positions")
	vpCover("reached")
}

// Tuples of different length (hunt C17 finding 2): a proper prefix sorts first,
// in both argument orders, without a panic, and agrees with EqualVals.
func H_C17_compareVals_lengths() {
	a0, b0 := vpInt32(), vpInt32()
	a1 := vpInt32()
	la, lb := 1+vpChoose(2), 1+vpChoose(2)
	x := []Value{Int32(a0), Int32(a1)}[:la]
	y := []Value{Int32(b0), Int32(a1)}[:lb]
	vpCover("reached")
	var c int
	panicked := vpCatch(func() { c = sgn(CompareVals(x, y)) })
	vpAssert(!panicked, "comparing tuples of different length does not panic")
	if panicked {
		return
	}
	want := 0
	switch {
	case a0 < b0:
		want = -1
	case a0 > b0:
		want = 1
	case la < lb:
		want = -1
	case la > lb:
		want = 1
	}
	vpAssert(c == want, "lexicographic: a proper prefix sorts before the longer tuple")
	vpAssert((c == 0) == EqualVals(x, y), "CompareVals is 0 exactly when EqualVals holds")
}
