// Copy this file into the directory  parser/  of github.com/freeconf/yang
// (package name: parser) and run:  go test ./parser -run TestFinding -v
//
// Property C01: the compiled schema equals the RFC 7950 expansion of
// uses / augment / refine / include.
package parser

import (
	"fmt"
	"io"
	"strings"
	"testing"
	"time"

	"github.com/freeconf/yang/meta"
	"github.com/freeconf/yang/source"
	"github.com/freeconf/yang/val"
)

const c01Hdr = `namespace "urn:x"; prefix x; `

// c01Source serves each file as often as it is asked for (a submodule may be
// included more than once)
func c01Source(files map[string]string) source.Opener {
	return func(name string, ext string) (io.Reader, error) {
		if s, ok := files[name]; ok {
			return strings.NewReader(s), nil
		}
		return nil, nil
	}
}

// c01Load loads a module set, turning a panic into an error and giving up after 5s
func c01Load(files map[string]string, main string, features meta.FeatureSet) (*meta.Module, error) {
	type res struct {
		m   *meta.Module
		err error
	}
	ch := make(chan res, 1)
	go func() {
		defer func() {
			if r := recover(); r != nil {
				ch <- res{nil, fmt.Errorf("PANIC: %v", r)}
			}
		}()
		m, err := LoadModuleWithOptions(c01Source(files), main, Options{Features: features})
		ch <- res{m, err}
	}()
	select {
	case r := <-ch:
		return r.m, r.err
	case <-time.After(5 * time.Second):
		return nil, fmt.Errorf("HANG: load did not finish within 5 seconds")
	}
}

func c01LoadOne(yang string, features meta.FeatureSet) (*meta.Module, error) {
	return c01Load(map[string]string{"m": yang}, "m", features)
}

// c01Safe runs f, reporting a panic as a test failure
func c01Safe(t *testing.T, f func()) {
	defer func() {
		if r := recover(); r != nil {
			t.Fatalf("panic: %v", r)
		}
	}()
	f()
}

// Finding 1: a "when" on a uses REPLACES the "when" a node of the grouping states itself.
func TestFinding1(t *testing.T) {
	c01Safe(t, func() {
		m, err := c01LoadOne(`module m { `+c01Hdr+`
			grouping g {
				leaf a { when "../x = 1"; type string; }
				leaf b { type string; }
			}
			leaf x { type int32; }
			leaf y { type int32; }
			uses g { when "y = 2"; }
		}`, nil)
		if err != nil {
			t.Fatalf("load failed: %v", err)
		}
		a := meta.Find(m, "a").(*meta.Leaf)
		if a.When() == nil || !strings.Contains(a.When().Expression(), "x = 1") {
			got := "<none>"
			if a.When() != nil {
				got = a.When().Expression()
			}
			t.Fatalf("leaf a of grouping g states when \"../x = 1\"; after 'uses g { when \"y = 2\"; }' its own condition is gone, when=%q", got)
		}
	})
}

// Finding 2: the same grouping used inside an augment of a uses of that grouping is taken
// for a recursive grouping; the module does not load.
func TestFinding2(t *testing.T) {
	c01Safe(t, func() {
		m, err := c01LoadOne(`module m { `+c01Hdr+`
			grouping g { container c { leaf x { type string; } } }
			uses g {
				augment "c" {
					container inner { uses g; }
				}
			}
		}`, nil)
		if err != nil {
			t.Fatalf("well-formed, non recursive module does not load: %v", err)
		}
		if meta.Find(m, "c/inner/c/x") == nil {
			t.Fatalf("c/inner/c/x missing")
		}
		if meta.Find(m, "c/inner/c/inner") != nil {
			t.Fatalf("c/inner/c/inner exists: the inner copy of g must be the plain grouping, the tree is cyclic")
		}
	})
}

// Finding 3: a uses inside a case is indexed in the enclosing container under the NAME OF THE
// GROUPING before it is expanded, the nodes it expands to are never indexed there.
func TestFinding3(t *testing.T) {
	c01Safe(t, func() {
		inline, err := c01LoadOne(`module m { `+c01Hdr+`
			container c {
				choice ch { case a { leaf x { type string; } } }
				leaf r { type leafref { path "../x"; } }
			}
		}`, nil)
		if err != nil {
			t.Fatalf("inline form does not load: %v", err)
		}
		if meta.Find(inline, "c/x") == nil {
			t.Fatalf("inline form: c/x not found")
		}
		_, err = c01LoadOne(`module m { `+c01Hdr+`
			grouping g { leaf x { type string; } }
			container c {
				choice ch { case a { uses g; } }
				leaf r { type leafref { path "../x"; } }
			}
		}`, nil)
		if err != nil {
			t.Errorf("same tree with case a written as 'uses g' does not load: %v", err)
		}
		factored, err := c01LoadOne(`module m { `+c01Hdr+`
			grouping g { leaf x { type string; } }
			container c {
				choice ch { case a { uses g; } }
			}
		}`, nil)
		if err != nil {
			t.Fatalf("factored form does not load: %v", err)
		}
		if meta.Find(factored, "c/x") == nil {
			t.Errorf("factored form: meta.Find(c/x) finds nothing although the inline form finds the leaf")
		}
		if d := meta.Find(factored, "c/g"); d != nil {
			t.Errorf("factored form: meta.Find(c/g) returns %T: the unexpanded uses is left in the index of container c", d)
		}
		_, err = c01LoadOne(`module m { `+c01Hdr+`
			grouping g { leaf x { type string; } }
			container c {
				leaf g { type string; }
				choice ch { case a { uses g; } }
			}
		}`, nil)
		if err != nil {
			t.Errorf("a leaf named like the grouping used in a case of a sibling choice: %v", err)
		}
	})
}

// Finding 4: a submodule that is included by the module and by another submodule is merged twice.
func TestFinding4(t *testing.T) {
	c01Safe(t, func() {
		m, err := c01Load(map[string]string{
			"m":  `module m { ` + c01Hdr + ` include s1; include s2; container top { uses g2; } }`,
			"s1": `submodule s1 { belongs-to m { prefix x; } include s2; container a { uses g2; } }`,
			"s2": `submodule s2 { belongs-to m { prefix x; } grouping g2 { leaf q { type string; } } container b { leaf z { type string; } } }`,
		}, "m", nil)
		if err != nil {
			t.Fatalf("module including s1 and s2 where s1 includes s2 as well does not load: %v", err)
		}
		n := 0
		for _, d := range m.DataDefinitions() {
			if d.Ident() == "b" {
				n++
			}
		}
		if n != 1 {
			t.Fatalf("container b of submodule s2 appears %d times", n)
		}
	})
}

// Finding 5: the copies of a grouping share one *Type; a leafref with a relative path is resolved
// for the first copy only and every other copy points at the first copy's target.
func TestFinding5(t *testing.T) {
	c01Safe(t, func() {
		m, err := c01LoadOne(`module m { `+c01Hdr+`
			grouping g { leaf r { type leafref { path "../t"; } } }
			container a { leaf t { type string; } uses g; }
			container b { leaf t { type int32; } uses g; }
		}`, nil)
		if err != nil {
			t.Fatalf("load failed: %v", err)
		}
		ra := meta.Find(m, "a/r").(*meta.Leaf).Type().Resolve()
		rb := meta.Find(m, "b/r").(*meta.Leaf).Type().Resolve()
		if ra.Format() != val.FmtString {
			t.Fatalf("a/r resolves to %s, expected string", ra.Format())
		}
		if rb.Format() != val.FmtInt32 {
			t.Fatalf("b/r is a leafref to b/t (int32) but resolves to %s, the type of a/t: the copies of g are not independent", rb.Format())
		}
	})
}

// Finding 6: a grouping node that states config is fine below a container, but the same grouping
// used in an rpc input or a notification (where config is to be ignored) panics the compiler.
func TestFinding6(t *testing.T) {
	c01Safe(t, func() {
		g := `grouping g { leaf x { config true; type string; } container k { config false; leaf z { type string; } } }`
		if _, err := c01LoadOne(`module m { `+c01Hdr+g+` container c { uses g; } }`, nil); err != nil {
			t.Fatalf("uses g in a container: %v", err)
		}
		if _, err := c01LoadOne(`module m { `+c01Hdr+g+` rpc r { input { uses g; } } }`, nil); err != nil {
			t.Errorf("uses g in an rpc input: %v", err)
		}
		if _, err := c01LoadOne(`module m { `+c01Hdr+g+` notification n { uses g; } }`, nil); err != nil {
			t.Errorf("uses g in a notification: %v", err)
		}
	})
}

// Finding 7: with a feature switched off, a refine or augment whose target is removed by that
// feature makes the whole module fail to load.
func TestFinding7(t *testing.T) {
	c01Safe(t, func() {
		off := func() meta.FeatureSet { return meta.FeaturesOff([]string{"f"}) }
		refine := `module m { ` + c01Hdr + ` feature f;
			grouping g { leaf x { if-feature f; type string; } leaf y { type string; } }
			container c { uses g { refine x { default "1"; } } }
		}`
		usesAugment := `module m { ` + c01Hdr + ` feature f;
			grouping g { container opt { if-feature f; } leaf y { type string; } }
			container c { uses g { augment opt { leaf extra { type string; } } } }
		}`
		augment := `module m { ` + c01Hdr + ` feature f;
			container c { container opt { if-feature f; } leaf y { type string; } }
			augment "/c/opt" { leaf extra { type string; } }
		}`
		for _, y := range []string{refine, usesAugment, augment} {
			if _, err := c01LoadOne(y, nil); err != nil {
				t.Fatalf("all features on: %v", err)
			}
		}
		for label, y := range map[string]string{"refine": refine, "augment in uses": usesAugment, "module augment": augment} {
			m, err := c01LoadOne(y, off())
			if err != nil {
				t.Errorf("%s of a node that feature f (off) removes: %v", label, err)
				continue
			}
			if meta.Find(m, "c/y") == nil {
				t.Errorf("%s: c/y missing", label)
			}
		}
	})
}

// Finding 8: refine max-elements N on a list / leaf-list whose grouping states
// "max-elements unbounded" leaves the node unbounded.
func TestFinding8(t *testing.T) {
	c01Safe(t, func() {
		m, err := c01LoadOne(`module m { `+c01Hdr+`
			grouping g {
				leaf-list ll { type string; max-elements unbounded; }
				list li { key k; leaf k { type string; } max-elements unbounded; }
			}
			uses g {
				refine ll { max-elements 4; }
				refine li { max-elements 4; }
			}
			leaf-list inline { type string; max-elements 4; }
		}`, nil)
		if err != nil {
			t.Fatalf("load failed: %v", err)
		}
		in := meta.Find(m, "inline").(*meta.LeafList)
		if in.Unbounded() || in.MaxElements() != 4 {
			t.Fatalf("inline: max=%d unbounded=%v", in.MaxElements(), in.Unbounded())
		}
		ll := meta.Find(m, "ll").(*meta.LeafList)
		if ll.Unbounded() || ll.MaxElements() != 4 {
			t.Errorf("leaf-list ll refined to max-elements 4: MaxElements()=%d Unbounded()=%v, inline form gives 4/false", ll.MaxElements(), ll.Unbounded())
		}
		li := meta.Find(m, "li").(*meta.List)
		if li.Unbounded() || li.MaxElements() != 4 {
			t.Errorf("list li refined to max-elements 4: MaxElements()=%d Unbounded()=%v, inline form gives 4/false", li.MaxElements(), li.Unbounded())
		}
	})
}
