// Copy this file into the directory  parser/  of the module github.com/freeconf/yang
// (package name: parser) and run:  go test ./parser -run 'TestFinding' -v
//
// Property C02: every leaf's effective type is the RFC 7950 derivation of its type statement.
package parser

import (
	"fmt"
	"io"
	"strings"
	"testing"
	"time"

	"github.com/freeconf/yang/meta"
	"github.com/freeconf/yang/node"
	"github.com/freeconf/yang/val"
)

// c02Load loads module "a" (plus whatever it imports / includes) from strings.
// A panic is turned into an error, a hang into a test failure after 5 seconds.
func c02Load(t *testing.T, mods map[string]string) (*meta.Module, error) {
	t.Helper()
	type result struct {
		m   *meta.Module
		err error
	}
	done := make(chan result, 1)
	go func() {
		defer func() {
			if r := recover(); r != nil {
				done <- result{nil, fmt.Errorf("PANIC: %v", r)}
			}
		}()
		src := func(name string, ext string) (io.Reader, error) {
			if s, ok := mods[name]; ok {
				return strings.NewReader(s), nil
			}
			return nil, nil
		}
		m, err := LoadModule(src, "a")
		done <- result{m, err}
	}()
	select {
	case r := <-done:
		return r.m, r.err
	case <-time.After(5 * time.Second):
		return nil, fmt.Errorf("loading the module hangs")
	}
}

// c02Guard runs f, reporting a panic or a hang as a failure of this test only.
func c02Guard(t *testing.T, f func() string) {
	t.Helper()
	done := make(chan string, 1)
	go func() {
		defer func() {
			if r := recover(); r != nil {
				done <- fmt.Sprintf("PANIC: %v", r)
			}
		}()
		done <- f()
	}()
	select {
	case msg := <-done:
		if msg != "" {
			t.Fatal(msg)
		}
	case <-time.After(5 * time.Second):
		t.Fatalf("hangs")
	}
}

func c02Leaf(m *meta.Module, path string) meta.Leafable {
	d := meta.Find(m, path)
	if d == nil {
		panic("no such node " + path)
	}
	return d.(meta.Leafable)
}

// Finding 1: a pattern stated where a typedef is used replaces the patterns of the
// typedef instead of being added to them (RFC 7950 9.4.5: all patterns of the chain apply).
func TestFinding1(t *testing.T) {
	c02Guard(t, func() string {
		m, err := c02Load(t, map[string]string{"a": `module a { namespace "a"; prefix a;
  typedef lower { type string { pattern "[a-z]+"; } }
  leaf l { type lower { pattern ".*b.*"; } }
}`})
		if err != nil {
			return "unexpected load error: " + err.Error()
		}
		var have []string
		for _, p := range c02Leaf(m, "l").Type().Patterns() {
			have = append(have, p.Pattern)
		}
		if len(have) != 2 {
			return fmt.Sprintf("leaf l { type lower { pattern \".*b.*\"; } } : effective patterns are %q, "+
				"the pattern \"[a-z]+\" of typedef lower is lost (so e.g. \"B-b-9\" is a legal value)", have)
		}
		return ""
	})
}

// Finding 2: an enumeration that restricts its typedef (YANG 1.1, RFC 7950 9.6.4.2)
// does not keep the value the enum has in the base type, it is numbered from 0 again.
func TestFinding2(t *testing.T) {
	c02Guard(t, func() string {
		m, err := c02Load(t, map[string]string{"a": `module a { namespace "a"; prefix a; yang-version 1.1;
  typedef abc { type enumeration { enum a; enum b; enum c; } }
  leaf l { type abc { enum c; } }
}`})
		if err != nil {
			return "unexpected load error: " + err.Error()
		}
		e := c02Leaf(m, "l").Type().Enum()
		if len(e) != 1 || e[0].Label != "c" {
			return fmt.Sprintf("expected the single enum c, got %v", e)
		}
		if e[0].Id != 2 {
			return fmt.Sprintf("enum c has value 2 in typedef abc, the restricting leaf sees value %d", e[0].Id)
		}
		return ""
	})
}

// Finding 3: a bits type that restricts its typedef (YANG 1.1, RFC 7950 9.7.4) gets the
// bits of the typedef appended to its own, with c twice, and renumbering that list
// changes the positions inside the typedef itself: every other user of the typedef is hit.
func TestFinding3(t *testing.T) {
	c02Guard(t, func() string {
		m, err := c02Load(t, map[string]string{"a": `module a { namespace "a"; prefix a; yang-version 1.1;
  typedef abc { type bits { bit a; bit b; bit c; } }
  leaf plain { type abc; }
  leaf only-c { type abc { bit c; } }
}`})
		if err != nil {
			return "unexpected load error: " + err.Error()
		}
		show := func(bits []*meta.Bit) string {
			var s []string
			for _, b := range bits {
				s = append(s, fmt.Sprintf("%s=%d", b.Ident(), b.Position))
			}
			return strings.Join(s, " ")
		}
		plain := show(c02Leaf(m, "plain").Type().Bits())
		onlyC := show(c02Leaf(m, "only-c").Type().Bits())
		if onlyC != "c=2" || plain != "a=0 b=1 c=2" {
			return fmt.Sprintf("leaf only-c { type abc { bit c; } } has bits [%s], expected [c=2]; "+
				"leaf plain { type abc; } has bits [%s], expected [a=0 b=1 c=2]", onlyC, plain)
		}
		return ""
	})
}

// Finding 4: a typedef whose type is a leafref with a relative path cannot be used at all:
// the path is evaluated from the typedef statement instead of from the leaf that uses it
// (RFC 7950 9.9.2: the context node is the leaf).
func TestFinding4(t *testing.T) {
	c02Guard(t, func() string {
		m, err := c02Load(t, map[string]string{"a": `module a { namespace "a"; prefix a;
  typedef name-ref { type leafref { path "../name"; } }
  container c {
    leaf name { type int32; }
    leaf r { type name-ref; }
  }
}`})
		if err != nil {
			return "legal module rejected: " + err.Error()
		}
		if f := c02Leaf(m, "c/r").Type().Resolve().Format(); f != val.FmtInt32 {
			return fmt.Sprintf("c/r points at %v, expected int32", f)
		}
		return ""
	})
}

// Finding 5: the copies of a grouping leaf share one *Type, and the leafref target is
// resolved for the first copy only. A relative path that leaves the grouping points at a
// different leaf at each uses, but every copy reports the target of the first one.
func TestFinding5(t *testing.T) {
	c02Guard(t, func() string {
		m, err := c02Load(t, map[string]string{"a": `module a { namespace "a"; prefix a;
  grouping g { leaf r { type leafref { path "../../x"; } } }
  container a { container in { uses g; } leaf x { type string; } }
  container b { container in { uses g; } leaf x { type int32; } }
}`})
		if err != nil {
			return "unexpected load error: " + err.Error()
		}
		fa := c02Leaf(m, "a/in/r").Type().Resolve().Format()
		fb := c02Leaf(m, "b/in/r").Type().Resolve().Format()
		if fa != val.FmtString || fb != val.FmtInt32 {
			return fmt.Sprintf("a/in/r -> ../../x is %v (expected string), b/in/r -> ../../x is %v (expected int32)", fa, fb)
		}
		return ""
	})
}

// Finding 6: a leafref path with a key predicate (the form RFC 7950 9.9.6 itself shows)
// is cut at the slashes inside the predicate and reported as unresolvable.
func TestFinding6(t *testing.T) {
	c02Guard(t, func() string {
		m, err := c02Load(t, map[string]string{"a": `module a { namespace "a"; prefix a;
  list ifc {
    key name;
    leaf name { type string; }
    list addr { key ip; leaf ip { type uint32; } }
  }
  container dflt {
    leaf ifname { type leafref { path "/ifc/name"; } }
    leaf ip { type leafref { path "/ifc[name=current()/../ifname]/addr/ip"; } }
  }
}`})
		if err != nil {
			return "legal module rejected: " + err.Error()
		}
		if f := c02Leaf(m, "dflt/ip").Type().Resolve().Format(); f != val.FmtUInt32 {
			return fmt.Sprintf("dflt/ip points at %v, expected uint32", f)
		}
		return ""
	})
}

// Finding 7: an identityref with several bases (YANG 1.1) accepts only identities derived
// from ALL of them (RFC 7950 9.10.2); the library accepts what is derived from any one.
func TestFinding7(t *testing.T) {
	c02Guard(t, func() string {
		m, err := c02Load(t, map[string]string{"a": `module a { namespace "a"; prefix a; yang-version 1.1;
  identity b1;
  identity b2;
  identity only1 { base b1; }
  identity both { base b1; base b2; }
  leaf i { type identityref { base b1; base b2; } }
}`})
		if err != nil {
			return "unexpected load error: " + err.Error()
		}
		typ := c02Leaf(m, "i").Type()
		if _, err := node.NewValue(typ, "both"); err != nil {
			return "identity both is derived from b1 and b2 but is rejected: " + err.Error()
		}
		if v, err := node.NewValue(typ, "only1"); err == nil {
			return fmt.Sprintf("identity only1 is derived from b1 but not from b2, still leaf i accepts it (%v)", v)
		}
		return ""
	})
}

// Finding 8: "any" is not a YANG built-in type, so a typedef may be called any. The
// library's table of built-in names has an extra entry "any" that hides the typedef:
// base type, length, default and units of the typedef are all lost.
func TestFinding8(t *testing.T) {
	c02Guard(t, func() string {
		m, err := c02Load(t, map[string]string{"a": `module a { namespace "a"; prefix a;
  typedef any { type string { length "1..3"; } default "x"; units "u"; }
  leaf l { type any; }
}`})
		if err != nil {
			return "legal module rejected: " + err.Error()
		}
		l := c02Leaf(m, "l")
		if l.Type().Format() != val.FmtString || len(l.Type().Length()) != 1 || l.DefaultValue() != "x" || l.Units() != "u" {
			return fmt.Sprintf("leaf l { type any; } : format %v, length %v, default %v, units %q; "+
				"expected string, [1..3], x, \"u\" from typedef any",
				l.Type().Format(), l.Type().Length(), l.DefaultValue(), l.Units())
		}
		return ""
	})
}
