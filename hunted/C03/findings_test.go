// Copy this file into the package directory  nodeutil/  of the module
// github.com/freeconf/yang.  Package name: nodeutil_test (external test package).
//
// Property C03: upsert / insert / update are keyed deep merges.
// Every TestFindingN fails on the current tree because of the defect it describes.
package nodeutil_test

import (
	"fmt"
	"testing"
	"time"

	"github.com/freeconf/yang/meta"
	"github.com/freeconf/yang/node"
	"github.com/freeconf/yang/nodeutil"
	"github.com/freeconf/yang/parser"
)

func c03Module(t *testing.T, s string) *meta.Module {
	t.Helper()
	m, err := parser.LoadModuleFromString(nil, s)
	if err != nil {
		t.Fatalf("schema does not load: %v", err)
	}
	return m
}

func c03JSON(t *testing.T, s string) node.Node {
	t.Helper()
	n, err := nodeutil.ReadJSON(s)
	if err != nil {
		t.Fatalf("bad json: %v", err)
	}
	return n
}

// c03Try runs f, turning a panic into an error and a hang into an error after 5s
func c03Try(f func() error) error {
	done := make(chan error, 1)
	go func() {
		defer func() {
			if r := recover(); r != nil {
				done <- fmt.Errorf("PANIC: %v", r)
			}
		}()
		done <- f()
	}()
	select {
	case err := <-done:
		return err
	case <-time.After(5 * time.Second):
		return fmt.Errorf("HANG: no answer after 5 seconds")
	}
}

func c03Dump(sel *node.Selection) string {
	var s string
	err := c03Try(func() error {
		var e error
		s, e = nodeutil.WriteJSON(sel)
		return e
	})
	if err != nil {
		return "<<cannot read: " + err.Error() + ">>"
	}
	return s
}

// Finding 1: a map-backed nodeutil.Node used as target cannot create any
// container (or list): Node.newContainerHandler builds the mapAsContainer
// without its back reference, newChild dereferences nil.
func TestFinding1(t *testing.T) {
	m := c03Module(t, `module x { namespace "x"; prefix x; revision 0;
	  container c { leaf a { type string; } leaf d { type int32; default 7; } }
	}`)
	data := map[string]interface{}{}
	b := node.NewBrowser(m, &nodeutil.Node{Object: data})
	err := c03Try(func() error { return b.Root().UpsertFrom(c03JSON(t, `{"c":{"a":"A"}}`)) })
	if err != nil {
		t.Fatalf("upsert of {c:{a:A}} into an empty map-backed nodeutil.Node failed: %v", err)
	}
	c, _ := data["c"].(map[string]interface{})
	if c == nil || c["a"] != "A" || fmt.Sprint(c["d"]) != "7" {
		t.Fatalf("expected c={a:A d:7}, got %v", data)
	}
}

type c03F2App struct {
	A int32
	B uint32
}

// Finding 2: a struct-backed nodeutil.Node whose field for an int32 (uint32) leaf
// is a Go int32 (uint32) panics when the leaf is written: val.Int32.Value() is an
// int and reflectByField.set assigns it without conversion.
func TestFinding2(t *testing.T) {
	m := c03Module(t, `module x { namespace "x"; prefix x; revision 0;
	  leaf a { type int32; } leaf b { type uint32; }
	}`)
	app := &c03F2App{}
	b := node.NewBrowser(m, &nodeutil.Node{Object: app})
	err := c03Try(func() error { return b.Root().UpsertFrom(c03JSON(t, `{"a":5,"b":6}`)) })
	if err != nil {
		t.Fatalf("upsert of {a:5,b:6} into struct{A int32; B uint32} failed: %v", err)
	}
	if app.A != 5 || app.B != 6 {
		t.Fatalf("expected A=5 B=6, got %+v", app)
	}
}

type c03F3Item struct {
	Name string
	Id   int
	V    string
}
type c03F3App struct {
	L []*c03F3Item
}

// Finding 3: a nodeutil.Node used as source over a list with two keys of
// different types converts every key with the type of the FIRST key leaf
// (DoGetByRow uses KeyMeta()[0] for all of them).  The entry is then not matched
// by key in the target and is appended a second time instead of merged.
func TestFinding3(t *testing.T) {
	m := c03Module(t, `module x { namespace "x"; prefix x; revision 0;
	  list l { key "name id"; leaf name { type string; } leaf id { type int32; } leaf v { type string; } }
	}`)
	src := &c03F3App{L: []*c03F3Item{{Name: "a", Id: 1, V: "new"}}}
	dst := &c03F3App{L: []*c03F3Item{{Name: "a", Id: 1, V: "old"}}}
	sb := node.NewBrowser(m, &nodeutil.Node{Object: src})
	err := c03Try(func() error { return sb.Root().UpsertInto(&nodeutil.Node{Object: dst}) })
	if err != nil {
		t.Fatalf("upsert failed: %v", err)
	}
	if len(dst.L) != 1 || dst.L[0].V != "new" {
		got := ""
		for _, i := range dst.L {
			got += fmt.Sprintf("%+v ", *i)
		}
		t.Fatalf("entry [a 1] should have been merged (one entry, v=new), target now holds %d entries: %s", len(dst.L), got)
	}
}

// Finding 4: with a nodeutil.Node, a choice whose case holds a list panics as
// soon as that list has data: Node.exists() sends a ChildRequest without
// Selection and DoGetChild dereferences r.Selection.Path for lists.
func TestFinding4(t *testing.T) {
	m := c03Module(t, `module x { namespace "x"; prefix x; revision 0;
	  choice ch { case one { list l { key k; leaf k { type string; } } } case two { leaf y { type string; } } }
	}`)
	list := map[string]interface{}{"a": map[string]interface{}{"k": "a"}}
	data := map[string]interface{}{"l": list}
	b := node.NewBrowser(m, &nodeutil.Node{Object: data})
	err := c03Try(func() error { return b.Root().UpsertFrom(c03JSON(t, `{"l":[{"k":"b"}]}`)) })
	if err != nil {
		t.Fatalf("upsert of l=b into a target that holds l=a failed: %v", err)
	}
	if len(list) != 2 {
		t.Fatalf("expected entries a and b, got %v", data)
	}
}

// Finding 5: the map-backed Reflect node stores a list with several keys in a
// map indexed by the first key only, so entries that share the first key
// overwrite each other (and what is left cannot be read back).
func TestFinding5(t *testing.T) {
	m := c03Module(t, `module x { namespace "x"; prefix x; revision 0;
	  list l { key "a b"; leaf a { type string; } leaf b { type int32; } leaf v { type string; } }
	}`)
	data := map[string]interface{}{}
	b := node.NewBrowser(m, nodeutil.ReflectChild(data))
	err := c03Try(func() error {
		return b.Root().UpsertFrom(c03JSON(t, `{"l":[{"a":"p","b":1,"v":"one"},{"a":"p","b":2,"v":"two"}]}`))
	})
	if err != nil {
		t.Fatalf("upsert failed: %v", err)
	}
	got := c03Dump(b.Root())
	want := `{"l":[{"a":"p","b":1,"v":"one"},{"a":"p","b":2,"v":"two"}]}`
	if got != want {
		t.Fatalf("two entries [p 1] and [p 2] were upserted\n want %s\n got  %s\n raw  %v", want, got, data)
	}
}

// Finding 6: the map-backed Reflect node creates the map for a list whose key is
// neither string nor int32 (int64, uint32, boolean, ...) but can not iterate it:
// valSorter.Less only knows reflect.String and reflect.Int and panics "not
// supported".  The result of the upsert can neither be read nor used as source.
func TestFinding6(t *testing.T) {
	m := c03Module(t, `module x { namespace "x"; prefix x; revision 0;
	  list l { key k; leaf k { type int64; } leaf v { type string; } }
	}`)
	data := map[string]interface{}{}
	b := node.NewBrowser(m, nodeutil.ReflectChild(data))
	err := c03Try(func() error {
		return b.Root().UpsertFrom(c03JSON(t, `{"l":[{"k":2,"v":"b"},{"k":1,"v":"a"}]}`))
	})
	if err != nil {
		t.Fatalf("upsert failed: %v", err)
	}
	copy := map[string]interface{}{}
	err = c03Try(func() error { return b.Root().UpsertInto(nodeutil.ReflectChild(copy)) })
	if err != nil {
		t.Fatalf("the tree that was just upserted cannot be used as source of another upsert: %v", err)
	}
	if l, _ := copy["l"].(map[int64]interface{}); len(l) != 2 {
		t.Fatalf("expected two entries in the copy, got %v", copy)
	}
}

// Finding 7: the map-backed Reflect node does not see data of a choice nested
// in a case of another choice (childMap.OnChoose looks the nested choice up by
// its own name).  Used as source, that data is silently left out of the merge.
func TestFinding7(t *testing.T) {
	m := c03Module(t, `module x { namespace "x"; prefix x; revision 0;
	  choice outer {
	    case a { choice inner { case i1 { leaf x { type string; } } case i2 { leaf y { type string; } } } }
	    case b { leaf z { type string; } }
	  }
	}`)
	src := map[string]interface{}{"x": "X"}
	data := map[string]interface{}{}
	err := c03Try(func() error {
		return node.NewBrowser(m, nodeutil.ReflectChild(src)).Root().UpsertInto(nodeutil.ReflectChild(data))
	})
	if err != nil {
		t.Fatalf("upsert failed: %v", err)
	}
	if data["x"] != "X" {
		t.Fatalf("source {x:X} upserted into {} without error, expected {x:X}, got %v", data)
	}
}

// Finding 8: UpsertFromSetDefaults / UpsertIntoSetDefaults apply the schema
// defaults at every level and to containers that already exist, so a value
// that the source does not mention is overwritten by the default.
func TestFinding8(t *testing.T) {
	m := c03Module(t, `module x { namespace "x"; prefix x; revision 0;
	  container c { leaf a { type string; } leaf d { type int32; default 7; } }
	}`)
	data := map[string]interface{}{}
	b := node.NewBrowser(m, nodeutil.ReflectChild(data))
	if err := b.Root().UpsertFrom(c03JSON(t, `{"c":{"a":"A","d":1}}`)); err != nil {
		t.Fatal(err)
	}
	err := c03Try(func() error { return b.Root().UpsertFromSetDefaults(c03JSON(t, `{"c":{"a":"B"}}`)) })
	if err != nil {
		t.Fatalf("upsert failed: %v", err)
	}
	got := c03Dump(b.Root())
	want := `{"c":{"a":"B","d":1}}`
	if got != want {
		t.Fatalf("c/d was 1 and the source does not mention it\n want %s\n got  %s", want, got)
	}
}
