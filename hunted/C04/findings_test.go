// Copy this file into the package directory  nodeutil/  of github.com/freeconf/yang
// (package name: nodeutil_test, i.e. the external test package of nodeutil).
//
// Property C04 - export and JSON round-trip reproduce exactly the data present.
// Every test below FAILS on the current tree because of a defect.
package nodeutil_test

import (
	"fmt"
	"strings"
	"testing"
	"time"

	"github.com/freeconf/yang/node"
	"github.com/freeconf/yang/nodeutil"
	"github.com/freeconf/yang/parser"
)

type c04result struct {
	out string
	err error
}

// c04guard runs f with a recover and a 5 second timeout
func c04guard(f func() (string, error)) (string, error) {
	done := make(chan c04result, 1)
	go func() {
		defer func() {
			if r := recover(); r != nil {
				done <- c04result{"", fmt.Errorf("PANIC: %v", r)}
			}
		}()
		out, err := f()
		done <- c04result{out, err}
	}()
	select {
	case r := <-done:
		return r.out, r.err
	case <-time.After(5 * time.Second):
		return "", fmt.Errorf("HANG: no answer after 5 seconds")
	}
}

// c04export decodes the JSON text with the library's reader against the schema and
// exports it again as JSON with the given writer settings
func c04export(yang string, in string, wtr nodeutil.JSONWtr) (string, error) {
	return c04guard(func() (string, error) {
		m, err := parser.LoadModuleFromString(nil, yang)
		if err != nil {
			return "", fmt.Errorf("schema does not load: %w", err)
		}
		n, err := nodeutil.ReadJSON(in)
		if err != nil {
			return "", err
		}
		return wtr.JSON(node.NewBrowser(m, n).Root())
	})
}

// c04roundTrip : in -> tree -> out1 -> tree -> out2 and requires out1 == want == out2
func c04roundTrip(t *testing.T, yang string, in string, want string) {
	t.Helper()
	out1, err := c04export(yang, in, nodeutil.JSONWtr{})
	if err != nil {
		t.Fatalf("exporting %s failed: %v (partial output %q)", in, err, out1)
	}
	if out1 != want {
		t.Fatalf("exporting %s gave %s, expected %s", in, out1, want)
	}
	out2, err := c04export(yang, out1, nodeutil.JSONWtr{})
	if err != nil {
		t.Fatalf("the library cannot read back its own output %s : %v", out1, err)
	}
	if out2 != out1 {
		t.Fatalf("round trip altered the data: first export %s, after decoding and exporting again %s", out1, out2)
	}
}

// Finding 1: data below a choice that is nested in a case of another choice is
// silently dropped when the source is the JSON reader.
func TestFinding1(t *testing.T) {
	yang := `module m { namespace "m"; prefix m;
		choice o {
			case c1 {
				choice i {
					case i1 { leaf a { type string; } }
					case i2 { leaf b { type string; } }
				}
			}
			case c2 { leaf c { type string; } }
		}
	}`
	c04roundTrip(t, yang, `{"b":"hi"}`, `{"b":"hi"}`)
}

// Finding 2: an enumeration whose enum names look like numbers is decoded by
// value instead of by name: another enum comes out, or the value is refused.
func TestFinding2(t *testing.T) {
	yang := `module m { namespace "m"; prefix m;
		leaf t { type enumeration { enum "2"; enum "1"; enum "0"; } }
	}`
	// names "2","1","0" have the values 0,1,2
	c04roundTrip(t, yang, `{"t":"2"}`, `{"t":"2"}`)
}

// Finding 3: a leaf-list of enumeration read into another node (Reflect on a map)
// and read out again has become a single enum without a name.
func TestFinding3(t *testing.T) {
	yang := `module m { namespace "m"; prefix m;
		leaf-list y { type enumeration { enum a; enum b; } }
	}`
	in := `{"y":["b","a"]}`
	out, err := c04guard(func() (string, error) {
		m, err := parser.LoadModuleFromString(nil, yang)
		if err != nil {
			return "", err
		}
		src, err := nodeutil.ReadJSON(in)
		if err != nil {
			return "", err
		}
		data := map[string]interface{}{}
		b := node.NewBrowser(m, nodeutil.ReflectChild(data))
		if err = b.Root().UpsertFrom(src); err != nil {
			return "", err
		}
		return nodeutil.WriteJSON(b.Root())
	})
	if err != nil {
		t.Fatalf("copy into a map and export failed: %v", err)
	}
	if out != in {
		t.Fatalf("%s copied into a map node and exported gives %s", in, out)
	}
}

// Finding 4: int64 / uint64 values beyond 2^53 are written as JSON numbers which
// the library's own reader decodes through float64: altered or refused.
func TestFinding4(t *testing.T) {
	yang := `module m { namespace "m"; prefix m;
		leaf x { type int64; }
		leaf y { type uint64; }
	}`
	for _, in := range []string{
		`{"x":"9007199254740993"}`,
		`{"x":"9223372036854775807"}`,
		`{"y":"18446744073709551615"}`,
	} {
		digits := strings.Split(in, `"`)[3]
		out1, err := c04export(yang, in, nodeutil.JSONWtr{})
		if err != nil {
			t.Fatalf("exporting %s failed: %v", in, err)
		}
		if !strings.Contains(out1, digits) {
			t.Fatalf("exporting %s gave %s", in, out1)
		}
		out2, err := c04export(yang, out1, nodeutil.JSONWtr{})
		if err != nil {
			t.Fatalf("the library cannot read back its own output %s : %v", out1, err)
		}
		if out2 != out1 {
			t.Fatalf("round trip altered the data: first export %s, after decoding and exporting again %s", out1, out2)
		}
	}
}

// Finding 5: a leaf-list of type leafref takes the format of the leaf it points at,
// so its elements come out as one string "[a b]" (or the read fails for numbers).
func TestFinding5(t *testing.T) {
	yang := `module m { namespace "m"; prefix m;
		list l { key k; leaf k { type string; } }
		leaf-list r { type leafref { path "../l/k"; } }
	}`
	in := `{"l":[{"k":"a"},{"k":"b"}],"r":["a","b"]}`
	c04roundTrip(t, yang, in, in)
}

// Finding 6: a leafref to an identityref leaf cannot be written as JSON; the writer
// looks for the identity in the (empty) bases of the leafref type, fails and leaves
// truncated JSON behind.
func TestFinding6(t *testing.T) {
	yang := `module m { namespace "m"; prefix m;
		identity a; identity b { base a; }
		leaf t { type identityref { base a; } }
		leaf r { type leafref { path "../t"; } }
	}`
	in := `{"t":"b","r":"b"}`
	c04roundTrip(t, yang, in, in)
}

// Finding 7: leaf-lists of identityref and of bits cannot be decoded from JSON
// (the []interface{} the JSON decoder produces is not handled), although the
// writer produces exactly this text for them.
func TestFinding7(t *testing.T) {
	yangIdent := `module m { namespace "m"; prefix m;
		identity a; identity b { base a; } identity c { base a; }
		leaf-list x { type identityref { base a; } }
	}`
	yangBits := `module m { namespace "m"; prefix m;
		leaf-list x { type bits { bit p; bit q; } }
	}`
	c04roundTrip(t, yangIdent, `{"x":["b","c"]}`, `{"x":["b","c"]}`)
	c04roundTrip(t, yangBits, `{"x":["p","p q"]}`, `{"x":["p","p q"]}`)
}

// Finding 8: a union with an enumeration (or identityref, bits) member cannot hold
// a value of that member: the JSON reader refuses it.
func TestFinding8(t *testing.T) {
	yang := `module m { namespace "m"; prefix m;
		leaf x { type union { type enumeration { enum unbounded; } type uint32; } }
	}`
	c04roundTrip(t, yang, `{"x":7}`, `{"x":7}`)
	c04roundTrip(t, yang, `{"x":"unbounded"}`, `{"x":"unbounded"}`)
}
