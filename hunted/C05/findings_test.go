// Copy this file into the package directory  node/  of the module
// github.com/freeconf/yang ; package name: node_test
//
// Property C05 - no write stores a value outside the leaf's effective type.
// Every TestFindingN fails on the current tree because of the defect it names.
package node_test

import (
	"fmt"
	"math"
	"strings"
	"testing"
	"time"

	"github.com/freeconf/yang/node"
	"github.com/freeconf/yang/nodeutil"
	"github.com/freeconf/yang/parser"
)

const c05Hdr = `module m { prefix "m"; namespace "m"; revision 0; `

// c05Guard runs f protected against panics and hangs
func c05Guard(f func() error) (err error, panicked bool, hung bool) {
	type res struct {
		err      error
		panicked bool
	}
	done := make(chan res, 1)
	go func() {
		var r res
		defer func() {
			if p := recover(); p != nil {
				r.err = fmt.Errorf("panic: %v", p)
				r.panicked = true
			}
			done <- r
		}()
		r.err = f()
	}()
	select {
	case r := <-done:
		return r.err, r.panicked, false
	case <-time.After(5 * time.Second):
		return fmt.Errorf("hang"), false, true
	}
}

func c05Browser(t *testing.T, body string) (*node.Browser, map[string]interface{}) {
	t.Helper()
	m, err := parser.LoadModuleFromString(nil, c05Hdr+body+"}")
	if err != nil {
		t.Fatalf("schema is legal YANG but did not load: %v", err)
	}
	data := make(map[string]interface{})
	return node.NewBrowser(m, nodeutil.ReflectChild(data)), data
}

func c05UpsertJSON(b *node.Browser, js string) (error, bool, bool) {
	return c05Guard(func() error {
		n, err := nodeutil.ReadJSON(js)
		if err != nil {
			return err
		}
		return b.Root().UpsertFrom(n)
	})
}

func c05UpsertXML(b *node.Browser, x string) (error, bool, bool) {
	return c05Guard(func() error {
		n, err := nodeutil.ReadXMLDoc(strings.NewReader(x))
		if err != nil {
			return err
		}
		return b.Root().UpsertFrom(n)
	})
}

func c05SetValue(b *node.Browser, leaf string, v interface{}) (error, bool, bool) {
	return c05Guard(func() error {
		sel, err := b.Root().Find(leaf)
		if err != nil {
			return err
		}
		if sel == nil {
			return fmt.Errorf("leaf %s not found", leaf)
		}
		return sel.SetValue(v)
	})
}

// Finding 1: patterns are not anchored. A YANG pattern has to match the whole
// value (RFC 7950 9.4.5, XSD regular expressions are implicitly anchored), the
// check uses an unanchored regexp.MatchString, so any value that merely
// contains a match is stored; with invert-match the error is the other way round.
func TestFinding1(t *testing.T) {
	body := `leaf p { type string { pattern "[0-9]+"; } }
	         leaf q { type string { pattern "[a-z]+" { modifier invert-match; } } }`
	var problems []string
	{
		b, data := c05Browser(t, body)
		err, _, _ := c05UpsertJSON(b, `{"p":"abc1def"}`)
		if err == nil {
			problems = append(problems, fmt.Sprintf("JSON upsert of p=\"abc1def\" with pattern \"[0-9]+\" accepted, stored %#v", data["p"]))
		}
	}
	{
		b, data := c05Browser(t, body)
		err, _, _ := c05SetValue(b, "p", "abc1def")
		if err == nil {
			problems = append(problems, fmt.Sprintf("SetValue of p=\"abc1def\" with pattern \"[0-9]+\" accepted, stored %#v", data["p"]))
		}
	}
	{
		b, data := c05Browser(t, body)
		err, _, _ := c05UpsertXML(b, `<m xmlns="m"><p>abc1def</p></m>`)
		if err == nil {
			problems = append(problems, fmt.Sprintf("XML upsert of p=\"abc1def\" with pattern \"[0-9]+\" accepted, stored %#v", data["p"]))
		}
	}
	{
		// "1abc1" does not match [a-z]+ as a whole, so with invert-match it is a legal value
		b, _ := c05Browser(t, body)
		err, _, _ := c05UpsertJSON(b, `{"q":"1abc1"}`)
		if err != nil {
			problems = append(problems, fmt.Sprintf("q=\"1abc1\" with inverted pattern \"[a-z]+\" rejected: %v", err))
		}
	}
	if len(problems) > 0 {
		t.Fatalf("patterns are matched unanchored:\n  %s", strings.Join(problems, "\n  "))
	}
}

// Finding 2: several pattern statements of one type are ORed, RFC 7950 9.4.5
// requires the value to match all of them.
func TestFinding2(t *testing.T) {
	body := `leaf p { type string { pattern "a.*"; pattern ".*z"; } }`
	b, data := c05Browser(t, body)
	err, _, _ := c05UpsertJSON(b, `{"p":"abc"}`)
	if err == nil {
		t.Fatalf("p=\"abc\" matches pattern \"a.*\" but not pattern \".*z\"; the write was accepted and stored %#v", data["p"])
	}
}

// Finding 3: the restrictions of the member types of a union are never
// checked: whatever converts to the go type of one member is stored.
func TestFinding3(t *testing.T) {
	body := `typedef u { type union { type int32 { range "1..10"; } type string { length "1..2"; pattern "x+"; } } }
	         leaf p { type u; }
	         leaf-list pl { type u; }`
	var problems []string
	for _, js := range []string{`{"p":500}`, `{"p":"abcdef"}`, `{"pl":[500,3]}`} {
		b, data := c05Browser(t, body)
		err, _, _ := c05UpsertJSON(b, js)
		if err == nil {
			problems = append(problems, fmt.Sprintf("%s accepted, stored %#v", js, data))
		}
	}
	{
		b, data := c05Browser(t, body)
		err, _, _ := c05SetValue(b, "p", 500)
		if err == nil {
			problems = append(problems, fmt.Sprintf("SetValue(500) accepted, stored %#v", data))
		}
	}
	if len(problems) > 0 {
		t.Fatalf("union { int32 range 1..10 ; string length 1..2 pattern x+ } accepts values of no member:\n  %s", strings.Join(problems, "\n  "))
	}
}

// Finding 4: bit names that are not declared are silently dropped instead of
// rejected, so the write "succeeds" and stores a different value.
func TestFinding4(t *testing.T) {
	body := `leaf p { type bits { bit a; bit b; } }`
	var problems []string
	{
		b, data := c05Browser(t, body)
		err, _, _ := c05UpsertJSON(b, `{"p":"a bogus"}`)
		if err == nil {
			problems = append(problems, fmt.Sprintf("JSON p=\"a bogus\" accepted, stored %#v", data["p"]))
		}
	}
	{
		b, data := c05Browser(t, body)
		err, _, _ := c05SetValue(b, "p", "bogus")
		if err == nil {
			problems = append(problems, fmt.Sprintf("SetValue(\"bogus\") accepted, stored %#v", data["p"]))
		}
	}
	{
		// positions 2..7 are not declared either
		b, data := c05Browser(t, body)
		err, _, _ := c05UpsertJSON(b, `{"p":255}`)
		if err == nil {
			problems = append(problems, fmt.Sprintf("JSON p=255 accepted, stored %#v", data["p"]))
		}
	}
	if len(problems) > 0 {
		t.Fatalf("bits { a b } accepts undeclared bits:\n  %s", strings.Join(problems, "\n  "))
	}
}

// Finding 5: a single (non-array) value written to a leaf-list of enumeration
// is accepted when it is NOT a declared enum (stored as the zero Enum) and
// rejected when it is one: the error test in toEnumList is inverted.
func TestFinding5(t *testing.T) {
	body := `leaf-list p { type enumeration { enum a; enum b; } }`
	var problems []string
	{
		b, data := c05Browser(t, body)
		err, _, _ := c05UpsertJSON(b, `{"p":"bogus"}`)
		if err == nil {
			problems = append(problems, fmt.Sprintf("JSON p=\"bogus\" accepted, stored %#v", data["p"]))
		}
	}
	{
		b, data := c05Browser(t, body)
		err, _, _ := c05SetValue(b, "p", "bogus")
		if err == nil {
			problems = append(problems, fmt.Sprintf("SetValue(\"bogus\") accepted, stored %#v", data["p"]))
		}
	}
	{
		b, data := c05Browser(t, body)
		err, _, _ := c05UpsertXML(b, `<m xmlns="m"><p>bogus</p></m>`)
		if err == nil {
			problems = append(problems, fmt.Sprintf("XML <p>bogus</p> accepted, stored %#v", data["p"]))
		}
	}
	if len(problems) > 0 {
		t.Fatalf("leaf-list of enumeration { a b } accepts an undeclared name:\n  %s", strings.Join(problems, "\n  "))
	}
}

// Finding 6: decimal64 accepts NaN (and +-Inf); NaN compares neither below nor
// above any bound so it passes every range restriction.
func TestFinding6(t *testing.T) {
	body := `leaf p { type decimal64 { fraction-digits 2; range "1..10"; } }`
	var problems []string
	{
		b, data := c05Browser(t, body)
		err, _, _ := c05UpsertJSON(b, `{"p":"NaN"}`)
		if err == nil {
			problems = append(problems, fmt.Sprintf("JSON p=\"NaN\" accepted, stored %#v", data["p"]))
		}
	}
	{
		b, data := c05Browser(t, body)
		err, _, _ := c05SetValue(b, "p", math.NaN())
		if err == nil {
			problems = append(problems, fmt.Sprintf("SetValue(NaN) accepted, stored %#v", data["p"]))
		}
	}
	{
		b, data := c05Browser(t, body)
		err, _, _ := c05UpsertXML(b, `<m xmlns="m"><p>NaN</p></m>`)
		if err == nil {
			problems = append(problems, fmt.Sprintf("XML <p>NaN</p> accepted, stored %#v", data["p"]))
		}
	}
	if len(problems) > 0 {
		t.Fatalf("decimal64 with range \"1..10\" accepts NaN:\n  %s", strings.Join(problems, "\n  "))
	}
}

// Finding 7: a length whose bound needs 64 unsigned bits (legal: a length is
// at most 18446744073709551615) panics when any value is checked.
func TestFinding7(t *testing.T) {
	body := `leaf p { type string { length "0..18446744073709551615"; } }
	         leaf q { type string { length "1..9223372036854775808"; } }`
	var problems []string
	for _, js := range []string{`{"p":"abc"}`, `{"q":"abc"}`} {
		b, data := c05Browser(t, body)
		err, panicked, hung := c05UpsertJSON(b, js)
		if panicked || hung {
			problems = append(problems, fmt.Sprintf("%s : %v", js, err))
		} else if err != nil {
			problems = append(problems, fmt.Sprintf("%s : legal value rejected: %v", js, err))
		} else if len(data) != 1 {
			problems = append(problems, fmt.Sprintf("%s : not stored: %#v", js, data))
		}
	}
	if len(problems) > 0 {
		t.Fatalf("checking a length with a 64-bit bound crashes:\n  %s", strings.Join(problems, "\n  "))
	}
}

// Finding 8: a list entry whose key is outside the key leaf's type is
// rejected, but only after the entry has been created under that key: the
// rejected write leaves data behind.
func TestFinding8(t *testing.T) {
	body := `list l { key id; leaf id { type int32 { range "1..10"; } } leaf x { type string; } }
	         list s { key id; leaf id { type string { pattern "[a-z]+"; } } }`
	var problems []string
	{
		b, data := c05Browser(t, body)
		err, _, _ := c05UpsertJSON(b, `{"l":[{"id":99,"x":"y"}]}`)
		if err == nil {
			problems = append(problems, "key id=99 with range 1..10 accepted")
		}
		if len(data) != 0 {
			problems = append(problems, fmt.Sprintf("upsert of l[id=99] (range 1..10) returned %v but stored %#v", err, data))
		}
	}
	{
		b, data := c05Browser(t, body)
		err, _, _ := c05UpsertJSON(b, `{"s":[{"id":"99"}]}`)
		if err == nil {
			problems = append(problems, "key id=\"99\" with pattern [a-z]+ accepted")
		}
		if len(data) != 0 {
			problems = append(problems, fmt.Sprintf("upsert of s[id=\"99\"] (pattern [a-z]+) returned %v but stored %#v", err, data))
		}
	}
	if len(problems) > 0 {
		t.Fatalf("a rejected key value is stored nevertheless:\n  %s", strings.Join(problems, "\n  "))
	}
}
