// Copy this file into the directory  parser/  of the module github.com/freeconf/yang
// (package name: parser) and run:  go test ./parser -run 'TestFinding' -count=1 -v
//
// Property C06 - nothing written in a module is lost or altered on the way into the schema.
// Every test below FAILS on the current tree because of the defect it describes.
package parser

import (
	"fmt"
	"reflect"
	"strings"
	"testing"
	"time"

	"github.com/freeconf/yang/meta"
)

// c06Load loads a module from text; panics become errors, hangs become errors after 5s.
func c06Load(y string) (*meta.Module, error) {
	type result struct {
		m   *meta.Module
		err error
	}
	done := make(chan result, 1)
	go func() {
		defer func() {
			if r := recover(); r != nil {
				done <- result{nil, fmt.Errorf("PANIC: %v", r)}
			}
		}()
		m, err := LoadModuleFromString(nil, y)
		done <- result{m, err}
	}()
	select {
	case r := <-done:
		return r.m, r.err
	case <-time.After(5 * time.Second):
		return nil, fmt.Errorf("HANG: load did not return within 5s")
	}
}

// c06Guard turns a panic while reading the schema back into a test failure
func c06Guard(t *testing.T) {
	if r := recover(); r != nil {
		t.Fatalf("panic: %v", r)
	}
}

const c06Hdr = `namespace "urn:x"; prefix x; `

// Finding 1: the status statement is parsed and thrown away; Status() is always Current.
func TestFinding1(t *testing.T) {
	defer c06Guard(t)
	m, err := c06Load(`module x { ` + c06Hdr + `
		leaf a { type string; status deprecated; }
		container c { status obsolete; }
	}`)
	if err != nil {
		t.Fatalf("well-formed module rejected: %v", err)
	}
	a := m.DataDefinitions()[0].(*meta.Leaf)
	c := m.DataDefinitions()[1].(*meta.Container)
	if a.Status() != meta.Deprecated || c.Status() != meta.Obsolete {
		t.Fatalf("status lost: leaf a written 'deprecated' reads %d (want %d), container c written 'obsolete' reads %d (want %d)",
			a.Status(), meta.Deprecated, c.Status(), meta.Obsolete)
	}
}

// Finding 2: a multi-line double-quoted string keeps its layout indentation and the
// white space before line breaks (RFC 7950 6.1.3 says both are stripped).
func TestFinding2(t *testing.T) {
	defer c06Guard(t)
	// the opening quote is in column 13 (1-based), the text starts in column 14
	y := "module x { " + c06Hdr + "\n" +
		"description \"line one   \n" + // 3 trailing blanks before the line break
		"             line two\n" + // 13 blanks: aligned under the text of line one
		"               line three\";\n" + // 15 blanks: two more than the alignment
		"}"
	m, err := c06Load(y)
	if err != nil {
		t.Fatalf("well-formed module rejected: %v", err)
	}
	want := "line one\nline two\n  line three"
	if m.Description() != want {
		t.Fatalf("multi-line double-quoted description altered:\n got  %q\n want %q", m.Description(), want)
	}
}

// Finding 3: statements whose grammar rule takes the raw string token (revision, yang-version,
// argument, enum, extension-with-a-body) keep the quote characters / unresolved escapes.
func TestFinding3(t *testing.T) {
	defer c06Guard(t)
	m, err := c06Load(`module x { yang-version "1.1"; ` + c06Hdr + `
		revision "2020-01-01" { description "r"; }
		extension e { argument "name"; }
		x:e "hello" { description "d"; }
		leaf l { type enumeration { enum 'a b'; enum "c\"d"; } }
	}`)
	if err != nil {
		t.Fatalf("well-formed module rejected: %v", err)
	}
	var bad []string
	chk := func(what, got, want string) {
		if got != want {
			bad = append(bad, fmt.Sprintf("%s: got %q want %q", what, got, want))
		}
	}
	chk("revision", m.Revision().Ident(), "2020-01-01")
	chk("yang-version", m.Version(), "1.1")
	chk("argument", m.ExtensionDefs()["e"].Argument().Ident(), "name")
	chk("extension argument (with body)", m.Extensions()[0].Argument(), "hello")
	enums := m.DataDefinitions()[0].(*meta.Leaf).Type().Enums()
	chk("enum 'a b'", enums[0].Ident(), "a b")
	chk(`enum "c\"d"`, enums[1].Ident(), `c"d`)
	if len(bad) > 0 {
		t.Fatalf("quoted arguments read back with their quotes / escapes:\n  %s", strings.Join(bad, "\n  "))
	}
}

// Finding 4: key and unique arguments are split on single blanks only, so any other legal
// separation (several blanks, a line break) is rejected (key) or yields bogus names (unique).
func TestFinding4(t *testing.T) {
	defer c06Guard(t)
	m, err := c06Load(`module x { ` + c06Hdr + `
		list l {
			key "a
			     b";
			unique "c  d";
			leaf a { type string; } leaf b { type string; }
			leaf c { type string; } leaf d { type string; }
		}
	}`)
	if err != nil {
		// try unique alone so that both halves of the defect are visible
		m2, err2 := c06Load(`module x { ` + c06Hdr + ` list l { key "a"; unique "c  d";
			leaf a { type string; } leaf c { type string; } leaf d { type string; } } }`)
		extra := ""
		if err2 == nil {
			extra = fmt.Sprintf("; and unique \"c  d\" reads back as %q", m2.DataDefinitions()[0].(*meta.List).Unique())
		}
		t.Fatalf("key \"a<newline>b\" rejected: %v%s", err, extra)
	}
	l := m.DataDefinitions()[0].(*meta.List)
	if !reflect.DeepEqual(l.Unique(), [][]string{{"c", "d"}}) {
		t.Fatalf("unique altered: %q", l.Unique())
	}
}

// Finding 5: "uses g { when ...; }" overwrites the when statements written on the nodes
// inside the grouping.
func TestFinding5(t *testing.T) {
	defer c06Guard(t)
	m, err := c06Load(`module x { ` + c06Hdr + `
		grouping g {
			leaf a { type string; when "../b = 'x'"; }
			leaf b { type string; }
		}
		container c { uses g { when "1 = 1"; } }
	}`)
	if err != nil {
		t.Fatalf("well-formed module rejected: %v", err)
	}
	a := m.DataDefinitions()[0].(*meta.Container).DataDefinitions()[0].(*meta.Leaf)
	if a.When() == nil || !strings.Contains(a.When().Expression(), "../b = 'x'") {
		got := "<nil>"
		if a.When() != nil {
			got = a.When().Expression()
		}
		t.Fatalf("when \"../b = 'x'\" written on leaf a is gone, leaf reads when %q", got)
	}
}

// Finding 6: the cases of a choice are kept in a map; the only ordered view (CaseIdents) is
// alphabetical, the textual order is gone. (rpc/action/notification siblings: same, map only.)
func TestFinding6(t *testing.T) {
	defer c06Guard(t)
	m, err := c06Load(`module x { ` + c06Hdr + `
		choice ch {
			case zz { leaf z { type string; } }
			case aa { leaf a { type string; } }
			leaf mm { type string; }
		}
	}`)
	if err != nil {
		t.Fatalf("well-formed module rejected: %v", err)
	}
	ch := m.DataDefinitions()[0].(*meta.Choice)
	want := []string{"zz", "aa", "mm"}
	if got := ch.CaseIdents(); !reflect.DeepEqual(got, want) {
		t.Fatalf("textual order of sibling cases lost: got %v want %v (Cases() is an unordered map)", got, want)
	}
}

// Finding 7: loading the same text repeatedly yields different schemas: the order of
// Identity.DerivedDirect() follows Go's random map iteration in compile.
func TestFinding7(t *testing.T) {
	defer c06Guard(t)
	y := `module x { ` + c06Hdr + ` identity base; `
	var want []string
	for i := 0; i < 8; i++ {
		y += fmt.Sprintf("identity d%d { base base; } ", i)
		want = append(want, fmt.Sprintf("d%d", i))
	}
	y += "}"
	seen := map[string]bool{}
	for i := 0; i < 25; i++ {
		m, err := c06Load(y)
		if err != nil {
			t.Fatalf("well-formed module rejected: %v", err)
		}
		var ids []string
		for _, d := range m.Identities()["base"].DerivedDirect() {
			ids = append(ids, d.Ident())
		}
		seen[strings.Join(ids, ",")] = true
	}
	if len(seen) != 1 || !seen[strings.Join(want, ",")] {
		var ex []string
		for k := range seen {
			ex = append(ex, k)
			if len(ex) == 3 {
				break
			}
		}
		t.Fatalf("25 loads of the same text gave %d different orders of base.DerivedDirect(), e.g. %v; want always %v",
			len(seen), ex, want)
	}
}

// Finding 8: an extension written once below description / presence / units ... is stored twice.
func TestFinding8(t *testing.T) {
	defer c06Guard(t)
	m, err := c06Load(`module x { ` + c06Hdr + `
		extension e;
		container c { description "d" { x:e; } }
	}`)
	if err != nil {
		t.Fatalf("well-formed module rejected: %v", err)
	}
	exts := m.DataDefinitions()[0].Extensions()
	if len(exts) != 1 {
		var s []string
		for _, e := range exts {
			s = append(s, fmt.Sprintf("%s:%s(on %q)", e.Prefix(), e.Ident(), e.Keyword()))
		}
		t.Fatalf("one extension written below description, %d read back: %v", len(exts), s)
	}
}
