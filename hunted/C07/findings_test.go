// Copy this file into the package directory  node/  of github.com/freeconf/yang
// (package name: node_test) and run:  go test ./node -run TestFinding -v
//
// Property C07: query parameters (content, depth, fields, fc.xfields,
// with-defaults=trim, fc.range, fc.max-node-count) return exactly the defined
// projection of the unconstrained read.
package node_test

import (
	"fmt"
	"strings"
	"testing"
	"time"

	"github.com/freeconf/yang/node"
	"github.com/freeconf/yang/nodeutil"
	"github.com/freeconf/yang/parser"
)

// c07Browser builds a browser over JSON data for the given module source
func c07Browser(t *testing.T, yang string, data string) *node.Browser {
	t.Helper()
	m, err := parser.LoadModuleFromString(nil, yang)
	if err != nil {
		t.Fatalf("setup: module does not load: %v", err)
	}
	n, err := nodeutil.ReadJSON(data)
	if err != nil {
		t.Fatalf("setup: data does not load: %v", err)
	}
	return node.NewBrowser(m, n)
}

type c07Result struct {
	out string
	err error
}

// c07Guard runs f guarded against panics and hangs
func c07Guard(t *testing.T, f func() (string, error)) (string, error) {
	t.Helper()
	done := make(chan c07Result, 1)
	go func() {
		defer func() {
			if r := recover(); r != nil {
				done <- c07Result{err: fmt.Errorf("PANIC: %v", r)}
			}
		}()
		out, err := f()
		done <- c07Result{out: out, err: err}
	}()
	select {
	case r := <-done:
		return r.out, r.err
	case <-time.After(5 * time.Second):
		return "", fmt.Errorf("HANG: no answer after 5 seconds")
	}
}

// c07Read finds path (with its query parameters) from the root and renders it as JSON
func c07Read(t *testing.T, b *node.Browser, path string) (string, error) {
	t.Helper()
	return c07Guard(t, func() (string, error) {
		sel, err := b.Root().Find(path)
		if err != nil {
			return "", fmt.Errorf("find: %w", err)
		}
		if sel == nil {
			return "<nil selection>", nil
		}
		return nodeutil.WriteJSON(sel)
	})
}

// Finding 1: the ';' that separates alternative paths in fields / fc.xfields
// (documented as fields=field1;field2) makes Find and Constrain drop the whole
// parameter without an error: the answer is the unfiltered tree.
func TestFinding1(t *testing.T) {
	y := `module x { namespace "x"; prefix x;
		leaf l1 { type string; }
		leaf l2 { type string; }
		container a { leaf a1 { type string; } leaf a2 { type string; } }
	}`
	d := `{"l1":"L1","l2":"L2","a":{"a1":"A1","a2":"A2"}}`
	b := c07Browser(t, y, d)
	expected := `{"l1":"L1","a":{"a1":"A1"}}`

	// control: percent-encoded separator works
	if out, err := c07Read(t, b, "?fields=l1%3Ba/a1"); err != nil || out != expected {
		t.Fatalf("control with %%3B failed: %s, %v", out, err)
	}
	out, err := c07Read(t, b, "?fields=l1;a/a1")
	if err == nil && out != expected {
		t.Errorf("Find(\"?fields=l1;a/a1\") answered %s without error, expected %s (or an error)", out, expected)
	}
	out2, err2 := c07Guard(t, func() (string, error) {
		sel, err := b.Root().Constrain("fields=l1;a/a1")
		if err != nil {
			return "", err
		}
		return nodeutil.WriteJSON(sel)
	})
	if err2 == nil && out2 != expected {
		t.Errorf("Constrain(\"fields=l1;a/a1\") answered %s without error, expected %s (or an error)", out2, expected)
	}
	out3, err3 := c07Read(t, b, "?fc.xfields=l2;a/a2")
	if err3 == nil && out3 != expected {
		t.Errorf("Find(\"?fc.xfields=l2;a/a2\") answered %s without error, expected %s (or an error)", out3, expected)
	}
	if t.Failed() {
		t.FailNow()
	}
}

// Finding 2: fc.range=li!1-3 also cuts every list nested below the named list
// down to the same window.
func TestFinding2(t *testing.T) {
	y := `module x { namespace "x"; prefix x;
		list li { key id; leaf id { type string; }
			list sub { key id; leaf id { type string; } }
		}
	}`
	sub := `"sub":[{"id":"s0"},{"id":"s1"},{"id":"s2"},{"id":"s3"}]`
	d := `{"li":[{"id":"0",` + sub + `},{"id":"1",` + sub + `},{"id":"2",` + sub + `},{"id":"3",` + sub + `}]}`
	b := c07Browser(t, y, d)
	out, err := c07Read(t, b, "?fc.range=li!1-3")
	if err != nil {
		t.Fatalf("unexpected error %v", err)
	}
	// whatever the end row means (inclusive or exclusive), row 1 of li is in the
	// window and it has to come with all four entries of its own list "sub"
	if !strings.Contains(out, `{"id":"1",`+sub+`}`) {
		t.Fatalf("fc.range=li!1-3 altered the nested list li/sub, which the parameter does not name: %s", out)
	}
}

// Finding 3: an empty / inverted window (end row before start row) returns the
// start row instead of no rows (or an error).
func TestFinding3(t *testing.T) {
	y := `module x { namespace "x"; prefix x;
		list li { key id; leaf id { type string; } }
	}`
	d := `{"li":[{"id":"0"},{"id":"1"},{"id":"2"},{"id":"3"}]}`
	b := c07Browser(t, y, d)
	for _, window := range []string{"li!2-1", "li!3-0"} {
		out, err := c07Read(t, b, "?fc.range="+window)
		if err != nil {
			// an error is an acceptable answer to an inverted window
			continue
		}
		if out != `{"li":[]}` && out != `{}` {
			t.Errorf("fc.range=%s is an empty window of rows, but the answer is %s", window, out)
		}
	}
	if t.Failed() {
		t.FailNow()
	}
}

// Finding 4: the counter behind fc.max-node-count is never reset: reading the
// same constrained selection a second time fails although the data has not
// changed and is within the limit.
func TestFinding4(t *testing.T) {
	y := `module x { namespace "x"; prefix x;
		container a { leaf a1 { type string; } }
		container b { leaf b1 { type string; } }
	}`
	d := `{"a":{"a1":"A1"},"b":{"b1":"B1"}}`
	b := c07Browser(t, y, d)
	sel, err := b.Root().Find("?fc.max-node-count=2")
	if err != nil {
		t.Fatal(err)
	}
	first, err := c07Guard(t, func() (string, error) { return nodeutil.WriteJSON(sel) })
	if err != nil || first != d {
		t.Fatalf("first read: %s, %v", first, err)
	}
	second, err := c07Guard(t, func() (string, error) { return nodeutil.WriteJSON(sel) })
	if err != nil || second != first {
		t.Fatalf("second read of the same selection (2 containers, fc.max-node-count=2) answered %s, err=%v; the first read answered %s", second, err, first)
	}
}

// Finding 5: fc.max-node-count counts containers of the schema that do not
// exist in the data, so a tree with a single container is refused with limit 2.
func TestFinding5(t *testing.T) {
	y := `module x { namespace "x"; prefix x;
		container a { leaf a1 { type string; } }
		container b { leaf b1 { type string; } }
		container c { leaf c1 { type string; } }
	}`
	d := `{"a":{"a1":"A1"}}`
	b := c07Browser(t, y, d)
	out, err := c07Read(t, b, "?fc.max-node-count=2")
	if err != nil || out != d {
		t.Fatalf("data holds 1 container, fc.max-node-count=2: answer %s, err=%v, expected %s and no error", out, err, d)
	}
}

// Finding 6: any query parameter silently adds depth=64: content=config (or
// with-defaults=trim, ...) on a tree deeper than 64 levels loses the deeper
// levels without any error.
func TestFinding6(t *testing.T) {
	const levels = 70
	y := "module x { namespace \"x\"; prefix x;\n"
	// data: {"c0":{"v0":"x","c1":{"v1":"x", ... }}}
	d := ""
	for i := 0; i < levels; i++ {
		y += fmt.Sprintf("container c%d { leaf v%d { type string; }\n", i, i)
		if i > 0 {
			d += ","
		}
		d += fmt.Sprintf(`"c%d":{"v%d":"x"`, i, i)
	}
	d = "{" + d + strings.Repeat("}", levels) + "}"
	y += strings.Repeat("}", levels) + "}"
	b := c07Browser(t, y, d)
	full, err := c07Read(t, b, "")
	if err != nil || full != d {
		t.Fatalf("setup: unconstrained read: %v (len %d, expected %d)", err, len(full), len(d))
	}
	// every leaf is config, so content=config must not remove anything
	out, err := c07Read(t, b, "?content=config")
	if err != nil {
		t.Fatalf("unexpected error %v", err)
	}
	if out != full {
		t.Fatalf("content=config on an all-config tree of %d levels lost data without error: deepest leaf v%d present=%v, v63 present=%v, v64 present=%v",
			levels, levels-1, strings.Contains(out, fmt.Sprintf(`"v%d"`, levels-1)), strings.Contains(out, `"v63"`), strings.Contains(out, `"v64"`))
	}
}

// Finding 7: depth is not enforced where the schema is recursive (a grouping
// that uses itself below a container or list, which this library accepts):
// the whole subtree comes back.
func TestFinding7(t *testing.T) {
	y := `module x { namespace "x"; prefix x;
		grouping g {
			leaf v { type string; }
			container kid { uses g; }
			list kids { key v; uses g; }
		}
		container top { uses g; }
	}`
	d := `{"top":{"v":"0","kid":{"v":"1","kid":{"v":"2","kid":{"v":"3","kid":{"v":"4"}}}},` +
		`"kids":[{"v":"a","kids":[{"v":"aa","kids":[{"v":"aaa","kids":[{"v":"aaaa"}]}]}]}]}}`
	b := c07Browser(t, y, d)

	// control, target above the recursion: works
	if out, err := c07Read(t, b, "top?depth=1"); err != nil || out != `{"v":"0","kid":{},"kids":[{}]}` {
		t.Fatalf("control failed: %s %v", out, err)
	}
	out, err := c07Read(t, b, "top/kid?depth=1")
	if err != nil {
		t.Fatalf("unexpected error %v", err)
	}
	if strings.Contains(out, `"v":"3"`) || strings.Contains(out, `"v":"4"`) {
		t.Errorf("top/kid?depth=1 returns nodes 2 and 3 levels below the target: %s (expected {\"v\":\"1\",\"kid\":{}})", out)
	}
	out, err = c07Read(t, b, "top?depth=2")
	if err != nil {
		t.Fatalf("unexpected error %v", err)
	}
	if strings.Contains(out, `"aaa"`) {
		t.Errorf("top?depth=2 returns list entries 3 and 4 levels below the target: %s", out)
	}
	if t.Failed() {
		t.FailNow()
	}
}

// Finding 8: the leaves a "when" condition refers to are read through the
// query parameters of the request, so fields / content / with-defaults=trim
// make the condition false and remove nodes that the parameter selects and
// that the unconstrained read contains.
func TestFinding8(t *testing.T) {
	y := `module x { namespace "x"; prefix x;
		leaf z { type int32; default 50; }
		leaf y { when "z>10"; type int32; }
		leaf st { config false; when "z>10"; type int32; }
		container c { when "z>10"; leaf z { type int32; } leaf q { type string; } }
	}`
	d := `{"z":50,"y":100,"st":7,"c":{"z":99,"q":"Q"}}`
	b := c07Browser(t, y, d)
	if out, err := c07Read(t, b, ""); err != nil || out != d {
		t.Fatalf("setup: unconstrained read %s %v", out, err)
	}
	tests := []struct {
		path     string
		expected string
	}{
		{"?fields=y", `{"y":100}`},
		{"?fields=c/q", `{"c":{"q":"Q"}}`},
		{"c?fields=q", `{"q":"Q"}`},
		{"?content=nonconfig", `{"st":7,"c":{}}`},
		{"?with-defaults=trim", `{"y":100,"st":7,"c":{"z":99,"q":"Q"}}`},
	}
	for _, test := range tests {
		out, err := c07Read(t, b, test.path)
		if err != nil {
			t.Errorf("%s: unexpected error %v", test.path, err)
		} else if out != test.expected {
			t.Errorf("%s: answer %s, expected %s (the when condition z>10 holds in the data)", test.path, out, test.expected)
		}
	}
	if t.Failed() {
		t.FailNow()
	}
}
