// Copy this file into the package directory  node/  of github.com/freeconf/yang
// (package name: node_test), then run:  go test ./node -run 'TestFinding' -v
//
// Property C08 - Find reaches exactly the addressed node, and paths render back to it.
// Every test below FAILS on the current tree because of the defect it describes.
package node_test

import (
	"errors"
	"fmt"
	"testing"
	"time"

	"github.com/freeconf/yang/fc"
	"github.com/freeconf/yang/node"
	"github.com/freeconf/yang/nodeutil"
	"github.com/freeconf/yang/parser"
)

const c08Module = `
module m_x {
	namespace "urn:m"; prefix "m"; revision 0;
	container top {
		leaf a { type string; }
		list l {
			key "k";
			leaf k { type string; }
			leaf v { type string; }
			container sub { leaf z { type string; } }
			list inner {
				key "i";
				leaf i { type string; }
				leaf w { type string; }
			}
			action act { input {} }
		}
		list two {
			key "x y";
			leaf x { type string; }
			leaf y { type string; }
			leaf v { type string; }
		}
		list nokey {
			config false;
			leaf v { type string; }
		}
		list li { key k; leaf k { type int32; } leaf v { type string; } }
		list lb { key k; leaf k { type boolean; } leaf v { type string; } }
		list lbits { key k; leaf k { type bits { bit b0; bit b1; } } leaf v { type string; } }
		list lun { key k; leaf k { type union { type int32; type string; } } leaf v { type string; } }
		choice ch {
			case c1 { leaf c1l { type string; } }
			case c2 { leaf c2l { type string; } }
		}
		container other { leaf o { type string; } }
	}
}
`

type c08M = map[string]interface{}

func c08Data() c08M {
	return c08M{
		"top": c08M{
			"a": "A",
			"l": []c08M{
				{"k": "a", "v": "justa", "sub": c08M{"z": "Z1"}, "inner": []c08M{{"i": "i1", "w": "w1"}}},
				{"k": "b", "v": "justb"},
			},
			"two":   []c08M{{"x": "1", "y": "2", "v": "12"}},
			"nokey": []c08M{{"v": "n1"}, {"v": "n2"}},
			"li":    []c08M{{"k": 7, "v": "seven"}},
			"lb":    []c08M{{"k": true, "v": "t"}},
			"lbits": []c08M{{"k": "b0 b1", "v": "both"}},
			"lun":   []c08M{{"k": "5", "v": "five"}, {"k": "x", "v": "ex"}},
			"c1l":   "C1",
			"other": c08M{"o": "O"},
		},
	}
}

func c08ReflectRoot(t *testing.T) *node.Selection {
	m, err := parser.LoadModuleFromString(nil, c08Module)
	if err != nil {
		t.Fatal(err)
	}
	return node.NewBrowser(m, nodeutil.ReflectChild(c08Data())).Root()
}

// c08Find runs Find guarded against panics and hangs
func c08Find(t *testing.T, from *node.Selection, path string) (sel *node.Selection, err error) {
	type result struct {
		sel *node.Selection
		err error
	}
	done := make(chan result, 1)
	go func() {
		defer func() {
			if r := recover(); r != nil {
				done <- result{nil, fmt.Errorf("PANIC: %v", r)}
			}
		}()
		s, e := from.Find(path)
		done <- result{s, e}
	}()
	select {
	case r := <-done:
		return r.sel, r.err
	case <-time.After(5 * time.Second):
		t.Fatalf("Find(%q) did not return within 5 seconds", path)
	}
	return nil, nil
}

func c08MustFind(t *testing.T, from *node.Selection, path string) *node.Selection {
	s, err := c08Find(t, from, path)
	if err != nil {
		t.Fatalf("set-up: Find(%q): %v", path, err)
	}
	if s == nil {
		t.Fatalf("set-up: Find(%q) found nothing", path)
	}
	return s
}

// Finding 1: a leaf (also action / notification) found from a start selection other than the
// root has a path that lost everything above the start selection, including its list key.
func TestFinding1(t *testing.T) {
	root := c08ReflectRoot(t)
	want := c08MustFind(t, root, "top/l=a/v").Path.String() // m_x/top/l=a/v
	item := c08MustFind(t, root, "top/l=a")
	leaf := c08MustFind(t, item, "v")
	if got := leaf.Path.String(); got != want {
		t.Fatalf("Find(\"v\") from %s: path of the returned selection is %q, expected %q", item.Path.String(), got, want)
	}
}

// Finding 2: "../" taken from a list entry (or from anything below it) does not lead to the
// node that holds the list: the step stops at the key-less list node, so siblings of the
// list cannot be addressed and leafs are resolved against the list node.
func TestFinding2(t *testing.T) {
	root := c08ReflectRoot(t)
	item := c08MustFind(t, root, "top/l=a") // path m_x/top/l=a, its parent location is m_x/top
	got, err := c08Find(t, item, "../other")
	if err != nil || got == nil {
		t.Fatalf("Find(\"../other\") from %s = %v, err=%v; expected the selection m_x/top/other", item.Path.String(), got, err)
	}
	if got.Path.String() != "m_x/top/other" {
		t.Fatalf("Find(\"../other\") from %s reached %s", item.Path.String(), got.Path.String())
	}
}

// Finding 3: key values beyond the number of key leafs are silently dropped, so the key
// "a,zzz" (no such entry) returns entry "a", and a key given for a key-less list returns
// the first entry.
func TestFinding3(t *testing.T) {
	root := c08ReflectRoot(t)
	got, err := c08Find(t, root, "top/l=a,zzz")
	if err == nil && got != nil {
		t.Fatalf("Find(\"top/l=a,zzz\") returned the entry %s; list l has one key leaf and no entry \"a,zzz\": expected an error or no selection", got.Path.String())
	}
	got, err = c08Find(t, root, "top/two=1,2,3")
	if err == nil && got != nil {
		t.Fatalf("Find(\"top/two=1,2,3\") returned the entry %s; expected an error or no selection", got.Path.String())
	}
	got, err = c08Find(t, root, "top/nokey=zz")
	if err == nil && got != nil {
		t.Fatalf("Find(\"top/nokey=zz\") on a list without key returned an entry (%s); expected an error or no selection", got.Path.String())
	}
}

// Finding 4: in a data tree served by the JSON reader a list entry whose key is not a
// string (int32, boolean, decimal64, leafref to a number ...) is never found.
func TestFinding4(t *testing.T) {
	m, err := parser.LoadModuleFromString(nil, c08Module)
	if err != nil {
		t.Fatal(err)
	}
	n, err := nodeutil.ReadJSON(`{"top":{"li":[{"k":7,"v":"seven"}],"lb":[{"k":true,"v":"t"}]}}`)
	if err != nil {
		t.Fatal(err)
	}
	root := node.NewBrowser(m, n).Root()
	for _, p := range []string{"top/li=7", "top/lb=true"} {
		got, err := c08Find(t, root, p)
		if err != nil {
			t.Fatalf("Find(%q): %v", p, err)
		}
		if got == nil {
			t.Fatalf("Find(%q) found nothing although the entry is in the data", p)
		}
	}
}

// Finding 5: Find panics in val.CompareVals (unchecked type assertions) for a list kept in a
// slice (nodeutil.Reflect) whose key is of type bits, or of a union type with entries of
// different member types.
func TestFinding5(t *testing.T) {
	root := c08ReflectRoot(t)
	got, err := c08Find(t, root, "top/lbits=b0%20b1")
	if err != nil || got == nil {
		t.Fatalf("Find(\"top/lbits=b0%%20b1\") = %v, err=%v; expected the entry with key \"b0 b1\"", got, err)
	}
	got, err = c08Find(t, root, "top/lun=x")
	if err != nil || got == nil {
		t.Fatalf("Find(\"top/lun=x\") = %v, err=%v; expected the entry with key \"x\"", got, err)
	}
}

// Finding 6: below the top level a module qualifier is not checked at all: any text before
// the colon is accepted.
func TestFinding6(t *testing.T) {
	root := c08ReflectRoot(t)
	if _, err := c08Find(t, root, "bogus:top"); !errors.Is(err, fc.NotFoundError) {
		t.Fatalf("set-up: Find(\"bogus:top\") err=%v", err)
	}
	for _, p := range []string{"top/bogus:a", "top/bogus:l=a", "top/no-such-module:other/o"} {
		got, err := c08Find(t, root, p)
		if !errors.Is(err, fc.NotFoundError) {
			desc := "<nil>"
			if got != nil {
				desc = got.Path.String()
			}
			t.Fatalf("Find(%q) = %s, err=%v; expected a not-found error, there is no module of that name", p, desc, err)
		}
	}
}

// Finding 7: the name of a choice (not a data node) is accepted as a path segment and
// silently skipped: Find returns the parent of the choice and no error.
func TestFinding7(t *testing.T) {
	root := c08ReflectRoot(t)
	got, err := c08Find(t, root, "top/ch")
	if err == nil {
		desc := "<nil>"
		if got != nil {
			desc = got.Path.String() + " (" + got.Meta().Ident() + ")"
		}
		t.Fatalf("Find(\"top/ch\") = %s without error; \"ch\" is a choice, no data node of that name exists: expected a not-found error", desc)
	}
}

// Finding 8: Path.Equal / Path.EqualNoKey never compare the schema nodes of the segments
// (the test is nested under `a.Meta == nil`), so the paths of two different nodes are
// "equal" whenever length and keys agree.
func TestFinding8(t *testing.T) {
	root := c08ReflectRoot(t)
	a := c08MustFind(t, root, "top/l=a")
	b := c08MustFind(t, root, "top/two=1,2")
	c := c08MustFind(t, root, "top/other")
	d := c08MustFind(t, root, "top/l")
	if c.Path.Equal(d.Path) {
		t.Fatalf("Path.Equal says %q and %q are the same location", c.Path.String(), d.Path.String())
	}
	if a.Path.EqualNoKey(b.Path) {
		t.Fatalf("Path.EqualNoKey says %q and %q are the same location", a.Path.String(), b.Path.String())
	}
}
