package nodeutil_test

import (
	"encoding/json"
	"fmt"
	"sort"
	"strings"
	"testing"

	"github.com/freeconf/yang/meta"
	"github.com/freeconf/yang/node"
	"github.com/freeconf/yang/nodeutil"
	"github.com/freeconf/yang/parser"
	"github.com/freeconf/yang/val"
)

// ---- map backed target node ----

type hList struct {
	keys  []string
	items map[string]map[string]interface{}
}

func hHasAny(defs []meta.Definition, data map[string]interface{}) bool {
	for _, d := range defs {
		if ch, ok := d.(*meta.Choice); ok {
			for _, k := range ch.Cases() {
				if hHasAny(k.DataDefinitions(), data) {
					return true
				}
			}
		} else if _, found := data[d.Ident()]; found {
			return true
		}
	}
	return false
}

func hKeyStr(key []val.Value) string {
	s := []string{}
	for _, k := range key {
		s = append(s, k.String())
	}
	return strings.Join(s, ",")
}

func hListNode(l *hList) node.Node {
	return &nodeutil.Basic{
		OnNext: func(r node.ListRequest) (node.Node, []val.Value, error) {
			if r.Delete {
				ks := hKeyStr(r.Key)
				delete(l.items, ks)
				for i, k := range l.keys {
					if k == ks {
						l.keys = append(l.keys[:i:i], l.keys[i+1:]...)
						break
					}
				}
				return nil, nil, nil
			}
			if r.New {
				ks := hKeyStr(r.Key)
				item := map[string]interface{}{}
				l.items[ks] = item
				l.keys = append(l.keys, ks)
				return hMapNode(item), r.Key, nil
			}
			if r.Key != nil {
				item, found := l.items[hKeyStr(r.Key)]
				if !found {
					return nil, nil, nil
				}
				return hMapNode(item), r.Key, nil
			}
			if r.Row >= len(l.keys) {
				return nil, nil, nil
			}
			item := l.items[l.keys[r.Row]]
			vals := []interface{}{}
			for _, km := range r.Meta.KeyMeta() {
				vals = append(vals, item[km.Ident()])
			}
			key, err := node.NewValues(r.Meta.KeyMeta(), vals...)
			if err != nil {
				return nil, nil, err
			}
			return hMapNode(item), key, nil
		},
	}
}

func hMapNode(data map[string]interface{}) node.Node {
	return &nodeutil.Basic{
		OnChoose: func(sel *node.Selection, choice *meta.Choice) (*meta.ChoiceCase, error) {
			for _, k := range choice.Cases() {
				if hHasAny(k.DataDefinitions(), data) {
					return k, nil
				}
			}
			return nil, nil
		},
		OnChild: func(r node.ChildRequest) (node.Node, error) {
			id := r.Meta.Ident()
			if r.Delete {
				delete(data, id)
				return nil, nil
			}
			if r.New {
				if meta.IsList(r.Meta) {
					l := &hList{items: map[string]map[string]interface{}{}}
					data[id] = l
					return hListNode(l), nil
				}
				c := map[string]interface{}{}
				data[id] = c
				return hMapNode(c), nil
			}
			v, found := data[id]
			if !found {
				return nil, nil
			}
			if l, ok := v.(*hList); ok {
				return hListNode(l), nil
			}
			return hMapNode(v.(map[string]interface{})), nil
		},
		OnField: func(r node.FieldRequest, hnd *node.ValueHandle) error {
			id := r.Meta.Ident()
			if r.Write {
				if r.Clear || hnd.Val == nil {
					delete(data, id)
				} else {
					data[id] = hnd.Val.Value()
				}
				return nil
			}
			if v, found := data[id]; found {
				var err error
				hnd.Val, err = node.NewValue(r.Meta.Type(), v)
				return err
			}
			return nil
		},
	}
}

// hDump renders the raw storage deterministic
func hDump(data map[string]interface{}) string {
	keys := []string{}
	for k := range data {
		keys = append(keys, k)
	}
	sort.Strings(keys)
	parts := []string{}
	for _, k := range keys {
		switch x := data[k].(type) {
		case map[string]interface{}:
			parts = append(parts, fmt.Sprintf("%s:%s", k, hDump(x)))
		case *hList:
			items := []string{}
			for _, ik := range x.keys {
				items = append(items, hDump(x.items[ik]))
			}
			parts = append(parts, fmt.Sprintf("%s:[%s]", k, strings.Join(items, " ")))
		default:
			parts = append(parts, fmt.Sprintf("%s:%v", k, x))
		}
	}
	return "{" + strings.Join(parts, " ") + "}"
}

func hBrowser(t *testing.T, yang string) (*node.Browser, map[string]interface{}) {
	t.Helper()
	m, err := parser.LoadModuleFromString(nil, yang)
	if err != nil {
		t.Fatal(err)
	}
	data := map[string]interface{}{}
	return node.NewBrowser(m, hMapNode(data)), data
}

func hUpsert(t *testing.T, sel *node.Selection, js string) {
	t.Helper()
	n, err := nodeutil.ReadJSON(js)
	if err != nil {
		t.Fatal(err)
	}
	if err := sel.UpsertFrom(n); err != nil {
		t.Fatalf("upsert %s: %v", js, err)
	}
}

func hRead(t *testing.T, sel *node.Selection) string {
	t.Helper()
	s, err := nodeutil.WriteJSON(sel)
	if err != nil {
		t.Fatal(err)
	}
	var x interface{}
	if err := json.Unmarshal([]byte(s), &x); err != nil {
		t.Fatal(err)
	}
	return s
}

func hExpect(t *testing.T, data map[string]interface{}, want string) {
	t.Helper()
	if got := hDump(data); got != want {
		t.Errorf("\n got %s\nwant %s", got, want)
	}
}

// ---- exploration ----

func TestExplore1(t *testing.T) {
	b, data := hBrowser(t, `module x { namespace "x"; prefix "x"; revision 0;
		leaf out { type string; }
		choice o {
			case a {
				choice i {
					case a1 { leaf x { type string; } }
					case a2 { leaf y { type string; } }
				}
				leaf az { type string; }
				container xc { leaf q { type string; } }
				list yl { key k; leaf k { type string; } }
			}
			case b { leaf bz { type string; } leaf-list bl { type string; } }
			container sc { leaf s { type string; } }
			list sl { key k; leaf k { type string; } }
			leaf sf { type string; }
		}
		choice p {
			case pa { leaf pa1 { type string; } }
			case pb { leaf pb1 { type string; } }
		}
	}`)
	steps := []string{
		`{"out":"o","pa1":"p"}`,
		`{"x":"1","az":"z"}`,
		`{"y":"1"}`,
		`{"yl":[{"k":"k1"}]}`,
		`{"xc":{"q":"q"}}`,
		`{"bl":["a","b"]}`,
		`{"xc":{}}`,
		`{"sc":{"s":"s"}}`,
		`{"yl":[{"k":"k1"}]}`,
		`{"sl":[{"k":"k1"}]}`,
		`{"sf":"f","pb1":"p"}`,
		`{"yl":[]}`,
		`{"bz":"b"}`,
		`{"sl":[]}`,
		`{"az":"b"}`,
		`{"sc":{}}`,
	}
	for _, s := range steps {
		hUpsert(t, b.Root(), s)
		t.Logf("%-30s -> %s   read %s", s, hDump(data), hRead(t, b.Root()))
	}
}

func TestExplore2(t *testing.T) {
	b, data := hBrowser(t, `module x { namespace "x"; prefix "x"; revision 0;
		grouping g { leaf g1 { type string; } }
		grouping gch { choice gx { case ga { leaf ga1 { type string; } } case gb { uses g; } } }
		list l { key k; leaf k { type string; }
			choice o {
				case a { leaf a1 { type string; } container ac { leaf q { type string; } } list al { key k; leaf k { type string; } } }
				case b { leaf b1 { type string; } anydata ad; }
			}
		}
		container c {
			uses gch;
			choice d { default db; case da { leaf da1 { type string; } } case db { leaf db1 { type string; default "dd"; } } }
		}
		augment "/c/gx" { case gz { leaf gz1 { type string; } } }
		augment "/c/gx/ga" { leaf ga2 { type string; } }
	}`)
	steps := []string{
		`{"l":[{"k":"1","a1":"a","ac":{"q":"q"},"al":[{"k":"z"}]},{"k":"2","b1":"b"}]}`,
		`{"l":[{"k":"1","b1":"b"},{"k":"2","ac":{}}]}`,
		`{"l":[{"k":"1","ad":{"z":1}},{"k":"2","al":[{"k":"1"}]}]}`,
		`{"l":[{"k":"1","al":[{"k":"z"}]},{"k":"2","ad":{"z":1}}]}`,
		`{"c":{"ga1":"x","da1":"d"}}`,
		`{"c":{"g1":"x"}}`,
		`{"c":{"ga2":"x"}}`,
		`{"c":{"gz1":"x","db1":"q"}}`,
		`{"c":{"gz1":"x"}}`,
	}
	for _, s := range steps {
		hUpsert(t, b.Root(), s)
		t.Logf("%-30s\n -> %s\n   read %s", s, hDump(data), hRead(t, b.Root()))
	}
	// deep edits
	sel, err := b.Root().Find("l=1")
	if err != nil || sel == nil {
		t.Fatal(err, sel)
	}
	hUpsert(t, sel, `{"b1":"deep"}`)
	t.Logf("deep l=1 b1 -> %s", hDump(data))
	sel, _ = b.Root().Find("c")
	hUpsert(t, sel, `{"ga1":"deep"}`)
	t.Logf("deep c ga1 -> %s", hDump(data))
	n, _ := nodeutil.ReadJSON(`{"gz1":"ins"}`)
	err = sel.InsertFrom(n)
	t.Logf("insert gz1 -> %v %s", err, hDump(data))
	n, _ = nodeutil.ReadJSON(`{"g1":"upd"}`)
	err = sel.UpdateFrom(n)
	t.Logf("update g1 -> %v %s", err, hDump(data))
	t.Logf("read %s", hRead(t, b.Root()))
}

// container/list of a case of a choice nested in a case: switching away from that case fails
func TestHunt1(t *testing.T) {
	b, data := hBrowser(t, `module x { namespace "x"; prefix "x"; revision 0;
		leaf out { type string; }
		choice o {
			case a {
				choice i {
					case a1 { leaf x { type string; } container xc { leaf q { type string; } } }
					case a2 { leaf y { type string; } list yl { key k; leaf k { type string; } } }
				}
				leaf az { type string; }
			}
			case b { leaf bz { type string; } }
		}
	}`)
	hUpsert(t, b.Root(), `{"out":"o","x":"1","xc":{"q":"q"},"az":"z"}`)
	hExpect(t, data, `{az:z out:o x:1 xc:{q:q}}`)
	// inner switch a1 -> a2
	hUpsert(t, b.Root(), `{"y":"1","yl":[{"k":"k1"}]}`)
	hExpect(t, data, `{az:z out:o y:1 yl:[{k:k1}]}`)
	// outer switch a -> b
	hUpsert(t, b.Root(), `{"bz":"b"}`)
	hExpect(t, data, `{bz:b out:o}`)
}

// container added to a case by augment: switching away from that case fails
func TestHunt2(t *testing.T) {
	b, data := hBrowser(t, `module x { namespace "x"; prefix "x"; revision 0;
		container c {
			choice gx { case ga { leaf ga1 { type string; } } case gb { leaf g1 { type string; } } }
		}
		augment "/c/gx/ga" { container gac { leaf q { type string; } } }
	}`)
	hUpsert(t, b.Root(), `{"c":{"ga1":"x","gac":{"q":"q"}}}`)
	hExpect(t, data, `{c:{ga1:x gac:{q:q}}}`)
	hUpsert(t, b.Root(), `{"c":{"g1":"x"}}`)
	hExpect(t, data, `{c:{g1:x}}`)
}

// container brought into a case by uses: switching away from that case fails
func TestHunt3(t *testing.T) {
	b, data := hBrowser(t, `module x { namespace "x"; prefix "x"; revision 0;
		grouping g { leaf g1 { type string; } container gc { leaf q { type string; } } }
		container c {
			choice gx { case ga { leaf ga1 { type string; } } case gb { uses g; } }
		}
	}`)
	hUpsert(t, b.Root(), `{"c":{"g1":"x","gc":{"q":"q"}}}`)
	hExpect(t, data, `{c:{g1:x gc:{q:q}}}`)
	hUpsert(t, b.Root(), `{"c":{"ga1":"x"}}`)
	hExpect(t, data, `{c:{ga1:x}}`)
}

// choice defined in a grouping, a case holds a container
func TestHolds6(t *testing.T) {
	b, data := hBrowser(t, `module x { namespace "x"; prefix "x"; revision 0;
		grouping gch { choice gx { case ga { leaf ga1 { type string; } } case gb { leaf g1 { type string; } container gc { leaf q { type string; } } } } }
		container c {
			uses gch;
		}
	}`)
	hUpsert(t, b.Root(), `{"c":{"g1":"x","gc":{"q":"q"}}}`)
	hExpect(t, data, `{c:{g1:x gc:{q:q}}}`)
	hUpsert(t, b.Root(), `{"c":{"ga1":"x"}}`)
	hExpect(t, data, `{c:{ga1:x}}`)
}

// InsertFrom of a node of another case leaves both cases populated
func TestHunt4(t *testing.T) {
	b, data := hBrowser(t, `module x { namespace "x"; prefix "x"; revision 0;
		choice o { case a { leaf a1 { type string; } } case b { leaf b1 { type string; } container bc { leaf q { type string; } } } }
	}`)
	hUpsert(t, b.Root(), `{"a1":"a"}`)
	n, _ := nodeutil.ReadJSON(`{"b1":"b","bc":{"q":"q"}}`)
	if err := b.Root().InsertFrom(n); err != nil {
		// refusing would also keep the property
		hExpect(t, data, `{a1:a}`)
		return
	}
	hExpect(t, data, `{b1:b bc:{q:q}}`)
}

// UpdateFrom of a leaf of another case leaves both cases populated
func TestHunt5(t *testing.T) {
	b, data := hBrowser(t, `module x { namespace "x"; prefix "x"; revision 0;
		choice o { case a { leaf a1 { type string; } } case b { leaf b1 { type string; } } }
	}`)
	hUpsert(t, b.Root(), `{"a1":"a"}`)
	n, _ := nodeutil.ReadJSON(`{"b1":"b"}`)
	if err := b.Root().UpdateFrom(n); err != nil {
		hExpect(t, data, `{a1:a}`)
		return
	}
	hExpect(t, data, `{b1:b}`)
}
