package node_test

import (
	"math"
	"testing"

	"github.com/freeconf/yang/meta"
	"github.com/freeconf/yang/node"
	"github.com/freeconf/yang/parser"
	"github.com/freeconf/yang/val"
)

const huntYang = `module m { namespace "m"; prefix "m"; revision 0;
 identity base;
 identity a { base base; }
 leaf s { type string; }
 leaf e { type enumeration { enum zero; enum one; enum two; } }
 leaf en { type enumeration { enum "0"; enum "1"; enum "2"; } }
 leaf-list el { type enumeration { enum zero; enum one; enum two; } }
 leaf b { type bits { bit x { position 0; } bit y { position 1; } bit z { position 2; } } }
 leaf-list bl { type bits { bit x { position 0; } bit y { position 1; } bit z { position 2; } } }
 leaf i { type identityref { base base; } }
 leaf-list il { type identityref { base base; } }
 leaf u { type union { type int8; type string; } }
 leaf u2 { type union { type int32; type boolean; } }
 leaf u3 { type union { type uint8; type int8; } }
 leaf-list ul { type union { type int8; type string; } }
 leaf bin { type binary; }
 leaf-list binl { type binary; }
 leaf emp { type empty; }
 leaf d { type decimal64 { fraction-digits 2; } }
 leaf i8 { type int8; }
 leaf r { type leafref { path "../i8"; } }
 leaf bo { type boolean; }
 leaf bb { type bits { bit x { position 0; } bit big { position 64; } } }
}`

func huntType(t *testing.T, name string) *meta.Type {
	m, err := parser.LoadModuleFromString(nil, huntYang)
	if err != nil {
		t.Fatal(err)
	}
	return meta.Find(m, name).(meta.Leafable).Type()
}

type myInt int32
type myF float64


// 1. string from float64 is rounded to an integer
func TestHunt1(t *testing.T) {
	v, err := val.Conv(val.FmtString, float64(1.5))
	if err == nil && v.String() != "1.5" {
		t.Errorf("Conv(FmtString, 1.5) = %q, want \"1.5\" or an error", v.String())
	}
	v, err = val.Conv(val.FmtString, myF(0.1))
	if err == nil && v.String() != "0.1" {
		t.Errorf("Conv(FmtString, myF(0.1)) = %q, want \"0.1\" or an error", v.String())
	}
}

// 2. string list from []float64 / []interface{} rounds the fractions
func TestHunt2(t *testing.T) {
	v, err := val.Conv(val.FmtStringList, []float64{2.5})
	if err == nil && v.Value().([]string)[0] != "2.5" {
		t.Errorf("Conv(FmtStringList, []float64{2.5}) = %v, want [2.5] or an error", v.Value())
	}
	v, err = val.Conv(val.FmtStringList, []interface{}{1.5, "a"})
	if err == nil && v.Value().([]string)[0] != "1.5" {
		t.Errorf("Conv(FmtStringList, []interface{}{1.5, a}) = %v, want [1.5 a] or an error", v.Value())
	}
}

// 3. string from *string gives the pointer address as text
func TestHunt3(t *testing.T) {
	s := "hello"
	v, err := val.Conv(val.FmtString, &s)
	if err == nil && v.String() != "hello" {
		t.Errorf("Conv(FmtString, &\"hello\") = %q, want \"hello\" or an error", v.String())
	}
}

// 4. decimal64 from a numeric string silently rounds to the nearest float64
func TestHunt4(t *testing.T) {
	v, err := val.Conv(val.FmtDecimal64, "9007199254740993")
	if err == nil {
		// the same number given as int64 is refused as lossy
		if _, ierr := val.Conv(val.FmtDecimal64, int64(9007199254740993)); ierr == nil {
			t.Fatal("precondition: int64 form should be refused")
		}
		if got := v.Value().(float64); got != 9007199254740993 || uint64(got) != 9007199254740993 {
			t.Errorf("Conv(FmtDecimal64, \"9007199254740993\") = %.0f, want 9007199254740993 or an error", got)
		}
	}
}

// 5. decimal64 list from []float64 lets NaN and Inf through (scalar form refuses them)
func TestHunt5(t *testing.T) {
	if _, err := val.Conv(val.FmtDecimal64, math.NaN()); err == nil {
		t.Fatal("precondition: scalar NaN should be refused")
	}
	v, err := val.Conv(val.FmtDecimal64List, []float64{math.NaN(), math.Inf(1)})
	if err == nil {
		t.Errorf("Conv(FmtDecimal64List, []float64{NaN, +Inf}) = %v, want an error", v)
	}
}

// 6. reading a converted decimal64 back as text truncates to 6 fraction digits
func TestHunt6(t *testing.T) {
	v, err := val.Conv(val.FmtDecimal64, 1e-9)
	if err != nil {
		return
	}
	back, err := val.Conv(val.FmtDecimal64, v.String())
	if err != nil {
		t.Fatal(err)
	}
	if back.Value().(float64) != 1e-9 {
		t.Errorf("Conv(FmtDecimal64, 1e-9).String() = %q reads back as %v, want 1e-09", v.String(), back.Value())
	}
	v, _ = val.Conv(val.FmtDecimal64, 0.1234567)
	back, _ = val.Conv(val.FmtDecimal64, v.String())
	if back.Value().(float64) != 0.1234567 {
		t.Errorf("Conv(FmtDecimal64, 0.1234567).String() = %q reads back as %v", v.String(), back.Value())
	}
}

// 7. binary from a string that is not base64 is accepted; reading it back gives no bytes
func TestHunt7(t *testing.T) {
	v, err := val.Conv(val.FmtBinary, "not base64!!")
	if err == nil {
		b := v.Value().([]byte)
		if string(b) != "not base64!!" {
			t.Errorf("Conv(FmtBinary, \"not base64!!\").Value() = %v, want an error (or the bytes given)", b)
		}
	}
}

// 8. binary list conversion answers a value of another format (string-list)
func TestHunt8(t *testing.T) {
	v, err := val.Conv(val.FmtBinaryList, []string{"AQID"})
	if err == nil && v.Format() != val.FmtBinaryList {
		t.Errorf("Conv(FmtBinaryList, []string{AQID}).Format() = %v, want %v", v.Format(), val.FmtBinaryList)
	}
	// and with that, a number slips into a binary list, rounded on top
	v, err = val.Conv(val.FmtBinaryList, []interface{}{1.5})
	if err == nil {
		t.Errorf("Conv(FmtBinaryList, []interface{}{1.5}) = %v %v, want an error", v.Format(), v)
	}
}

// 9. boolean from the text "np" is false, while "no", "TRUE", "" are refused
func TestHunt9(t *testing.T) {
	if _, err := val.Conv(val.FmtBool, "no"); err == nil {
		t.Fatal("precondition: \"no\" is refused")
	}
	v, err := val.Conv(val.FmtBool, "np")
	if err == nil {
		t.Errorf("Conv(FmtBool, \"np\") = %v, want an error", v)
	}
	l, err := val.Conv(val.FmtBoolList, []string{"np"})
	if err == nil {
		t.Errorf("Conv(FmtBoolList, []string{np}) = %v, want an error", l)
	}
}

// 10. bits from a non-integral float truncates
func TestHunt10(t *testing.T) {
	v, err := node.NewValue(huntType(t, "b"), 1.5)
	if err == nil {
		t.Errorf("NewValue(bits, 1.5) = %v (positions %v), want an error", v, v.Value())
	}
	v, err = node.NewValue(huntType(t, "bl"), []interface{}{2.9})
	if err == nil {
		t.Errorf("NewValue(bits list, []interface{}{2.9}) = %v (positions %v), want an error", v, v.Value())
	}
}

// 11. enum from float 1.5 picks the enum labelled "2"
func TestHunt11(t *testing.T) {
	v, err := node.NewValue(huntType(t, "en"), 1.5)
	if err == nil {
		t.Errorf("NewValue(enum{0,1,2}, 1.5) = %#v, want an error", v.Value())
	}
}

// 12. identityref accepts any module prefix and drops it
func TestHunt12(t *testing.T) {
	v, err := node.NewValue(huntType(t, "i"), "bogus:a")
	if err == nil && v.String() != "bogus:a" {
		t.Errorf("NewValue(identityref, \"bogus:a\") = %q, want an error: no module or prefix bogus exists", v.String())
	}
	l, err := node.NewValue(huntType(t, "il"), []string{"zz:a"})
	if err == nil && l.String() != "zz:a" {
		t.Errorf("NewValue(identityref list, []string{zz:a}) = %q, want an error", l.String())
	}
}

// 13. union {int8; string} given 1.5 becomes the string "2"
func TestHunt13(t *testing.T) {
	v, err := node.NewValue(huntType(t, "u"), 1.5)
	if err == nil && v.String() != "1.5" {
		t.Errorf("NewValue(union{int8;string}, 1.5) = %v %q, want \"1.5\" or an error", v.Format(), v.String())
	}
	l, err := node.NewValue(huntType(t, "ul"), []interface{}{1.0, 1.5})
	if err == nil && l.String() != "[1 1.5]" {
		t.Errorf("NewValue(union list, []interface{}{1.0, 1.5}) = %v %q, want [1 1.5] or an error", l.Format(), l.String())
	}
}

// 14. empty from false / empty-list conversion answers format empty
func TestHunt14(t *testing.T) {
	v, err := val.Conv(val.FmtEmptyList, []string{})
	if err == nil && v.Format() != val.FmtEmptyList {
		t.Errorf("Conv(FmtEmptyList, []string{}).Format() = %v (%v), want %v or an error", v.Format(), v, val.FmtEmptyList)
	}
	v, err = val.Conv(val.FmtEmpty, false)
	if err == nil {
		t.Errorf("Conv(FmtEmpty, false) = %v, want an error: false is not \"present\"", v)
	}
}

// 15. a bit at position 64 or beyond is lost: 1<<64 wraps to 0
func TestHunt15(t *testing.T) {
	v, err := node.NewValue(huntType(t, "bb"), "big")
	if err == nil && v.Value().(uint64) == 0 {
		t.Errorf("NewValue(bits{x@0,big@64}, \"big\").Value() = %#x: the set bit is gone, want an error or a position that records it", v.Value())
	}
	none, _ := node.NewValue(huntType(t, "bb"), "")
	if err == nil && none != nil && v.Value() == none.Value() {
		t.Errorf("\"big\" and \"\" convert to the same positions %#x", v.Value())
	}
}

// 16. decimal64 from a tiny non-zero numeric string underflows silently to 0
func TestHunt16(t *testing.T) {
	v, err := val.Conv(val.FmtDecimal64, "1e-400")
	if err == nil && v.Value().(float64) == 0 {
		t.Errorf("Conv(FmtDecimal64, \"1e-400\") = %v, want an error (\"1e400\" is refused as out of range)", v.Value())
	}
}

// 17. string from a nil *int / string list from []*string{nil} gives the text "<nil>"
func TestHunt17(t *testing.T) {
	var np *int
	v, err := val.Conv(val.FmtString, np)
	if err == nil && v != nil {
		t.Errorf("Conv(FmtString, (*int)(nil)) = %q, want an error or no value", v.String())
	}
}
