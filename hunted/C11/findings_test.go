// Copy this file into the directory  parser/  of the module github.com/freeconf/yang
// (package name: parser) and run:  go test ./parser -run TestFinding -v
//
// Every test below FAILS on the current tree because of a defect against
// PROPERTY C11 (if-feature and deviations shape the schema exactly as written).
package parser

import (
	"fmt"
	"io"
	"strings"
	"testing"
	"time"

	"github.com/freeconf/yang/meta"
	"github.com/freeconf/yang/source"
)

// c11Load compiles a module from a string; panics and hangs are turned into errors.
func c11Load(y string, fs meta.FeatureSet, files map[string]string) (m *meta.Module, err error) {
	type result struct {
		m   *meta.Module
		err error
	}
	done := make(chan result, 1)
	go func() {
		var r result
		defer func() {
			if p := recover(); p != nil {
				r = result{nil, fmt.Errorf("PANIC: %v", p)}
			}
			done <- r
		}()
		var src source.Opener
		if files != nil {
			src = func(name string, ext string) (io.Reader, error) {
				if s, ok := files[name]; ok {
					return strings.NewReader(s), nil
				}
				return nil, fmt.Errorf("not found %s", name)
			}
		}
		r.m, r.err = LoadModuleFromStringWithOptions(src, y, Options{Features: fs})
	}()
	select {
	case r := <-done:
		return r.m, r.err
	case <-time.After(5 * time.Second):
		return nil, fmt.Errorf("HANG: no result after 5s")
	}
}

const c11Hdr = `module x { namespace "urn:x"; prefix x; revision 0; `

// Finding 1: a feature that is declared in a submodule is never enabled, so every
// definition guarded by it is dropped even with ALL features on (and with an
// allow-list naming it).
func TestFinding1(t *testing.T) {
	files := map[string]string{
		"sub": `submodule sub { belongs-to x { prefix x; } feature sf; leaf plain { type string; } leaf sl { if-feature sf; type string; } }`,
	}
	y := `module x { namespace "urn:x"; prefix x; include sub; revision 0; leaf l { if-feature sf; type string; } }`
	for name, fs := range map[string]meta.FeatureSet{
		"AllFeaturesOn":    meta.AllFeaturesOn(),
		"FeaturesOn([sf])": meta.FeaturesOn([]string{"sf"}),
	} {
		m, err := c11Load(y, fs, files)
		if err != nil {
			t.Fatalf("%s: unexpected error %v", name, err)
		}
		if meta.Find(m, "plain") == nil {
			t.Fatalf("%s: control leaf 'plain' from submodule is missing, test setup wrong", name)
		}
		if _, declared := m.Features()["sf"]; !declared {
			t.Fatalf("%s: feature sf not copied to main module", name)
		}
		if meta.Find(m, "l") == nil || meta.Find(m, "sl") == nil {
			t.Fatalf("%s: feature 'sf' (declared in submodule) is enabled, yet l present=%v, sl present=%v; both must be present",
				name, meta.Find(m, "l") != nil, meta.Find(m, "sl") != nil)
		}
	}
}

// Finding 2: a feature name written with a prefix (legal: identifier-ref-arg), even the
// module's own prefix, always evaluates to false.
func TestFinding2(t *testing.T) {
	y := c11Hdr + `feature a; leaf l { if-feature x:a; type string; } }`
	m, err := c11Load(y, meta.AllFeaturesOn(), nil)
	if err != nil {
		t.Fatalf("unexpected error %v", err)
	}
	if meta.Find(m, "l") == nil {
		t.Fatalf("if-feature x:a with all features on: leaf l was removed, expected it to be present")
	}
}

// Finding 3: RFC 7950 sep = 1*(WSP / line-break); only the space character is treated as
// a separator. With a tab the whole text becomes one unknown feature name (silently false),
// with a line break a legal expression is rejected as a syntax error.
func TestFinding3(t *testing.T) {
	y := c11Hdr + "feature a; feature b; leaf l { if-feature \"a\tor\tb\"; type string; } }"
	m, err := c11Load(y, meta.AllFeaturesOn(), nil)
	if err != nil {
		t.Fatalf("tab separated expression: unexpected error %v", err)
	}
	if meta.Find(m, "l") == nil {
		t.Errorf("if-feature \"a<TAB>or<TAB>b\" with all features on: leaf l removed, expected present")
	}
	y = c11Hdr + "feature a; feature b; leaf l { if-feature \"a or\n    b\"; type string; } }"
	m, err = c11Load(y, meta.AllFeaturesOn(), nil)
	if err != nil {
		t.Fatalf("if-feature \"a or<NEWLINE> b\" is a legal expression but gives error: %v", err)
	}
	if meta.Find(m, "l") == nil {
		t.Errorf("if-feature \"a or<NEWLINE> b\" with all features on: leaf l removed, expected present")
	}
}

// Finding 4: a malformed expression whose bad token is not an identifier ("!a", "a&&b",
// "a,b") is not reported, it silently evaluates to false.
func TestFinding4(t *testing.T) {
	for _, expr := range []string{"!a", "a&&b", "a,b", "a|b"} {
		y := c11Hdr + `feature a; feature b; leaf l { if-feature "` + expr + `"; type string; } }`
		m, err := c11Load(y, meta.AllFeaturesOn(), nil)
		if err == nil {
			t.Errorf("if-feature %q is malformed but compiled without error (leaf present=%v)", expr, meta.Find(m, "l") != nil)
		}
	}
	if t.Failed() {
		t.FailNow()
	}
}

// Finding 5: deviate replace { type ...; } is parsed and then silently ignored.
func TestFinding5(t *testing.T) {
	y := c11Hdr + `leaf l { type int32; } deviation /l { deviate replace { type string; } } }`
	m, err := c11Load(y, nil, nil)
	if err != nil {
		t.Fatalf("unexpected error %v", err)
	}
	l := meta.Find(m, "l").(*meta.Leaf)
	if l.Type().Ident() != "string" {
		t.Fatalf("deviate replace type string: leaf type is still %q", l.Type().Ident())
	}
}

// Finding 6: two deviate statements of the same kind in one deviation (legal, RFC 7950
// 7.20.3: 1*(deviate-add / deviate-replace / deviate-delete)): the second overwrites the
// first, whose change is lost without an error.
func TestFinding6(t *testing.T) {
	y := c11Hdr + `leaf l { type int32; } deviation /l { deviate add { units u; } deviate add { default 1; } } }`
	m, err := c11Load(y, nil, nil)
	if err != nil {
		t.Fatalf("unexpected error %v", err)
	}
	l := meta.Find(m, "l").(*meta.Leaf)
	if l.Units() != "u" || !l.HasDefault() {
		t.Fatalf("after 'deviate add {units u;} deviate add {default 1;}': units=%q default=%v, expected units=\"u\" default=1",
			l.Units(), l.DefaultValue())
	}
}

// Finding 7: deviate not-supported whose target is a case panics.
func TestFinding7(t *testing.T) {
	y := c11Hdr + `choice ch { case k { leaf l { type int32; } } case k2 { leaf l2 { type string; } } }
	    deviation /ch/k { deviate not-supported; } }`
	m, err := c11Load(y, nil, nil)
	if err != nil {
		t.Fatalf("deviation /ch/k not-supported: %v", err)
	}
	ch := meta.Find(m, "ch").(*meta.Choice)
	if _, found := ch.Cases()["k"]; found {
		t.Fatalf("case k still present")
	}
	if _, found := ch.Cases()["k2"]; !found {
		t.Fatalf("case k2 was removed too")
	}
}

// Finding 8: deviate delete { default v; } on a leaf-list with several defaults must
// delete exactly the named value; instead it is an error unless all values are listed.
func TestFinding8(t *testing.T) {
	y := c11Hdr + `leaf-list l { type int32; default 4; default 5; } deviation /l { deviate delete { default 4; } } }`
	m, err := c11Load(y, nil, nil)
	if err != nil {
		t.Fatalf("deviate delete { default 4; } on leaf-list with defaults 4,5: %v", err)
	}
	l := meta.Find(m, "l").(*meta.LeafList)
	if got := fmt.Sprint(l.Default()); got != "[5]" {
		t.Fatalf("defaults after delete = %s, expected [5]", got)
	}
}
