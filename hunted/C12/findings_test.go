// Copy this file into the package directory  node/  of github.com/freeconf/yang
// (package name: node_test) and run:  go test ./node -run TestFinding
//
// Property C12 - every node told an edit begins is told it ended, and node
// errors surface.
package node_test

import (
	"context"
	"errors"
	"fmt"
	"strings"
	"testing"
	"time"

	"github.com/freeconf/yang/meta"
	"github.com/freeconf/yang/node"
	"github.com/freeconf/yang/nodeutil"
	"github.com/freeconf/yang/parser"
	"github.com/freeconf/yang/val"
)

const c12Yang = `module m {
  namespace "m"; prefix m; revision 2020-01-01;
  container c {
    leaf y { type string; }
    container d { leaf z { type string; } }
    choice ch {
      case a { leaf a1 { type string; } }
      case b { leaf b1 { type string; } }
    }
  }
  leaf x { type string; }
}`

type c12M = map[string]interface{}

type c12Ev struct {
	idx    int
	kind   string
	nd     *c12Node
	detail string
	write  bool
	req    node.NodeRequest
	err    error
}

func (e c12Ev) String() string {
	s := fmt.Sprintf("#%d %s %s %s", e.idx, e.kind, e.nd.id, e.detail)
	if e.write {
		s += " (write)"
	}
	if e.err != nil {
		s += " -> ERROR"
	}
	return s
}

// c12Rec records every node callback and injects errors
type c12Rec struct {
	n      int
	events []c12Ev
	// failOn: "<kind> <node id>" -> error returned by that callback
	failOn map[string]error
}

func (r *c12Rec) hit(kind string, nd *c12Node, detail string, write bool, req node.NodeRequest) error {
	r.n++
	e := c12Ev{idx: r.n, kind: kind, nd: nd, detail: detail, write: write, req: req}
	if err, found := r.failOn[kind+" "+nd.id]; found {
		e.err = err
	}
	r.events = append(r.events, e)
	return e.err
}

func (r *c12Rec) dump() string {
	var sb strings.Builder
	for _, e := range r.events {
		sb.WriteString("\n    " + e.String())
	}
	return sb.String()
}

// c12Node is a plain in-memory data node on nested maps
type c12Node struct {
	r         *c12Rec
	id        string
	obj       c12M
	refuseNew bool // Child(New) answers nil, nil
}

func (n *c12Node) Child(r node.ChildRequest) (node.Node, error) {
	id := r.Meta.Ident()
	if err := n.r.hit("Child", n, fmt.Sprintf("%s new=%v delete=%v", id, r.New, r.Delete), r.New || r.Delete, node.NodeRequest{}); err != nil {
		return nil, err
	}
	if r.Delete {
		delete(n.obj, id)
		return nil, nil
	}
	if r.New {
		if n.refuseNew {
			return nil, nil
		}
		o := c12M{}
		n.obj[id] = o
		return &c12Node{r: n.r, id: n.id + "/" + id, obj: o}, nil
	}
	if v, ok := n.obj[id]; ok {
		return &c12Node{r: n.r, id: n.id + "/" + id, obj: v.(c12M)}, nil
	}
	return nil, nil
}

func (n *c12Node) Next(r node.ListRequest) (node.Node, []val.Value, error) {
	return nil, nil, nil
}

func (n *c12Node) Field(r node.FieldRequest, hnd *node.ValueHandle) error {
	id := r.Meta.Ident()
	if err := n.r.hit("Field", n, id, r.Write, node.NodeRequest{}); err != nil {
		return err
	}
	if r.Write {
		if r.Clear || hnd.Val == nil {
			delete(n.obj, id)
		} else {
			n.obj[id] = hnd.Val.String()
		}
		return nil
	}
	if v, ok := n.obj[id]; ok {
		hnd.Val = val.String(v.(string))
	}
	return nil
}

func (n *c12Node) Choose(sel *node.Selection, choice *meta.Choice) (*meta.ChoiceCase, error) {
	if err := n.r.hit("Choose", n, choice.Ident(), false, node.NodeRequest{}); err != nil {
		return nil, err
	}
	for _, cid := range choice.CaseIdents() {
		c := choice.Cases()[cid]
		for _, d := range c.DataDefinitions() {
			if _, ok := n.obj[d.Ident()]; ok {
				return c, nil
			}
		}
	}
	return nil, nil
}

func (n *c12Node) BeginEdit(r node.NodeRequest) error {
	return n.r.hit("BeginEdit", n, fmt.Sprintf("editRoot=%v delete=%v sel=%s", r.EditRoot, r.Delete, r.Selection.Path), false, r)
}

func (n *c12Node) EndEdit(r node.NodeRequest) error {
	return n.r.hit("EndEdit", n, fmt.Sprintf("editRoot=%v delete=%v sel=%s", r.EditRoot, r.Delete, r.Selection.Path), false, r)
}

func (n *c12Node) Action(r node.ActionRequest) (node.Node, error)             { return nil, nil }
func (n *c12Node) Notify(r node.NotifyRequest) (node.NotifyCloser, error)     { return nil, nil }
func (n *c12Node) Peek(sel *node.Selection, consumer interface{}) interface{} { return nil }
func (n *c12Node) Context(sel *node.Selection) context.Context                { return sel.Context }
func (n *c12Node) Release(sel *node.Selection)                                {}

func c12Module(t *testing.T) *meta.Module {
	m, err := parser.LoadModuleFromString(nil, c12Yang)
	if err != nil {
		t.Fatal(err)
	}
	return m
}

var errC12 = errors.New("INJECTED-C12")

// c12Call runs f guarding against panics and hangs
func c12Call(t *testing.T, f func() error) (err error, panicked interface{}) {
	type res struct {
		err error
		p   interface{}
	}
	done := make(chan res, 1)
	go func() {
		var r res
		defer func() {
			if p := recover(); p != nil {
				r.p = p
			}
			done <- r
		}()
		r.err = f()
	}()
	select {
	case r := <-done:
		return r.err, r.p
	case <-time.After(5 * time.Second):
		t.Fatalf("call did not return within 5 seconds")
	}
	return nil, nil
}

// c12Unbalanced lists the nodes that were successfully told BeginEdit without
// being told EndEdit the same number of times
func c12Unbalanced(r *c12Rec) []string {
	open := map[string]int{}
	for _, e := range r.events {
		if e.kind == "BeginEdit" && e.err == nil {
			open[e.nd.id]++
		}
		if e.kind == "EndEdit" {
			open[e.nd.id]--
		}
	}
	var out []string
	for id, c := range open {
		if c != 0 {
			out = append(out, fmt.Sprintf("%s (begin-end=%d)", id, c))
		}
	}
	return out
}

// Finding 1: a failing Choose of the node that is read is only noticed after the
// definition that had already been looked up (here container d) is copied, so
// writes are issued after the failing call. With insert the late error is even
// replaced by the conflict error of that copy.
func TestFinding1(t *testing.T) {
	m := c12Module(t)
	r := &c12Rec{failOn: map[string]error{"Choose src:/c": errC12}}
	dst := &c12Node{r: r, id: "dst:", obj: c12M{}}
	src := &c12Node{r: r, id: "src:", obj: c12M{"c": c12M{"y": "1", "d": c12M{"z": "2"}, "a1": "3"}}}
	err, p := c12Call(t, func() error {
		return node.NewBrowser(m, dst).Root().UpsertFrom(src)
	})
	if p != nil {
		t.Fatalf("panic: %v", p)
	}
	if err == nil || !errors.Is(err, errC12) {
		t.Fatalf("error of Choose not returned: %v", err)
	}
	failed := false
	for _, e := range r.events {
		if e.err != nil {
			failed = true
			continue
		}
		if failed && e.write {
			t.Fatalf("write issued after the failing Choose call: %s\nall callbacks:%s", e, r.dump())
		}
	}

	// same defect, insert: the Choose error is lost behind the conflict error
	r2 := &c12Rec{failOn: map[string]error{"Choose src:c": errC12}}
	dst2 := &c12Node{r: r2, id: "dst:", obj: c12M{"c": c12M{"d": c12M{}}}}
	sel, ferr := node.NewBrowser(m, dst2).Root().Find("c")
	if ferr != nil || sel == nil {
		t.Fatal(ferr)
	}
	src2 := &c12Node{r: r2, id: "src:c", obj: c12M{"y": "1", "d": c12M{"z": "2"}, "a1": "3"}}
	err, p = c12Call(t, func() error { return sel.InsertFrom(src2) })
	if p != nil {
		t.Fatalf("panic: %v", p)
	}
	if !errors.Is(err, errC12) {
		t.Fatalf("InsertFrom: returned error does not wrap the error of Choose: %v", err)
	}
}

// Finding 2: the error of Choose on the node that is written is swallowed by
// an upsert: the call returns nil and keeps on writing.
func TestFinding2(t *testing.T) {
	m := c12Module(t)
	r := &c12Rec{failOn: map[string]error{"Choose dst:/c": errC12}}
	dst := &c12Node{r: r, id: "dst:", obj: c12M{"c": c12M{"a1": "old"}}}
	src := &c12Node{r: r, id: "src:", obj: c12M{"c": c12M{"b1": "new"}}}
	err, p := c12Call(t, func() error {
		return node.NewBrowser(m, dst).Root().UpsertFrom(src)
	})
	if p != nil {
		t.Fatalf("panic: %v", p)
	}
	hit := false
	for _, e := range r.events {
		if e.err != nil {
			hit = true
		}
	}
	if !hit {
		t.Fatalf("test is void, Choose was not called on the destination:%s", r.dump())
	}
	if err == nil || !errors.Is(err, errC12) {
		t.Fatalf("Choose of the destination node failed but UpsertFrom returned %v; data is now %v\nall callbacks:%s", err, dst.obj, r.dump())
	}
}

// Finding 3: Delete (and so ReplaceFrom) of the root selection tells the root
// node the edit begins and then dereferences the nil parent.
func TestFinding3(t *testing.T) {
	m := c12Module(t)
	r := &c12Rec{}
	dst := &c12Node{r: r, id: "dst:", obj: c12M{"x": "1"}}
	err, p := c12Call(t, func() error {
		return node.NewBrowser(m, dst).Root().Delete()
	})
	if p != nil {
		t.Fatalf("Delete of the root selection panics instead of returning an error: %v\nall callbacks:%s", p, r.dump())
	}
	_ = err
}

// Finding 4: Delete of a selection found at a leaf tells two nodes the edit
// begins and then panics on an unchecked type assertion.
func TestFinding4(t *testing.T) {
	m := c12Module(t)
	r := &c12Rec{}
	dst := &c12Node{r: r, id: "dst:", obj: c12M{"c": c12M{"y": "1"}}}
	sel, ferr := node.NewBrowser(m, dst).Root().Find("c/y")
	if ferr != nil || sel == nil {
		t.Fatalf("find: %v", ferr)
	}
	err, p := c12Call(t, func() error { return sel.Delete() })
	if p != nil {
		t.Fatalf("Delete of a leaf selection panics instead of returning an error: %v\nall callbacks:%s", p, r.dump())
	}
	_ = err
}

// Finding 5: insert into a node that answers nil to Child(New) panics in a
// deferred Release of the nil selection (upsert reports an error there).
func TestFinding5(t *testing.T) {
	m := c12Module(t)
	r := &c12Rec{}
	dst := &c12Node{r: r, id: "dst:", obj: c12M{}, refuseNew: true}
	src := &c12Node{r: r, id: "src:", obj: c12M{"c": c12M{"y": "1"}}}
	err, p := c12Call(t, func() error {
		return node.NewBrowser(m, dst).Root().InsertFrom(src)
	})
	if p != nil {
		t.Fatalf("InsertFrom panics instead of returning an error: %v\nall callbacks:%s", p, r.dump())
	}
	if err == nil {
		t.Fatalf("expected an error, container c could not be created")
	}
}

// Finding 6: when BeginEdit of an ancestor fails, the nodes already told are
// told EndEdit, but the error such an EndEdit returns is dropped.
func TestFinding6(t *testing.T) {
	m := c12Module(t)
	errEnd := errors.New("END-FAILED")
	r := &c12Rec{failOn: map[string]error{"BeginEdit dst:": errC12, "EndEdit dst:/c": errEnd}}
	dst := &c12Node{r: r, id: "dst:", obj: c12M{"c": c12M{}}}
	sel, ferr := node.NewBrowser(m, dst).Root().Find("c")
	if ferr != nil || sel == nil {
		t.Fatalf("find: %v", ferr)
	}
	src := &c12Node{r: r, id: "src:c", obj: c12M{"y": "1"}}
	err, p := c12Call(t, func() error { return sel.UpsertFrom(src) })
	if p != nil {
		t.Fatalf("panic: %v", p)
	}
	if !errors.Is(err, errC12) {
		t.Fatalf("error of BeginEdit not returned: %v", err)
	}
	endCalled := false
	for _, e := range r.events {
		if e.kind == "EndEdit" && e.nd.id == "dst:/c" {
			endCalled = true
		}
	}
	if !endCalled {
		t.Fatalf("test is void: EndEdit not called on dst:/c:%s", r.dump())
	}
	if !errors.Is(err, errEnd) {
		t.Fatalf("EndEdit of dst:/c returned an error that the API call does not wrap: %v\nall callbacks:%s", err, r.dump())
	}
}

// Finding 7: nodeutil.Tee: when BeginEdit of B fails, A has been told the edit
// begins and is never told it ended (same for EndEdit: when A fails B is never told).
func TestFinding7(t *testing.T) {
	m := c12Module(t)
	r := &c12Rec{failOn: map[string]error{"BeginEdit B:": errC12}}
	a := &c12Node{r: r, id: "A:", obj: c12M{}}
	b := &c12Node{r: r, id: "B:", obj: c12M{}}
	src := &c12Node{r: r, id: "src:", obj: c12M{"x": "1"}}
	err, p := c12Call(t, func() error {
		return node.NewBrowser(m, nodeutil.Tee{A: a, B: b}).Root().UpsertFrom(src)
	})
	if p != nil {
		t.Fatalf("panic: %v", p)
	}
	if !errors.Is(err, errC12) {
		t.Fatalf("error of BeginEdit not returned: %v", err)
	}
	if u := c12Unbalanced(r); len(u) > 0 {
		t.Fatalf("told the edit begins but never that it ended: %v\nall callbacks:%s", u, r.dump())
	}

	// EndEdit flavour
	r2 := &c12Rec{failOn: map[string]error{"EndEdit A:": errC12}}
	a2 := &c12Node{r: r2, id: "A:", obj: c12M{}}
	b2 := &c12Node{r: r2, id: "B:", obj: c12M{}}
	src2 := &c12Node{r: r2, id: "src:", obj: c12M{"x": "1"}}
	err, p = c12Call(t, func() error {
		return node.NewBrowser(m, nodeutil.Tee{A: a2, B: b2}).Root().UpsertFrom(src2)
	})
	if p != nil {
		t.Fatalf("panic: %v", p)
	}
	if u := c12Unbalanced(r2); len(u) > 0 {
		t.Fatalf("told the edit begins but never that it ended: %v (err=%v)\nall callbacks:%s", u, err, r2.dump())
	}
}

// Finding 8: triggers are told the edit of selection c (edit root) begins, but the
// end they are told is that of another request: selection = outermost
// ancestor, EditRoot=false. And when BeginEdit of a node fails, the triggers
// that were told the edit begins are never told it ended.
func TestFinding8(t *testing.T) {
	m := c12Module(t)
	r := &c12Rec{}
	dst := &c12Node{r: r, id: "dst:", obj: c12M{"c": c12M{}}}
	b := node.NewBrowser(m, dst)
	var begins, ends []string
	b.Triggers.Install(&node.Trigger{
		OnBegin: func(_ *node.Trigger, r node.NodeRequest) error {
			begins = append(begins, fmt.Sprintf("sel=%s editRoot=%v", r.Selection.Path, r.EditRoot))
			return nil
		},
		OnEnd: func(_ *node.Trigger, r node.NodeRequest) error {
			ends = append(ends, fmt.Sprintf("sel=%s editRoot=%v", r.Selection.Path, r.EditRoot))
			return nil
		},
	})
	sel, ferr := b.Root().Find("c")
	if ferr != nil || sel == nil {
		t.Fatalf("find: %v", ferr)
	}
	src := &c12Node{r: r, id: "src:c", obj: c12M{"y": "1"}}
	err, p := c12Call(t, func() error { return sel.UpsertFrom(src) })
	if p != nil || err != nil {
		t.Fatalf("unexpected: err=%v panic=%v", err, p)
	}
	if len(begins) != 1 || len(ends) != 1 {
		t.Fatalf("expected one begin and one end, got %v / %v", begins, ends)
	}
	if begins[0] != ends[0] {
		t.Fatalf("trigger was told the edit {%s} begins, but the end it was told is {%s}", begins[0], ends[0])
	}
}
