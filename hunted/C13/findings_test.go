// Findings for PROPERTY C13 (no request content can crash the library once the schema is valid).
//
// Copy this file into the package directory  nodeutil/  of github.com/freeconf/yang
// (package name: nodeutil) and run:  go test ./nodeutil -run 'TestFinding' -v
package nodeutil

import (
	"fmt"
	"strings"
	"testing"
	"time"

	"github.com/freeconf/yang/meta"
	"github.com/freeconf/yang/node"
	"github.com/freeconf/yang/parser"
)

const c13Yang = `
module m {
	namespace "urn:m";
	prefix "m";
	revision 0;
	typedef en { type enumeration { enum a; enum b; } }
	container c {
		leaf x { type int32; }
		leaf s { type string; }
		leaf-list el { type en; }
		leaf-list ul { type union { type int32; type string; } }
		container cc { leaf y { type string; } }
	}
	list l {
		key "k";
		leaf k { type string; }
		leaf v { type int32; }
		leaf bits { type bits { bit one; bit two; } }
		leaf emp { type empty; }
		leaf-list ll { type int32; }
		container lc { leaf w { type string; } }
		choice lch { leaf la { type string; } leaf lb { type string; } }
	}
	list l2 {
		key "a b";
		leaf a { type string; }
		leaf b { type int32; }
		leaf v { type string; }
	}
}
`

func c13Module(t *testing.T) *meta.Module {
	m, err := parser.LoadModuleFromString(nil, c13Yang)
	if err != nil {
		t.Fatalf("schema must be valid: %s", err)
	}
	return m
}

func c13Data() map[string]interface{} {
	return map[string]interface{}{
		"c": map[string]interface{}{
			"x": 5, "s": "str",
			"cc": map[string]interface{}{"y": "why"},
		},
		"l": []map[string]interface{}{
			{"k": "one", "v": 1, "bits": "one", "emp": true, "ll": []int{1, 2}, "lc": map[string]interface{}{"w": "W"}, "la": "A"},
			{"k": "two", "v": 2},
		},
		"l2": []map[string]interface{}{
			{"a": "x", "b": 1, "v": "V"},
		},
	}
}

// c13Try runs f guarding against panics and hangs.
// outcome is "ok", "error", "panic" or "hang"; detail carries the message.
func c13Try(f func() error) (outcome string, detail string) {
	type res struct{ outcome, detail string }
	done := make(chan res, 1)
	go func() {
		defer func() {
			if r := recover(); r != nil {
				done <- res{"panic", fmt.Sprint(r)}
			}
		}()
		if err := f(); err != nil {
			done <- res{"error", err.Error()}
			return
		}
		done <- res{"ok", ""}
	}()
	select {
	case r := <-done:
		return r.outcome, r.detail
	case <-time.After(5 * time.Second):
		return "hang", "no answer within 5s"
	}
}

func c13Readable(t *testing.T, b *node.Browser) {
	t.Helper()
	outcome, detail := c13Try(func() error {
		s, err := WriteJSON(b.Root())
		if err == nil && !strings.Contains(s, `"why"`) {
			return fmt.Errorf("previous data is gone: %s", s)
		}
		return err
	})
	if outcome != "ok" {
		t.Fatalf("data stored before the request is no longer readable: %s %s", outcome, detail)
	}
}

// 1. a JSON list entry without its key must be reported as an error
func TestFinding1(t *testing.T) {
	m := c13Module(t)
	for _, doc := range []string{`{"l":[{"v":5}]}`, `{"l":[{}]}`, `{"l":[{"k":null,"v":3}]}`, `{"l2":[{"b":1}]}`} {
		b := node.NewBrowser(m, ReflectChild(c13Data()))
		outcome, detail := c13Try(func() error {
			n, err := ReadJSON(doc)
			if err != nil {
				return err
			}
			return b.Root().UpsertFrom(n)
		})
		if outcome != "error" {
			t.Fatalf("UpsertFrom(%s): list entry without its key must be an error return, got %s: %s", doc, outcome, detail)
		}
		c13Readable(t, b)
	}
}

// 2. Find with fewer key values than the list has keys
func TestFinding2(t *testing.T) {
	m := c13Module(t)
	// data node of the library
	b := node.NewBrowser(m, ReflectChild(c13Data()))
	outcome, detail := c13Try(func() error {
		_, err := b.Root().Find("l2=x")
		return err
	})
	if outcome == "panic" || outcome == "hang" {
		t.Fatalf(`Find("l2=x") on list with key "a b" (reflect node): %s: %s`, outcome, detail)
	}
	// JSON document as the data
	outcome, detail = c13Try(func() error {
		n, err := ReadJSON(`{"l2":[{"a":"x","b":1,"v":"V"}]}`)
		if err != nil {
			return err
		}
		_, err = node.NewBrowser(m, n).Root().Find("l2=x")
		return err
	})
	if outcome == "panic" || outcome == "hang" {
		t.Fatalf(`Find("l2=x") on list with key "a b" (JSON reader node): %s: %s`, outcome, detail)
	}
}

// 3. null inside the array of an enumeration leaf-list
func TestFinding3(t *testing.T) {
	m := c13Module(t)
	b := node.NewBrowser(m, ReflectChild(c13Data()))
	doc := `{"c":{"el":[null]}}`
	outcome, detail := c13Try(func() error {
		n, err := ReadJSON(doc)
		if err != nil {
			return err
		}
		return b.Root().UpsertFrom(n)
	})
	if outcome == "panic" || outcome == "hang" {
		t.Fatalf("UpsertFrom(%s): %s: %s", doc, outcome, detail)
	}
	c13Readable(t, b)
}

// 4. a where expression whose last step carries no comparison
func TestFinding4(t *testing.T) {
	m := c13Module(t)
	for _, p := range []string{"l?where=v", "l?where=lc", "l?where=lc/w", "l?where=lch"} {
		b := node.NewBrowser(m, ReflectChild(c13Data()))
		outcome, detail := c13Try(func() error {
			sel, err := b.Root().Find(p)
			if err != nil {
				return err
			}
			_, err = WriteJSON(sel)
			return err
		})
		if outcome == "panic" || outcome == "hang" {
			t.Fatalf("GET %s: %s: %s", p, outcome, detail)
		}
	}
}

// 5. a where comparison on a leaf whose value cannot be ordered / compared
func TestFinding5(t *testing.T) {
	m := c13Module(t)
	for _, p := range []string{"l?where=bits%3D'one'", "l?where=emp%3D'true'", "l?where=ll<1", "l?where=emp>1"} {
		b := node.NewBrowser(m, ReflectChild(c13Data()))
		outcome, detail := c13Try(func() error {
			sel, err := b.Root().Find(p)
			if err != nil {
				return err
			}
			_, err = WriteJSON(sel)
			return err
		})
		if outcome == "panic" || outcome == "hang" {
			t.Fatalf("GET %s: %s: %s", p, outcome, detail)
		}
	}
}

// 6. an xpath with more than 256 steps
func TestFinding6(t *testing.T) {
	m := c13Module(t)
	for _, xp := range []string{strings.Repeat("lc/", 257) + "w%3D'W'", strings.Repeat("v%3D1%20", 257)} {
		for _, param := range []string{"where", "filter"} {
			b := node.NewBrowser(m, ReflectChild(c13Data()))
			outcome, detail := c13Try(func() error {
				_, err := b.Root().Find("l?" + param + "=" + xp)
				return err
			})
			if outcome == "panic" || outcome == "hang" {
				t.Fatalf("Find(l?%s=<257 steps %q...>): %s: %s", param, xp[:12], outcome, detail)
			}
		}
	}
}

// 7. SetValue with nil, or with an empty slice on a union leaf-list
func TestFinding7(t *testing.T) {
	m := c13Module(t)
	cases := []struct {
		path  string
		value interface{}
	}{
		{"c/x", nil},
		{"c/ul", []string{}},
		{"c/ul", []interface{}{}},
	}
	for _, c := range cases {
		b := node.NewBrowser(m, ReflectChild(c13Data()))
		outcome, detail := c13Try(func() error {
			sel, err := b.Root().Find(c.path)
			if err != nil {
				return err
			}
			return sel.SetValue(c.value)
		})
		if outcome == "panic" || outcome == "hang" {
			t.Fatalf("Find(%q).SetValue(%#v): %s: %s", c.path, c.value, outcome, detail)
		}
		c13Readable(t, b)
	}
}

// 8. XML: a scalar where a container is declared, child elements where a leaf is declared
func TestFinding8(t *testing.T) {
	m := c13Module(t)
	for _, doc := range []string{`<m><c>5</c></m>`, `<m><c><cc>text</cc></c></m>`} {
		b := node.NewBrowser(m, ReflectChild(c13Data()))
		outcome, detail := c13Try(func() error {
			n, err := ReadXMLDoc(strings.NewReader(doc))
			if err != nil {
				return err
			}
			return b.Root().UpsertFrom(n)
		})
		if outcome != "error" {
			t.Fatalf("UpsertFrom(%s): a scalar where a container is declared must be reported as an error, got %s %s", doc, outcome, detail)
		}
		c13Readable(t, b)
	}
}
