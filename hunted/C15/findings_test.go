// Copy this file into the package directory  nodeutil/  of github.com/freeconf/yang
// (package name: nodeutil) and run
//
//	go test ./nodeutil/ -run 'TestFinding' -v
//
// Every test fails on the current tree because of a defect against property C15
// (the JSON writer always emits well-formed, correctly named and typed JSON).
package nodeutil

import (
	"bytes"
	"encoding/json"
	"fmt"
	"io"
	"math"
	"os"
	"strings"
	"testing"
	"time"

	"github.com/freeconf/yang/meta"
	"github.com/freeconf/yang/node"
	"github.com/freeconf/yang/parser"
	"github.com/freeconf/yang/source"
	"github.com/freeconf/yang/val"
)

// ---------- helpers ----------

func c15Src(mods map[string]string) source.Opener {
	return func(name string, ext string) (io.Reader, error) {
		if s, ok := mods[name]; ok {
			return strings.NewReader(s), nil
		}
		return nil, os.ErrNotExist
	}
}

func c15Load(t *testing.T, mods map[string]string, main string) *meta.Module {
	t.Helper()
	m, err := parser.LoadModule(c15Src(mods), main)
	if err != nil {
		t.Fatalf("schema does not load: %v", err)
	}
	return m
}

// c15Write runs the writer guarded against panics and hangs
func c15Write(t *testing.T, wtr JSONWtr, sel *node.Selection) (string, error) {
	t.Helper()
	type result struct {
		out      string
		err      error
		panicked interface{}
	}
	done := make(chan result, 1)
	go func() {
		var r result
		defer func() {
			if p := recover(); p != nil {
				r.panicked = p
			}
			done <- r
		}()
		var buf bytes.Buffer
		wtr.Out = &buf
		r.err = sel.InsertInto(wtr.Node())
		r.out = buf.String()
	}()
	select {
	case r := <-done:
		if r.panicked != nil {
			t.Fatalf("writer panicked: %v", r.panicked)
		}
		return r.out, r.err
	case <-time.After(5 * time.Second):
		t.Fatalf("writer hangs")
	}
	return "", nil
}

func c15Decode(t *testing.T, out string) map[string]interface{} {
	t.Helper()
	dec := json.NewDecoder(strings.NewReader(out))
	dec.UseNumber()
	var x map[string]interface{}
	if err := dec.Decode(&x); err != nil {
		t.Fatalf("output is not well-formed JSON: %v\noutput: %s", err, out)
	}
	return x
}

func c15Keys(m map[string]interface{}) []string {
	var keys []string
	for k := range m {
		keys = append(keys, k)
	}
	return keys
}

// ---------- findings ----------

// 1. Nodes defined in a submodule are qualified with the name of the SUBMODULE.
// RFC 7951 Sec 4: the qualifier is the name of the module; a submodule has no
// namespace of its own, its nodes belong to the module it belongs to.
func TestFinding1(t *testing.T) {
	m := c15Load(t, map[string]string{
		"sub": `submodule sub { belongs-to main { prefix m; }
		  container sc { leaf a { type string; } }
		  leaf insub { type string; }
		}`,
		"main": `module main { namespace "m"; prefix m; include sub;
		  leaf inmain { type string; }
		  augment "/sc" { leaf b { type string; } }
		}`,
	}, "main")
	d := map[string]interface{}{
		"inmain": "x",
		"insub":  "y",
		"sc":     map[string]interface{}{"a": "A", "b": "B"},
	}
	b := node.NewBrowser(m, ReflectChild(d))
	out, err := c15Write(t, JSONWtr{QualifyNamespace: true}, b.Root())
	if err != nil {
		t.Fatal(err)
	}
	x := c15Decode(t, out)
	for _, want := range []string{"main:inmain", "main:insub", "main:sc"} {
		if _, found := x[want]; !found {
			t.Fatalf("member %q missing, the top-level members are %v\noutput: %s\n"+
				"(nodes of submodule 'sub' are qualified with the submodule name instead of 'main')",
				want, c15Keys(x), out)
		}
	}
	sc := x["main:sc"].(map[string]interface{})
	if _, found := sc["b"]; !found {
		t.Fatalf("leaf b (same module as its parent) must be plain \"b\", got members %v", c15Keys(sc))
	}
}

// 2. A data tree (node.Selection) held by an anydata leaf is written by a nested writer
// that drops the configuration: EnumAsIds and QualifyNamespace are ignored inside it.
func TestFinding2(t *testing.T) {
	m, err := parser.LoadModuleFromString(nil, `module m { namespace "m"; prefix m;
	  container c {
	    leaf en { type enumeration { enum a; enum b; } }
	    anydata any;
	  }
	}`)
	if err != nil {
		t.Fatal(err)
	}
	inner := node.NewBrowser(m, ReflectChild(map[string]interface{}{
		"c": map[string]interface{}{"en": "b"},
	}))
	outer := node.NewBrowser(m, ReflectChild(map[string]interface{}{
		"c": map[string]interface{}{
			"en":  "b",
			"any": *inner.Root(), // the writer looks for a node.Selection value
		},
	}))
	out, err := c15Write(t, JSONWtr{EnumAsIds: true, QualifyNamespace: true}, outer.Root())
	if err != nil {
		t.Fatal(err)
	}
	x := c15Decode(t, out)
	c := x["m:c"].(map[string]interface{})
	if fmt.Sprint(c["en"]) != "1" {
		t.Fatalf("outer enum expected as value 1, got %v", c["en"])
	}
	any := c["any"].(map[string]interface{})
	innerC, qualified := any["m:c"].(map[string]interface{})
	if !qualified {
		innerC, _ = any["c"].(map[string]interface{})
	}
	if _, isNum := innerC["en"].(json.Number); !isNum {
		t.Fatalf("EnumAsIds is on, but the enum inside the anydata tree is written as %#v (outer one as %v)\noutput: %s",
			innerC["en"], c["en"], out)
	}
	if !qualified {
		t.Fatalf("QualifyNamespace is on, but the top-level member of the anydata tree is not qualified\noutput: %s", out)
	}
}

// 3. A binary leaf-list value of the library's own type val.BinaryList produces
// malformed JSON and no error:  {"bl":[<binary list>],"after":"x"}
func TestFinding3(t *testing.T) {
	m, err := parser.LoadModuleFromString(nil, `module m { namespace "m"; prefix m;
	    leaf-list bl { type binary; }
	    leaf after { type string; }
	}`)
	if err != nil {
		t.Fatal(err)
	}
	n := &Basic{
		OnField: func(r node.FieldRequest, hnd *node.ValueHandle) error {
			switch r.Meta.Ident() {
			case "bl":
				hnd.Val = val.BinaryList{[]byte{0, 1, 2}, []byte{255}}
			case "after":
				hnd.Val = val.String("x")
			}
			return nil
		},
	}
	out, err := c15Write(t, JSONWtr{}, node.NewBrowser(m, n).Root())
	if err == nil && !json.Valid([]byte(out)) {
		t.Fatalf("no error returned, yet the output is not JSON: %s", out)
	}
	if err == nil {
		x := c15Decode(t, out)
		l, isList := x["bl"].([]interface{})
		if !isList || len(l) != 2 || l[0] != "AAEC" || l[1] != "/w==" {
			t.Fatalf(`expected "bl":["AAEC","/w=="], got %s`, out)
		}
	}
}

// 4. An identityref is written with the module of whichever identity of that name is
// found first below the base, not of the identity that is stored: in module c the
// value "c:y" (or plain "y") is written as "b:y"; and a:x, b:x and c:x all come out as
// the same text.
func TestFinding4(t *testing.T) {
	m := c15Load(t, map[string]string{
		"a": `module a { namespace "a"; prefix a;
		  identity base;
		  identity x { base base; }
		}`,
		"b": `module b { namespace "b"; prefix b; import a { prefix a; }
		  identity x { base a:base; }
		  identity y { base a:base; }
		}`,
		"c": `module c { namespace "c"; prefix c; import a { prefix a; } import b { prefix b; }
		  identity x { base a:base; }
		  identity y { base b:y; }
		  container c {
		    leaf mine { type identityref { base a:base; } }
		    leaf id1 { type identityref { base a:base; } }
		    leaf id2 { type identityref { base a:base; } }
		    leaf id3 { type identityref { base a:base; } }
		  }
		}`,
	}, "c")
	d := map[string]interface{}{
		"c": map[string]interface{}{
			"mine": "c:y", // identity y of module c, the module of the leaf
			"id1":  "a:x",
			"id2":  "b:x",
			"id3":  "c:x",
		},
	}
	b := node.NewBrowser(m, ReflectChild(d))
	out, err := c15Write(t, JSONWtr{QualifyNamespace: true}, b.Root())
	if err != nil {
		t.Fatal(err)
	}
	x := c15Decode(t, out)
	c := x["c:c"].(map[string]interface{})
	// RFC 7951 Sec 6.8: no prefix = the module of the leaf
	if c["mine"] != "y" && c["mine"] != "c:y" {
		t.Fatalf("identity c:y is written as %q, which names another identity\noutput: %s", c["mine"], out)
	}
	if c["id1"] == c["id2"] || c["id2"] == c["id3"] || c["id1"] == c["id3"] {
		t.Fatalf("three different identities a:x, b:x, c:x are written as %q, %q, %q\noutput: %s",
			c["id1"], c["id2"], c["id3"], out)
	}
}

// 5. Nodes of a grouping that is defined in an imported module are qualified with the
// module of the GROUPING. RFC 7950 Sec 7.13: the nodes of a grouping belong to the
// namespace of the module that uses it, so RFC 7951 names them after that module
// (and an identityref inside it has to be qualified relative to that module).
func TestFinding5(t *testing.T) {
	m := c15Load(t, map[string]string{
		"types": `module types { namespace "t"; prefix t;
		  identity base; identity foo { base base; }
		  grouping g {
		    leaf id { type identityref { base base; } }
		    container gc { leaf x { type string; } }
		  }
		}`,
		"main": `module main { namespace "m"; prefix m; import types { prefix t; }
		  container top { uses t:g; }
		}`,
	}, "main")
	d := map[string]interface{}{
		"top": map[string]interface{}{"id": "foo", "gc": map[string]interface{}{"x": "X"}},
	}
	b := node.NewBrowser(m, ReflectChild(d))
	out, err := c15Write(t, JSONWtr{QualifyNamespace: true}, b.Root())
	if err != nil {
		t.Fatal(err)
	}
	x := c15Decode(t, out)
	top, found := x["main:top"].(map[string]interface{})
	if !found {
		t.Fatalf("main:top missing: %s", out)
	}
	for _, want := range []string{"id", "gc"} {
		if _, found := top[want]; !found {
			t.Fatalf("member %q of main:top missing, members are %v: the nodes that main takes from "+
				"grouping t:g are in the namespace of main and must not be qualified with 'types'\noutput: %s",
				want, c15Keys(top), out)
		}
	}
	if top["id"] != "types:foo" {
		t.Fatalf("identity foo of module types in a leaf of module main has to be written types:foo, got %v", top["id"])
	}
}

// 6. A leaf (not a leaf-list) whose type is a leafref to a leaf-list is written as an array.
func TestFinding6(t *testing.T) {
	m, err := parser.LoadModuleFromString(nil, `module m { namespace "m"; prefix m;
	  container c {
	    leaf-list ll { type string; }
	    leaf lr { type leafref { path "../ll"; } }
	  }
	}`)
	if err != nil {
		t.Fatal(err)
	}
	d := map[string]interface{}{
		"c": map[string]interface{}{
			"ll": []string{"p", "q"},
			"lr": "p",
		},
	}
	b := node.NewBrowser(m, ReflectChild(d))
	out, err := c15Write(t, JSONWtr{}, b.Root())
	if err != nil {
		t.Fatal(err)
	}
	x := c15Decode(t, out)
	c := x["c"].(map[string]interface{})
	if c["lr"] != "p" {
		t.Fatalf("leaf lr holds the single value \"p\" and has to be the JSON string \"p\", got %#v\noutput: %s", c["lr"], out)
	}
}

// 7. A decimal64 value that is not finite is written as +Inf / NaN: malformed JSON
// and no error.
func TestFinding7(t *testing.T) {
	m, err := parser.LoadModuleFromString(nil, `module m { namespace "m"; prefix m;
	    leaf d { type decimal64 { fraction-digits 2; } }
	    leaf-list dl { type decimal64 { fraction-digits 2; } }
	}`)
	if err != nil {
		t.Fatal(err)
	}
	n := &Basic{
		OnField: func(r node.FieldRequest, hnd *node.ValueHandle) error {
			switch r.Meta.Ident() {
			case "d":
				hnd.Val = val.Decimal64(math.Inf(1))
			case "dl":
				hnd.Val = val.Decimal64List{math.NaN(), 1.5}
			}
			return nil
		},
	}
	out, err := c15Write(t, JSONWtr{}, node.NewBrowser(m, n).Root())
	if err == nil && !json.Valid([]byte(out)) {
		t.Fatalf("no error returned, yet the output is not JSON: %s", out)
	}
}

// 8. When the selection that is written is not the root, the members of the top-level
// object are not module-qualified although QualifyNamespace is on (RFC 7951 Sec 4: "A
// namespace-qualified member name MUST be used for all members of a top-level JSON
// object"). It is not even consistent: a top-level list selection gives "m:top", a
// nested list selection gives "el".
func TestFinding8(t *testing.T) {
	m, err := parser.LoadModuleFromString(nil, `module m { namespace "m"; prefix m;
	  container c {
	    leaf s { type string; }
	    list el { key k; leaf k { type string; } }
	  }
	  list top { key k; leaf k { type string; } }
	}`)
	if err != nil {
		t.Fatal(err)
	}
	d := map[string]interface{}{
		"c": map[string]interface{}{
			"s":  "S",
			"el": []map[string]interface{}{{"k": "1"}},
		},
		"top": []map[string]interface{}{{"k": "1"}},
	}
	b := node.NewBrowser(m, ReflectChild(d))
	expect := map[string]string{
		"top":    "m:top", // this one is right
		"c":      "m:s",
		"c/s":    "m:s",
		"c/el":   "m:el",
		"c/el=1": "m:k",
		"top=1":  "m:k",
	}
	var wrong []string
	for _, path := range []string{"top", "c", "c/s", "c/el", "c/el=1", "top=1"} {
		sel, err := b.Root().Find(path)
		if err != nil || sel == nil {
			t.Fatalf("%s not found: %v", path, err)
		}
		out, err := c15Write(t, JSONWtr{QualifyNamespace: true}, sel)
		if err != nil {
			t.Fatal(err)
		}
		x := c15Decode(t, out)
		if _, found := x[expect[path]]; !found {
			wrong = append(wrong, fmt.Sprintf("selection %-7s: member %q expected, output is %s", path, expect[path], out))
		}
	}
	if len(wrong) > 0 {
		t.Fatalf("top-level members without module name:\n%s", strings.Join(wrong, "\n"))
	}
}
