// Copy this file into the directory  node/  of the module github.com/freeconf/yang
// (package name: node_test) and run:  go test ./node -run 'TestFinding' -v
//
// Property C16 - when, where and filter hide exactly what their expression excludes.
package node_test

import (
	"fmt"
	"strings"
	"testing"
	"time"

	"github.com/freeconf/yang/node"
	"github.com/freeconf/yang/nodeutil"
	"github.com/freeconf/yang/parser"
)

// c16Guard runs f, turning a panic into a result string and a hang into "HANG".
func c16Guard(f func() string) string {
	done := make(chan string, 1)
	go func() {
		defer func() {
			if r := recover(); r != nil {
				done <- fmt.Sprintf("PANIC: %v", r)
			}
		}()
		done <- f()
	}()
	select {
	case r := <-done:
		return r
	case <-time.After(5 * time.Second):
		return "HANG"
	}
}

func c16Module(body string) string {
	return fmt.Sprintf(`module x {namespace "x"; prefix "x"; revision 0;%s}`, body)
}

// c16Read loads the schema, puts the JSON behind a browser and reads (path == "" : the root) back as JSON.
func c16Read(yangBody string, jsonIn string, path string) string {
	return c16Guard(func() string {
		m, err := parser.LoadModuleFromString(nil, c16Module(yangBody))
		if err != nil {
			return "LOADERR: " + err.Error()
		}
		n, err := nodeutil.ReadJSON(jsonIn)
		if err != nil {
			return "JSONERR: " + err.Error()
		}
		b := node.NewBrowser(m, n)
		s := b.Root()
		if path != "" {
			if s, err = b.Root().Find(path); err != nil {
				return "ERR: " + err.Error()
			}
			if s == nil {
				return "NIL"
			}
		}
		out, err := nodeutil.WriteJSON(s)
		if err != nil {
			return "ERR: " + err.Error()
		}
		return out
	})
}

// c16Upsert upserts the JSON into an empty map backed tree and returns the map (as text) or the error
func c16Upsert(yangBody string, jsonIn string) string {
	return c16Guard(func() string {
		m, err := parser.LoadModuleFromString(nil, c16Module(yangBody))
		if err != nil {
			return "LOADERR: " + err.Error()
		}
		data := map[string]interface{}{}
		b := node.NewBrowser(m, nodeutil.ReflectChild(data))
		n, err := nodeutil.ReadJSON(jsonIn)
		if err != nil {
			return "JSONERR: " + err.Error()
		}
		if err = b.Root().UpsertFrom(n); err != nil {
			return "ERR: " + err.Error()
		}
		return fmt.Sprintf("%v", data)
	})
}

// 1. comparing with (or simply reading) a leaf that carries a 'when' of its own panics
func TestFinding1(t *testing.T) {
	y := `leaf y { when "z='a'"; type int32; }
	      leaf z { when "w='b'"; type string; }
	      leaf w { type string; }`
	got := c16Read(y, `{"y":1,"z":"a","w":"b"}`, "")
	want := `{"y":1,"z":"a","w":"b"}`
	if got != want {
		t.Errorf("when \"z='a'\" where z has a (true) when of its own: got %s want %s", got, want)
	}
	// other entry point of the same mechanism: GetValue of a leaf that has a when
	got2 := c16Guard(func() string {
		m, err := parser.LoadModuleFromString(nil, c16Module(`leaf z { when "w='b'"; type string; } leaf w { type string; }`))
		if err != nil {
			return "LOADERR: " + err.Error()
		}
		n, _ := nodeutil.ReadJSON(`{"z":"a","w":"b"}`)
		v, err := node.NewBrowser(m, n).Root().GetValue("z")
		if err != nil {
			return "ERR: " + err.Error()
		}
		if v == nil {
			return "nil"
		}
		return v.String()
	})
	if got2 != "a" {
		t.Fatalf("GetValue(\"z\") of a leaf whose when is true: got %s want a", got2)
	}
	if t.Failed() {
		t.FailNow()
	}
}

// 2. a path of three or more steps is resolved twice and fails with "not found"
func TestFinding2(t *testing.T) {
	y := `container y { when "c/d/z>10";
	        container c { container d { leaf z { type int32; } } } }`
	got := c16Read(y, `{"y":{"c":{"d":{"z":99}}}}`, "")
	want := `{"y":{"c":{"d":{"z":99}}}}`
	if got != want {
		t.Errorf("when \"c/d/z>10\" with z=99: got %s want %s", got, want)
	}
	y2 := `list l { key k; leaf k { type string; }
	         container c { container cc { leaf ww { type string; } } } }`
	got2 := c16Read(y2, `{"l":[{"k":"a","c":{"cc":{"ww":"p"}}},{"k":"b","c":{"cc":{"ww":"q"}}}]}`, "l?where=c/cc/ww%3D'q'")
	want2 := `{"l":[{"k":"b","c":{"cc":{"ww":"q"}}}]}`
	if got2 != want2 {
		t.Fatalf("where=c/cc/ww='q': got %s want %s", got2, want2)
	}
	if t.Failed() {
		t.FailNow()
	}
}

// 3. 'when' on a list is never applied to the entries, it is evaluated on the list node itself and
// makes every read fail
func TestFinding3(t *testing.T) {
	y := `list l { when "v>5"; key k; leaf k { type string; } leaf v { type int32; } }`
	// true for every entry: has to behave as if there were no when
	got := c16Read(y, `{"l":[{"k":"a","v":8},{"k":"b","v":9}]}`, "")
	want := `{"l":[{"k":"a","v":8},{"k":"b","v":9}]}`
	if got != want {
		t.Errorf("list when \"v>5\", all entries satisfy it: got %s want %s", got, want)
	}
	// false for one entry: that entry is invisible
	got = c16Read(y, `{"l":[{"k":"a","v":1},{"k":"b","v":9}]}`, "")
	want = `{"l":[{"k":"b","v":9}]}`
	if got != want {
		t.Fatalf("list when \"v>5\", entry a has v=1: got %s want %s", got, want)
	}
	if t.Failed() {
		t.FailNow()
	}
}

// 4. 'when' of an augment is dropped, augmented nodes are always visible
func TestFinding4(t *testing.T) {
	y := `container c { leaf f { type boolean; } leaf q { type string; } }
	      augment "/c" { when "f='true'"; leaf z { type int32; } }`
	got := c16Read(y, `{"c":{"f":false,"q":"q","z":1}}`, "")
	want := `{"c":{"f":false,"q":"q"}}`
	if got != want {
		t.Fatalf("augment when \"f='true'\" with f=false: got %s want %s", got, want)
	}
}

// 5. 'when' of a uses replaces the 'when' the nodes of the grouping have themselves
func TestFinding5(t *testing.T) {
	y := `grouping g { leaf z { when "h='true'"; type int32; } }
	      leaf f { type boolean; }
	      leaf h { type boolean; }
	      uses g { when "f='true'"; }`
	// sanity: without the when on uses the leaf's own when hides it
	sane := c16Read(strings.Replace(y, `uses g { when "f='true'"; }`, `uses g;`, 1), `{"f":true,"h":false,"z":1}`, "")
	if sane != `{"f":true,"h":false}` {
		t.Fatalf("sanity (plain uses): got %s", sane)
	}
	got := c16Read(y, `{"f":true,"h":false,"z":1}`, "")
	want := `{"f":true,"h":false}`
	if got != want {
		t.Errorf("leaf z has when \"h='true'\" (false), uses has when \"f='true'\" (true): got %s want %s", got, want)
	}
	// and a container coming out of the grouping evaluates the uses' when inside itself
	y2 := `grouping g { container c { leaf z { type int32; } } }
	       leaf f { type boolean; }
	       uses g { when "f='true'"; }`
	got2 := c16Read(y2, `{"f":true,"c":{"z":1}}`, "")
	want2 := `{"f":true,"c":{"z":1}}`
	if got2 != want2 {
		t.Fatalf("uses when \"f='true'\" (true) over a grouping with a container: got %s want %s", got2, want2)
	}
	if t.Failed() {
		t.FailNow()
	}
}

// 6. an edit loses a leaf whose when is true for the data being written if the leaf the expression
// looks at comes later in the schema
func TestFinding6(t *testing.T) {
	// sanity: operand declared first works
	sane := c16Upsert(`leaf z { type int32; } leaf y { when "z>10"; type int32; }`, `{"y":100,"z":99}`)
	if sane != "map[y:100 z:99]" {
		t.Fatalf("sanity (operand first): got %s", sane)
	}
	got := c16Upsert(`leaf y { when "z>10"; type int32; } leaf z { type int32; }`, `{"y":100,"z":99}`)
	want := "map[y:100 z:99]"
	if got != want {
		t.Fatalf("upsert {y:100,z:99}, y has when \"z>10\": got %s want %s", got, want)
	}
}

// 7. an edit cannot create a container that has a when, although the data written makes it true
func TestFinding7(t *testing.T) {
	sane := c16Upsert(`container c { leaf z { type int32; } leaf q { type string; } }`, `{"c":{"z":99,"q":"q"}}`)
	if sane != "map[c:map[q:q z:99]]" {
		t.Fatalf("sanity (no when): got %s", sane)
	}
	got := c16Upsert(`container c { when "z>10"; leaf z { type int32; } leaf q { type string; } }`, `{"c":{"z":99,"q":"q"}}`)
	want := "map[c:map[q:q z:99]]"
	if got != want {
		t.Fatalf("upsert {c:{z:99,q:q}}, c has when \"z>10\": got %s want %s", got, want)
	}
}

// 8. numeric literals are forced into int64 and then into the type of the leaf, so a comparison
// with a literal outside of either is an error (or a syntax error for negatives) instead of true/false
func TestFinding8(t *testing.T) {
	tests := []struct{ name, y, in, want string }{
		{
			"uint64 leaf, literal above int64",
			`leaf y { when "z<18446744073709551615"; type int32; } leaf z { type uint64; }`,
			`{"y":1,"z":5}`, `{"y":1,"z":5}`,
		},
		{
			"uint8 leaf, literal 300",
			`leaf y { when "z<300"; type int32; } leaf z { type uint8; }`,
			`{"y":1,"z":5}`, `{"y":1,"z":5}`,
		},
		{
			"int32 leaf, negative literal",
			`leaf y { when "z>-1"; type int32; } leaf z { type int32; }`,
			`{"y":1,"z":5}`, `{"y":1,"z":5}`,
		},
		{
			"int32 leaf, literal 1.5",
			`leaf y { when "z<1.5"; type int32; } leaf z { type int32; }`,
			`{"y":1,"z":1}`, `{"y":1,"z":1}`,
		},
	}
	for _, test := range tests {
		got := c16Read(test.y, test.in, "")
		if got != test.want {
			t.Errorf("%s: got %s want %s", test.name, got, test.want)
		}
	}
	if t.Failed() {
		t.FailNow()
	}
}
