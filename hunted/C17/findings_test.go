package nodeutil_test

import (
	"math"
	"testing"

	"github.com/freeconf/yang/node"
	"github.com/freeconf/yang/nodeutil"
	"github.com/freeconf/yang/parser"
	"github.com/freeconf/yang/val"
)

func huntRoot(t *testing.T, data string) *node.Selection {
	mstr := `module m { namespace "m"; prefix "m"; revision 0;
	list u { key k; leaf k { type uint64; } leaf v { type string; } }
	list i { key k; leaf k { type int64; } leaf v { type string; } }
	}`
	m, err := parser.LoadModuleFromString(nil, mstr)
	if err != nil {
		t.Fatal(err)
	}
	n, err := nodeutil.ReadJSON(data)
	if err != nil {
		t.Fatal(err)
	}
	return node.NewBrowser(m, n).Root()
}

func huntFindV(t *testing.T, root *node.Selection, path string, want string) {
	sel, err := root.Find(path)
	if err != nil {
		t.Errorf("Find(%q): %v", path, err)
		return
	}
	if sel == nil {
		t.Errorf("Find(%q) = nil, want entry with v=%s", path, want)
		return
	}
	v, err := sel.GetValue("v")
	if err != nil || v == nil || v.String() != want {
		t.Errorf("Find(%q) v=%v err=%v, want %s", path, v, err, want)
	}
}


// Decimal64 NaN compares equal to every number: equality is not transitive
func TestHunt1(t *testing.T) {
	nan := val.Decimal64(math.NaN())
	one, two := val.Decimal64(1), val.Decimal64(2)
	if val.Equal(one, nan) && val.Equal(nan, two) && !val.Equal(one, two) {
		t.Errorf("Equal(1,NaN)=true and Equal(NaN,2)=true but Equal(1,2)=false: equality not transitive")
	}
	if c := nan.Compare(one); c == 0 {
		t.Errorf("Decimal64(NaN).Compare(1) = 0, NaN is reported equal to 1")
	}
}

// CompareVals ignores the length of the tuples: a proper prefix compares as equal,
// disagreeing with EqualVals, and the mirrored call panics
func TestHunt2(t *testing.T) {
	a := []val.Value{val.Int32(1)}
	b := []val.Value{val.Int32(1), val.Int32(2)}
	if c := val.CompareVals(a, b); c >= 0 {
		t.Errorf("CompareVals((1),(1,2)) = %d, want < 0 (EqualVals says %v)", c, val.EqualVals(a, b))
	}
	func() {
		defer func() {
			if r := recover(); r != nil {
				t.Errorf("CompareVals((1,2),(1)) panicked: %v", r)
			}
		}()
		if c := val.CompareVals(b, a); c <= 0 {
			t.Errorf("CompareVals((1,2),(1)) = %d, want > 0", c)
		}
	}()
}

// CompareVals panics on tuples that EqualVals accepts (nil entry = key leaf without a value)
func TestHunt3(t *testing.T) {
	a := []val.Value{val.Int32(1), nil}
	b := []val.Value{val.Int32(1), nil}
	if !val.EqualVals(a, b) {
		t.Fatal("EqualVals should hold")
	}
	defer func() {
		if r := recover(); r != nil {
			t.Errorf("CompareVals panicked on tuples EqualVals calls equal: %v", r)
		}
	}()
	if c := val.CompareVals(a, b); c != 0 {
		t.Errorf("CompareVals = %d, want 0", c)
	}
}

// BinaryList: Compare says equal (0) while Equal says different
func TestHunt4(t *testing.T) {
	a, b := val.BinaryList{nil}, val.BinaryList{{}}
	c := a.Compare(b)
	eq := val.Equal(a, b)
	if (c == 0) != eq {
		t.Errorf("BinaryList{nil} vs BinaryList{{}}: Compare=%d but Equal=%v; ordering disagrees with equality", c, eq)
	}
	// while the single form treats them as equal
	if val.Equal(val.Binary(nil), val.Binary{}) != eq {
		t.Errorf("Binary(nil)==Binary{} is %v but the same items in a BinaryList give %v", !eq, eq)
	}
}

// Enum.Compare subtracts ids: wrong sign at the extremes
func TestHunt5(t *testing.T) {
	lo, hi := val.Enum{Id: math.MinInt64, Label: "lo"}, val.Enum{Id: 1, Label: "hi"}
	if c := lo.Compare(hi); c >= 0 {
		t.Errorf("Enum{Id:MinInt64}.Compare(Enum{Id:1}) = %d, want < 0", c)
	}
	if c := hi.Compare(lo); c <= 0 {
		t.Errorf("Enum{Id:1}.Compare(Enum{Id:MinInt64}) = %d, want > 0", c)
	}
}

// Compare between different formats panics instead of ordering (Equal answers false for the same pair)
func TestHunt6(t *testing.T) {
	pairs := [][2]val.Comparable{
		{val.Int32(1), val.Int64(1)},
		{val.Int64(1), val.Int32(1)},
		{val.String("1"), val.Int32(1)},
		{val.Int32(1), val.String("1")},
		{val.Enum{Id: 1, Label: "a"}, val.String("a")},
		{val.String("a"), val.Enum{Id: 1, Label: "a"}},
		{val.IdentRef{Label: "a"}, val.String("a")},
		{val.Binary("a"), val.String("a")},
	}
	for _, p := range pairs {
		func() {
			defer func() {
				if r := recover(); r != nil {
					t.Errorf("%T(%v).Compare(%T(%v)) panicked: %v", p[0], p[0], p[1], p[1], r)
				}
			}()
			_ = val.Equal(p[0], p[1])
			p[0].Compare(p[1])
		}()
	}
}

// list values: nil and empty lists denote the same (empty) value but are unequal;
// a Decimal64List holding NaN is not equal to itself while the single value is
func TestHunt7(t *testing.T) {
	if !val.Equal(val.StringList(nil), val.StringList{}) {
		t.Errorf("Equal(StringList(nil), StringList{}) = false")
	}
	if !val.Equal(val.Int32List(nil), val.Int32List{}) {
		t.Errorf("Equal(Int32List(nil), Int32List{}) = false")
	}
	l := val.Decimal64List{math.NaN()}
	if !val.Equal(l, l) {
		t.Errorf("Equal(l, l) = false for Decimal64List{NaN}: equality not reflexive")
	}
}

// Enum equality looks at the id only, EnumList equality at id and label
func TestHunt8(t *testing.T) {
	a, b := val.Enum{Id: 1, Label: "a"}, val.Enum{Id: 1, Label: "b"}
	single := val.Equal(a, b)
	list := val.Equal(val.EnumList{a}, val.EnumList{b})
	if single != list {
		t.Errorf("Equal(Enum{1,a},Enum{1,b})=%v but Equal(EnumList{..},EnumList{..})=%v", single, list)
	}
}

// JSON-backed list: entries keyed by the extremes of uint64 / int64 are never found
func TestHunt9(t *testing.T) {
	root := huntRoot(t, `{"u":[{"k":18446744073709551615,"v":"max"},{"k":1,"v":"one"}]}`)
	huntFindV(t, root, "u=1", "one")
	huntFindV(t, root, "u=18446744073709551615", "max")
	root = huntRoot(t, `{"i":[{"k":9223372036854775807,"v":"max"},{"k":1,"v":"one"}]}`)
	huntFindV(t, root, "i=1", "one")
	huntFindV(t, root, "i=9223372036854775807", "max")
}

// xpath: a uint64 leaf cannot be compared with a literal >= 2^63
func TestHunt10(t *testing.T) {
	root := huntRoot(t, `{"u":[{"k":"18446744073709551615","v":"max"},{"k":1,"v":"one"}]}`)
	sel, err := root.Find("u?where=k%3E9223372036854775808")
	if err != nil || sel == nil {
		t.Fatalf("where=k>9223372036854775808 on uint64 leaf: %v", err)
	}
	s, err := nodeutil.WriteJSON(sel)
	if err != nil || s != `{"u":[{"k":18446744073709551615,"v":"max"}]}` {
		t.Errorf("got %s %v", s, err)
	}
}

// xpath: an int64 leaf cannot be compared with a negative literal
func TestHunt11(t *testing.T) {
	root := huntRoot(t, `{"i":[{"k":-5,"v":"neg"},{"k":1,"v":"one"}]}`)
	sel, err := root.Find("i?where=k%3D-5")
	if err != nil || sel == nil {
		t.Fatalf("where=k=-5 on int64 leaf: %v", err)
	}
	s, err := nodeutil.WriteJSON(sel)
	if err != nil || s != `{"i":[{"k":-5,"v":"neg"}]}` {
		t.Errorf("got %s %v", s, err)
	}
}
