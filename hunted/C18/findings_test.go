package nodeutil_test

import (
	"testing"

	"github.com/freeconf/yang/meta"
	"github.com/freeconf/yang/node"
	"github.com/freeconf/yang/nodeutil"
	"github.com/freeconf/yang/parser"
	"github.com/freeconf/yang/val"
)

// ---- simple hand-written target node: containers are map[string]interface{},
// lists are *hList (slice of maps), leaves are stored as val.Value

type hMap = map[string]interface{}

type hList struct {
	rows []hMap
}

func hKeyOf(row hMap, m *meta.List) []val.Value {
	var key []val.Value
	for _, km := range m.KeyMeta() {
		v, _ := row[km.Ident()].(val.Value)
		key = append(key, v)
	}
	return key
}

func hIndex(l *hList, m *meta.List, key []val.Value) int {
	for i, row := range l.rows {
		k := hKeyOf(row, m)
		if len(k) != len(key) {
			continue
		}
		match := true
		for j := range k {
			if k[j] == nil || key[j] == nil || k[j].String() != key[j].String() {
				match = false
			}
		}
		if match {
			return i
		}
	}
	return -1
}

func hListNode(l *hList) node.Node {
	return &nodeutil.Basic{
		OnNext: func(r node.ListRequest) (node.Node, []val.Value, error) {
			if r.Delete {
				if len(r.Meta.KeyMeta()) == 0 {
					// keyless list: the row is all that can address an entry
					if r.Row < len(l.rows) {
						l.rows = append(l.rows[:r.Row:r.Row], l.rows[r.Row+1:]...)
					}
					return nil, nil, nil
				}
				if i := hIndex(l, r.Meta, r.Key); i >= 0 {
					l.rows = append(l.rows[:i:i], l.rows[i+1:]...)
				}
				return nil, nil, nil
			}
			if r.New {
				row := hMap{}
				l.rows = append(l.rows, row)
				return hMapNode(row), r.Key, nil
			}
			if len(r.Key) > 0 {
				if i := hIndex(l, r.Meta, r.Key); i >= 0 {
					return hMapNode(l.rows[i]), r.Key, nil
				}
				return nil, nil, nil
			}
			if r.Row < len(l.rows) {
				return hMapNode(l.rows[r.Row]), hKeyOf(l.rows[r.Row], r.Meta), nil
			}
			return nil, nil, nil
		},
	}
}

func hHasAny(defs []meta.Definition, m hMap) bool {
	for _, d := range defs {
		if ch, ok := d.(*meta.Choice); ok {
			for _, k := range ch.Cases() {
				if hHasAny(k.DataDefinitions(), m) {
					return true
				}
			}
		} else if _, found := m[d.Ident()]; found {
			return true
		}
	}
	return false
}

func hMapNode(m hMap) node.Node {
	return &nodeutil.Basic{
		OnChoose: func(sel *node.Selection, choice *meta.Choice) (*meta.ChoiceCase, error) {
			for _, k := range choice.Cases() {
				if hHasAny(k.DataDefinitions(), m) {
					return k, nil
				}
			}
			return nil, nil
		},
		OnChild: func(r node.ChildRequest) (node.Node, error) {
			id := r.Meta.Ident()
			if r.Delete {
				delete(m, id)
				return nil, nil
			}
			v, found := m[id]
			if !found {
				if !r.New {
					return nil, nil
				}
				if meta.IsList(r.Meta) {
					v = &hList{}
				} else {
					v = hMap{}
				}
				m[id] = v
			}
			if meta.IsList(r.Meta) {
				return hListNode(v.(*hList)), nil
			}
			return hMapNode(v.(hMap)), nil
		},
		OnField: func(r node.FieldRequest, hnd *node.ValueHandle) error {
			id := r.Meta.Ident()
			if r.Write {
				if r.Clear || hnd.Val == nil {
					delete(m, id)
				} else {
					m[id] = hnd.Val
				}
				return nil
			}
			if v, found := m[id]; found {
				hnd.Val = v.(val.Value)
			}
			return nil
		},
	}
}

func hSetup(t *testing.T, yang string, initial string) (*node.Browser, hMap) {
	t.Helper()
	mod, err := parser.LoadModuleFromString(nil, yang)
	if err != nil {
		t.Fatal(err)
	}
	data := hMap{}
	b := node.NewBrowser(mod, hMapNode(data))
	if initial != "" {
		n, err := nodeutil.ReadJSON(initial)
		if err != nil {
			t.Fatal(err)
		}
		if err := b.Root().UpsertFrom(n); err != nil {
			t.Fatal(err)
		}
	}
	return b, data
}

func hJSON(t *testing.T, sel *node.Selection) string {
	t.Helper()
	s, err := nodeutil.WriteJSON(sel)
	if err != nil {
		return "WRITEJSON ERROR: " + err.Error()
	}
	return s
}

func hFind(t *testing.T, b *node.Browser, path string) *node.Selection {
	t.Helper()
	sel, err := b.Root().Find(path)
	if err != nil {
		t.Fatalf("find %s: %v", path, err)
	}
	if sel == nil {
		t.Fatalf("find %s: not found", path)
	}
	return sel
}

func hRead(s string) node.Node {
	n, err := nodeutil.ReadJSON(s)
	if err != nil {
		panic(err)
	}
	return n
}

const hYang1 = `module m { namespace "m"; prefix "m"; revision 0;
	leaf top { type string; }
	container c {
		leaf a { type string; }
		leaf b { type string; }
		leaf-list ll { type string; }
		container d { leaf x { type string; } }
	}
	list l {
		key k;
		leaf k { type string; }
		leaf v { type string; }
		container e { leaf y { type string; } }
		list n { key nk; leaf nk { type string; } leaf nv { type string; } }
	}
	list il {
		key id;
		leaf id { type int32; }
		leaf v { type string; }
	}
	list ml {
		key "k1 k2";
		leaf k1 { type string; }
		leaf k2 { type string; }
		leaf v { type string; }
	}
}`

const hData1 = `{"top":"T","c":{"a":"A","b":"B","ll":["p","q"],"d":{"x":"X"}},
 "l":[{"k":"one","v":"1","e":{"y":"Y1"},"n":[{"nk":"s","nv":"1s"}]},
      {"k":"two","v":"2","e":{"y":"Y2"},"n":[{"nk":"s","nv":"2s"}]},
      {"k":"three","v":"3"}],
 "il":[{"id":1,"v":"i1"},{"id":2,"v":"i2"}],
 "ml":[{"k1":"a","k2":"b","v":"ab"},{"k1":"a","k2":"c","v":"ac"}]}`


func hStart(t *testing.T) (*node.Browser, string) {
	b, _ := hSetup(t, hYang1, hData1)
	return b, hJSON(t, b.Root())
}

func hExists(t *testing.T, b *node.Browser, path string) bool {
	t.Helper()
	sel, err := b.Root().Find(path)
	if err != nil {
		t.Fatalf("find %s: %v", path, err)
	}
	return sel != nil
}

// ReplaceFrom on entry l=two with a source entry whose key is "zzz": entry "two"
// disappears and a different entry "zzz" shows up elsewhere in the list.
func TestHunt1(t *testing.T) {
	b, before := hStart(t)
	err := hFind(t, b, "l=two").ReplaceFrom(hRead(`{"l":[{"k":"zzz","v":"new"}]}`))
	after := hJSON(t, b.Root())
	if err != nil {
		if after != before {
			t.Fatalf("replace refused (%v) but data changed:\n%s", err, after)
		}
		return
	}
	if !hExists(t, b, "l=two") {
		t.Errorf("replace of l=two succeeded but l=two no longer exists: %s", after)
	}
	if hExists(t, b, "l=zzz") {
		t.Errorf("replace of l=two created another entry l=zzz: %s", after)
	}
}

// ReplaceFrom on entry l=two with a source holding two entries: a sibling entry
// "four" that was never addressed is created.
func TestHunt2(t *testing.T) {
	b, before := hStart(t)
	err := hFind(t, b, "l=two").ReplaceFrom(hRead(`{"l":[{"k":"two","v":"new"},{"k":"four","v":"4"}]}`))
	after := hJSON(t, b.Root())
	if err != nil {
		if after != before {
			t.Fatalf("replace refused (%v) but data changed:\n%s", err, after)
		}
		return
	}
	if hExists(t, b, "l=four") {
		t.Errorf("replace of l=two created sibling entry l=four: %s", after)
	}
}

// ReplaceFrom on entry l=two with a source entry keyed "one" (exists): the call
// fails with a conflict, but l=two has already been deleted.
func TestHunt3(t *testing.T) {
	b, before := hStart(t)
	err := hFind(t, b, "l=two").ReplaceFrom(hRead(`{"l":[{"k":"one","v":"new"}]}`))
	after := hJSON(t, b.Root())
	if err == nil {
		t.Fatalf("expected an error")
	}
	if !hExists(t, b, "l=two") {
		t.Errorf("replace failed (%v) yet l=two is gone:\nbefore %s\nafter  %s", err, before, after)
	}
}

// ReplaceFrom on container c with a source that also holds the sibling leaf
// "top": the sibling outside the addressed subtree is overwritten.
func TestHunt4(t *testing.T) {
	b, _ := hStart(t)
	err := hFind(t, b, "c").ReplaceFrom(hRead(`{"top":"CHANGED","c":{"a":"A2"}}`))
	v, gerr := b.Root().GetValue("top")
	if gerr != nil {
		t.Fatal(gerr)
	}
	if v == nil || v.String() != "T" {
		t.Errorf("replace of c (err=%v) changed sibling leaf top to %v", err, v)
	}
}

// Upsert/Update on the addressed entry l=two with a source that changes the key
// leaf to "one": the list ends up with two entries keyed "one".
func TestHunt5(t *testing.T) {
	for _, op := range []string{"upsert", "update"} {
		b, data := hSetup(t, hYang1, hData1)
		sel := hFind(t, b, "l=two")
		var err error
		if op == "upsert" {
			err = sel.UpsertFrom(hRead(`{"k":"one"}`))
		} else {
			err = sel.UpdateFrom(hRead(`{"k":"one"}`))
		}
		seen := map[string]bool{}
		for _, row := range data["l"].(*hList).rows {
			k := row["k"].(val.Value).String()
			if seen[k] {
				t.Errorf("%s (err=%v): two entries with key %q: %s", op, err, k, hJSON(t, b.Root()))
			}
			seen[k] = true
		}
	}
}

// ReplaceFrom on entry l=two selected with ?fields=v: the new entry is created
// without its key leaf, the list now holds an entry with no key and cannot even
// be read.
func TestHunt6(t *testing.T) {
	b, data := hSetup(t, hYang1, hData1)
	err := hFind(t, b, "l=two?fields=v").ReplaceFrom(hRead(`{"l":[{"k":"two","v":"new"}]}`))
	for i, row := range data["l"].(*hList).rows {
		if _, ok := row["k"]; !ok {
			t.Errorf("replace (err=%v) left entry %d of l without its key leaf: %v", err, i, row)
		}
	}
	if _, rerr := nodeutil.WriteJSON(b.Root()); rerr != nil {
		t.Errorf("tree unreadable after replace: %v", rerr)
	}
	if err == nil && !hExists(t, b, "l=two") {
		t.Errorf("replace succeeded but l=two is not found")
	}
}

// UpsertFrom through a list selection carrying ?fields=v creates an entry
// without key leaf.
func TestHunt7(t *testing.T) {
	b, data := hSetup(t, hYang1, hData1)
	err := hFind(t, b, "l?fields=v").UpsertFrom(hRead(`{"l":[{"k":"n","v":"x"}]}`))
	for i, row := range data["l"].(*hList).rows {
		if _, ok := row["k"]; !ok {
			t.Errorf("upsert (err=%v) left entry %d of l without its key leaf: %v", err, i, row)
		}
	}
}

// ReplaceFrom on container c selected with query parameters: content is
// destroyed instead of replaced (fields: error + c gone; content=nonconfig:
// no error, all leaves gone).
func TestHunt8(t *testing.T) {
	for _, q := range []string{"fields=a", "depth=1", "content=nonconfig"} {
		b, before := hStart(t)
		err := hFind(t, b, "c?"+q).ReplaceFrom(hRead(`{"c":{"a":"A2","b":"B2","d":{"x":"X2"}}}`))
		after := hJSON(t, b.Root())
		if err != nil {
			if after != before {
				t.Errorf("%s: replace failed (%v) but data was destroyed: %s", q, err, after)
			}
			continue
		}
		v, _ := b.Root().GetValue("c/a")
		if v == nil || v.String() != "A2" {
			t.Errorf("%s: replace succeeded but c/a is %v, want A2: %s", q, v, after)
		}
	}
}

// Delete of the 2nd entry of a keyless list (reached by iteration) removes the
// first one: the delete request carries neither key nor row.
func TestHunt9(t *testing.T) {
	b, _ := hSetup(t, hYang2, `{"kl":[{"v":"r0"},{"v":"r1"},{"v":"r2"}]}`)
	li, err := hFind(t, b, "kl").First()
	if err != nil {
		t.Fatal(err)
	}
	if li, err = li.Next(); err != nil {
		t.Fatal(err)
	}
	if err = li.Selection.Delete(); err != nil {
		t.Fatal(err)
	}
	got := hJSON(t, b.Root())
	want := `{"kl":[{"v":"r0"},{"v":"r2"}]}`
	if got != want {
		t.Errorf("deleted 2nd entry: got %s want %s", got, want)
	}
}

const hYang2 = `module m { namespace "m"; prefix "m"; revision 0;
	list kl { leaf v { type string; } }
}`
