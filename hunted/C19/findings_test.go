// Copy this file into the package directory  nodeutil/  of the module
// github.com/freeconf/yang ; package name: nodeutil
//
//	cp _out/findings_test.go nodeutil/zz_findings_c19_test.go
//	go test ./nodeutil -run 'TestFinding' -count=1
//
// Property C19: XML export and import are inverse on every data tree.
// Every test below FAILS on the current tree because of a defect.
package nodeutil

import (
	"fmt"
	"io"
	"reflect"
	"runtime/debug"
	"strings"
	"testing"
	"time"

	"github.com/freeconf/yang/meta"
	"github.com/freeconf/yang/node"
	"github.com/freeconf/yang/parser"
	"github.com/freeconf/yang/patch/xml"
	"github.com/freeconf/yang/val"
)

// ---------------------------------------------------------------- helpers

// c19Guard runs f in its own goroutine, converts a panic into an error and
// gives up after 5 seconds. A non-empty result is the failure message.
func c19Guard(t *testing.T, f func() string) {
	t.Helper()
	done := make(chan string, 1)
	go func() {
		defer func() {
			if r := recover(); r != nil {
				done <- fmt.Sprintf("panic: %v\n%s", r, debug.Stack())
			}
		}()
		done <- f()
	}()
	select {
	case msg := <-done:
		if msg != "" {
			t.Fatalf("%s", msg)
		}
	case <-time.After(5 * time.Second):
		t.Fatalf("no answer after 5 seconds (hang)")
	}
}

func c19Load(mods map[string]string, main string) (*meta.Module, error) {
	ypath := func(name, ext string) (io.Reader, error) {
		s, ok := mods[name]
		if !ok {
			return nil, fmt.Errorf("no module %s", name)
		}
		return strings.NewReader(s), nil
	}
	return parser.LoadModule(ypath, main)
}

// the two XML writers, both producing a document including the root element
var c19Writers = []struct {
	name  string
	write func(s *node.Selection) (string, error)
}{
	{"WriteXML(XMLWtr)", func(s *node.Selection) (string, error) { return WriteXML(s) }},
	{"WriteXMLDoc(XMLWtr2)", func(s *node.Selection) (string, error) { return WriteXMLDoc(s, false) }},
}

// c19FromJSON builds a tree (plain go maps) from a JSON document.
func c19FromJSON(m *meta.Module, jsonIn string) (*node.Browser, string, error) {
	data := map[string]interface{}{}
	b := node.NewBrowser(m, ReflectChild(data))
	n, err := ReadJSON(jsonIn)
	if err != nil {
		return nil, "", err
	}
	if err = b.Root().UpsertFrom(n); err != nil {
		return nil, "", err
	}
	j, err := WriteJSON(b.Root())
	return b, j, err
}

// c19Import reads the xml doc against the schema into a fresh tree (plain go maps)
// and renders that tree as JSON so two trees can be compared.
func c19Import(m *meta.Module, xmlDoc string) (string, error) {
	rd, err := ReadXMLDoc(strings.NewReader(xmlDoc))
	if err != nil {
		return "", fmt.Errorf("document is not readable: %w", err)
	}
	data := map[string]interface{}{}
	b := node.NewBrowser(m, ReflectChild(data))
	if err = b.Root().UpsertFrom(rd); err != nil {
		return "", err
	}
	return WriteJSON(b.Root())
}

// c19RoundTrip : JSON -> tree -> XML (each writer) -> tree' ; tree' must equal tree
func c19RoundTrip(m *meta.Module, jsonIn string) string {
	b, before, err := c19FromJSON(m, jsonIn)
	if err != nil {
		return "cannot build the tree (test set up): " + err.Error()
	}
	var fails []string
	for _, w := range c19Writers {
		x, err := w.write(b.Root())
		if err != nil {
			fails = append(fails, fmt.Sprintf("%s: export failed: %v", w.name, err))
			continue
		}
		after, err := c19Import(m, x)
		if err != nil {
			fails = append(fails, fmt.Sprintf("%s: import of %s failed: %v", w.name, x, err))
			continue
		}
		if after != before {
			fails = append(fails, fmt.Sprintf("%s:\n   exported tree : %s\n   xml           : %s\n   imported tree : %s", w.name, before, x, after))
		}
	}
	return strings.Join(fails, "\n")
}

// c19Roots tokenises the whole document and counts the top level elements
func c19Roots(doc string) (int, error) {
	dec := xml.NewDecoder(strings.NewReader(doc))
	depth, roots := 0, 0
	for {
		tok, err := dec.Token()
		if err == io.EOF {
			return roots, nil
		}
		if err != nil {
			return roots, err
		}
		switch tok.(type) {
		case xml.StartElement:
			depth++
		case xml.EndElement:
			depth--
			if depth == 0 {
				roots++
			}
		}
	}
}

// ---------------------------------------------------------------- findings

// Finding 1: the XML reader strips the white space of every element of a string
// leaf-list (the fix for single string leaves did not reach the leaf-list branch).
func TestFinding1(t *testing.T) {
	c19Guard(t, func() string {
		m, err := c19Load(map[string]string{"m": `module m { namespace "urn:m"; prefix m;
			leaf-list sl { type string; }
		}`}, "m")
		if err != nil {
			return err.Error()
		}
		if msg := c19RoundTrip(m, `{"sl":[" x ","y\n","\tz"]}`); msg != "" {
			return "string leaf-list elements lose leading/trailing white space:\n" + msg
		}
		return ""
	})
}

// Finding 2: the XML reader strips the white space of string values whose leaf type
// is not directly 'string': union with a string member, leafref to a string leaf.
func TestFinding2(t *testing.T) {
	c19Guard(t, func() string {
		m, err := c19Load(map[string]string{"m": `module m { namespace "urn:m"; prefix m;
			leaf s  { type string; }
			leaf u  { type union { type int32; type string; } }
			leaf lr { type leafref { path "../s"; } }
		}`}, "m")
		if err != nil {
			return err.Error()
		}
		var fails []string
		if msg := c19RoundTrip(m, `{"u":" sp "}`); msg != "" {
			fails = append(fails, "union{int32,string} value \" sp \" altered:\n"+msg)
		}
		if msg := c19RoundTrip(m, `{"s":" x ","lr":" x "}`); msg != "" {
			fails = append(fails, "leafref-to-string value \" x \" altered (no longer equal to the leaf it refers to):\n"+msg)
		}
		return strings.Join(fails, "\n")
	})
}

// Finding 3: the XML reader computes the key of a list entry from the trimmed text
// of the key leaf, so the key differs from the key leaf and two distinct entries
// (" a " and "a") collapse into one on import.
func TestFinding3(t *testing.T) {
	c19Guard(t, func() string {
		m, err := c19Load(map[string]string{"m": `module m { namespace "urn:m"; prefix m;
			list l { key k; leaf k { type string; } leaf v { type string; } }
		}`}, "m")
		if err != nil {
			return err.Error()
		}
		x := `<m xmlns="urn:m"><l><k> a </k><v>1</v></l><l><k>a</k><v>2</v></l></m>`
		// (a) key reported by the reader vs. key leaf
		b := node.NewBrowser(m, readXml(x))
		ls, err := b.Root().Find("l")
		if err != nil || ls == nil {
			return fmt.Sprintf("no list %v", err)
		}
		var fails []string
		it, err := ls.First()
		for err == nil && it.Selection != nil {
			v, verr := it.Selection.GetValue("k")
			if verr != nil {
				return verr.Error()
			}
			if len(it.Key) != 1 || it.Key[0].String() != v.String() {
				fails = append(fails, fmt.Sprintf("entry with key leaf %q is reported with key %v", v.String(), it.Key))
			}
			it, err = it.Next()
		}
		if err != nil {
			return err.Error()
		}
		// (b) full round trip through both writers
		if msg := c19RoundTrip(m, `{"l":[{"k":" a ","v":"1"},{"k":"a","v":"2"}]}`); msg != "" {
			fails = append(fails, msg)
		}
		return strings.Join(fails, "\n")
	})
}

// Finding 4: XMLWtr (WriteXML) writes no xmlns on elements that belong to another
// module than their parent (nodes of an imported grouping, nodes added by an augment),
// so they inherit the wrong namespace and the reader silently drops them.
func TestFinding4(t *testing.T) {
	c19Guard(t, func() string {
		m, err := c19Load(map[string]string{
			"base": `module base { namespace "urn:base"; prefix b;
				grouping g { container c { leaf x { type string; } } }
			}`,
			"aug": `module aug { namespace "urn:aug"; prefix a;
				import base { prefix b; }
				uses b:g;
				augment "/c" { leaf y { type string; } container ac { leaf z { type string; } } }
				leaf top { type string; }
			}`}, "aug")
		if err != nil {
			return err.Error()
		}
		if msg := c19RoundTrip(m, `{"c":{"x":"1","y":"2","ac":{"z":"3"}},"top":"t"}`); msg != "" {
			return "nodes of another module are lost:\n" + msg
		}
		return ""
	})
}

// Finding 5: XMLWtr (WriteXML) on a selection that is a list entry writes no opening
// root element but does write the closing one: the output is not well-formed and has
// several roots.
func TestFinding5(t *testing.T) {
	c19Guard(t, func() string {
		m, err := c19Load(map[string]string{"m": `module m { namespace "urn:m"; prefix m;
			list l { key k; leaf k { type string; } leaf v { type string; } container lc { leaf z { type string; } } }
		}`}, "m")
		if err != nil {
			return err.Error()
		}
		b, _, err := c19FromJSON(m, `{"l":[{"k":"k1","v":"v1","lc":{"z":"Z"}},{"k":"k2","v":"v2"}]}`)
		if err != nil {
			return err.Error()
		}
		entry, err := b.Root().Find("l=k1")
		if err != nil || entry == nil {
			return fmt.Sprintf("no entry %v", err)
		}
		var fails []string
		for _, w := range c19Writers {
			x, err := w.write(entry)
			if err != nil {
				fails = append(fails, fmt.Sprintf("%s: %v", w.name, err))
				continue
			}
			if roots, err := c19Roots(x); err != nil || roots != 1 {
				fails = append(fails, fmt.Sprintf("%s: output %q is not a well-formed document with one root: %d complete root elements, err=%v", w.name, x, roots, err))
				continue
			}
			rd, err := ReadXMLDoc(strings.NewReader(x))
			if err != nil {
				fails = append(fails, fmt.Sprintf("%s: output %q is not readable: %v", w.name, x, err))
				continue
			}
			if rd.XMLName.Local != "l" || !strings.HasSuffix(strings.TrimSpace(x), "</l>") || len(rd.Nodes) != 3 {
				fails = append(fails, fmt.Sprintf("%s: output %q does not have the single root <l> with 3 children", w.name, x))
			}
		}
		return strings.Join(fails, "\n")
	})
}

// Finding 6: XmlNode.Choose only looks at the direct children of each case; when the
// data of a case sits in a choice nested in that case the case is not recognised and
// the data is silently dropped on import.
func TestFinding6(t *testing.T) {
	c19Guard(t, func() string {
		m, err := c19Load(map[string]string{"m": `module m { namespace "urn:m"; prefix m;
			choice outer {
				case a {
					choice inner {
						case i1 { leaf in1 { type string; } }
						case i2 { leaf in2 { type string; } }
					}
				}
				case b { leaf b1 { type string; } }
			}
		}`}, "m")
		if err != nil {
			return err.Error()
		}
		// this is the document both writers produce for the tree { in2: "I2" }
		x := `<m xmlns="urn:m"><in2>I2</in2></m>`
		b := node.NewBrowser(m, readXml(x))
		var fails []string
		for _, w := range c19Writers {
			again, err := w.write(b.Root())
			if err != nil {
				fails = append(fails, fmt.Sprintf("%s: %v", w.name, err))
				continue
			}
			if again != x {
				fails = append(fails, fmt.Sprintf("imported %s, exporting the imported tree with %s gives %s", x, w.name, again))
			}
		}
		j, err := WriteJSON(b.Root())
		if err != nil || j != `{"in2":"I2"}` {
			fails = append(fails, fmt.Sprintf("imported tree is %s (err=%v), expected {\"in2\":\"I2\"}", j, err))
		}
		return strings.Join(fails, "\n")
	})
}

// Finding 7: for a module without a namespace statement XMLWtr (WriteXML) invents
// xmlns="<module name>"; the reader compares that with the (empty) namespace of the
// module, finds no match and silently drops the whole content.
func TestFinding7(t *testing.T) {
	c19Guard(t, func() string {
		m, err := c19Load(map[string]string{"m": `module m { prefix m;
			leaf a { type string; }
			container c { leaf b { type string; } }
		}`}, "m")
		if err != nil {
			return err.Error()
		}
		if msg := c19RoundTrip(m, `{"a":"A","c":{"b":"B"}}`); msg != "" {
			return "content of a module without namespace is lost:\n" + msg
		}
		return ""
	})
}

// Finding 8: a leaf of type union with an enumeration (or identityref) member cannot be
// imported from XML at all: the text of the element is converted without the enum
// definition, so a conforming document is rejected.
func TestFinding8(t *testing.T) {
	c19Guard(t, func() string {
		m, err := c19Load(map[string]string{"m": `module m { namespace "urn:m"; prefix m;
			leaf u { type union { type enumeration { enum x; enum y; } type int32; } }
		}`}, "m")
		if err != nil {
			return err.Error()
		}
		x := `<m xmlns="urn:m"><u>y</u></m>`
		b := node.NewBrowser(m, readXml(x))
		v, err := b.Root().GetValue("u")
		if err != nil {
			return fmt.Sprintf("reading %s : %v", x, err)
		}
		if v == nil {
			return "no value for u"
		}
		if e, isEnum := v.(val.Enum); !isEnum || e.Label != "y" {
			return fmt.Sprintf("expected enum y got %s %v", reflect.TypeOf(v), v)
		}
		for _, w := range c19Writers {
			again, err := w.write(b.Root())
			if err != nil || again != x {
				return fmt.Sprintf("%s: %s %v", w.name, again, err)
			}
		}
		return ""
	})
}
