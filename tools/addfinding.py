#!/usr/bin/env python3
# usage: tools/addfinding.py <id> <property> fixed <commit> "<what>"   |   ... known - "<what>" ["<why not repaired>"]
import json,sys
p='/verif/known_findings.json'
d=json.load(open(p))
lst=d if isinstance(d,list) else d['findings']
id,prop,status,commit,what=sys.argv[1:6]
why=sys.argv[6] if len(sys.argv)>6 else None
lst[:]=[e for e in lst if e['id']!=id]
if status=='fixed':
    e={"id":id,"property":prop,"status":"fixed","commit":commit,"what":what,"line":"fixed: property=%s %s %s"%(prop,commit,what)}
else:
    e={"id":id,"property":prop,"status":"known","what":what,"line":"known: property=%s %s"%(prop,what)}
    if why: e["why_not_repaired"]=why
lst.append(e)
json.dump(d,open(p,'w'),indent=1)
print(len(lst),"entries")
