#!/usr/bin/env python3
"""Regenerates /verif/MANIFEST.json from the table below (kept valid at all times)."""
import json, os
V = os.path.dirname(os.path.dirname(os.path.abspath(__file__)))
props = [json.loads(l)['id'] for l in open(os.path.join(V, 'properties.jsonl'))]

TECH = "bounded symbolic execution of the real Go SSA (go/ssa) with z3 deciding every branch and assertion; counterexamples replayed natively"
NOTE_COMMON = ("Trusted base: golang.org/x/tools go/ssa construction, the gosym interpreter (validated per run by replaying sampled path witnesses "
               "and their observed values natively), z3 4.8.12, and the library models listed in evidence coverage.stubs_hit. ")

# property -> (level text, level_note, design_ref)
CLAIMED = {
 "C17": ("Every Compare/Equal/CompareVals law is an SMT query over all values of the operand types at full width (64-bit ints, IEEE doubles, strings up to 2 bytes quick / 4 thorough); the slice key index (sliceSorter + real sort.Sort/sort.Search interpreted from source) is checked for every content of 3 (quick) / 4 (thorough) symbolic keys and every lookup key. Bounded model checking: holds for every value within those bounds.",
         NOTE_COMMON + "Outside the claim: reflection-driven lookups (sliceAsList.findByKey, mapAsList.getByKey, reflectCompare), NaN operands of decimal64, enum ids beyond int32, strings longer than the bound.",
         "DESIGN.md §2 C17"),
 "C10": ("One harness per (target integer format x source Go kind) cell, 8 targets x 14 source kinds: the source value is a full-width symbolic variable (64-bit integers, IEEE float32/float64, strings of <=3 bytes quick / <=4 thorough run through the real strconv), the real val.Conv is executed symbolically and 'err==nil implies the result denotes exactly the same number' is decided by z3 (floating-point queries by one-shot z3/z3-new/cvc5). Also decimal64, bool, string (symbolic Itoa of 8/16-bit sources), list forms and ConvOneOf. Bounded model checking within those bounds; format x kind cells are enumerated.",
         NOTE_COMMON + "Outside the claim: float64 -> string on symbolic doubles (strconv.FormatFloat; checked on an enumerated set instead), binary/base64 content, time.Time sources, enum/bits/identityref/union conversions of node.NewValue beyond the enum cases in C05, numeric strings longer than the byte bound.",
         "DESIGN.md §2 C10"),
 "C05": ("Unit level: RangeEntry/Range/RangeNumber membership for every signed, unsigned and decimal64 candidate and every pair of bounds (full-width symbolic, min/max open ends as symbolic flags), alternatives, leaf-list element-wise checks and 11 restriction texts through the real newRange. System level: a schema compiled by the real loader inside the interpreter (typedef chains of 2 and 3 levels, min/max, uint64 bounds, length, patterns incl. invert-match, enum) and Selection.Set/SetValue executed against a reference store: accepted iff inside every level, rejected writes issue zero Field writes, accepted writes store exactly the value. Bounded model checking.",
         NOTE_COMMON + "Outside the claim: the regular-expression engine (native on the enumerated concrete strings used), writes arriving from JSON/XML readers, binary length, restriction expressions other than the listed schema and texts (structure is enumerated, values are symbolic). Known finding C05-patterns-ored.",
         "DESIGN.md §2 C05"),
 "C11": ("Unit level: IfFeature.Evaluate against an RPN oracle for a generated catalogue of expressions (689 quick / 2628 thorough texts: ASTs up to 3 binary operators, minimal / full parenthesisation, extra blanks) under all 16 assignments of 4 features (symbolic Bools, every assignment explored), 16 malformed texts must be errors, allow-list / deny-list / all-on FeatureSet with its cache. System level: the real loader is executed inside the interpreter for 10 guardable statement kinds (leaf, container, list, leaf-list, choice, case, uses, augment, refine, anydata) x 2 expressions x allow/deny x 16 list memberships: guarded definition present iff the expression holds and neighbours untouched; 20 deviations (not-supported, add, replace, delete x property) must compile to the same canonical schema dump as the module with the property written inline.",
         NOTE_COMMON + "Outside the claim: expression texts and module shapes are enumerated catalogues (only the feature assignment is symbolic); rpc and notification guards are not in the property's list of guardable statements and are not checked; deviate replace type.",
         "DESIGN.md §2 C11"),
 "C12": ("The real editor / Selection.beginEdit/endEdit/Delete code runs over two recording reference stores (source and target) on a schema compiled by the real loader; the fault position is a full-width symbolic integer compared with the callback counter, so every position of every callback kind (Child, Next, Field, Choose, BeginEdit, EndEdit) on either side is explored and decided by the solver; 4 tree shapes x pre-populated or empty target x upsert/insert/update/delete x entry at root or container. A monitor over the callback logs asserts: successful Begin count = End count per node and End after Begin, no write after the failing call, the call fails with an error satisfying errors.Is(err, injected), nodes outside the edit get no notification, no panic.",
         NOTE_COMMON + "Outside the claim: reflection-backed nodes and nodeutil.Basic/Extend dispatch, trigger tables, tree shapes other than the 4 listed, list-entry entry points. Known finding C12-choose-error-swallowed.",
         "DESIGN.md §2 C12"),
 "C03": ("The real Selection.UpsertFrom/InsertFrom/UpdateFrom + editor run inside the interpreter over reference stores on a schema with leaves, defaults, nested containers and a keyed list with a nested container. Source and target trees have symbolic shape flags (every combination explored), full-width symbolic leaf values and symbolic int32 list keys (distinct per list; matches between source and target decided by the solver). The final target is compared with a reference keyed deep merge executed next to it (defaults only in created nodes, unmentioned paths unchanged); conflict / not-found outcomes must satisfy errors.Is(fc.ConflictError / fc.NotFoundError). Entry points: module root, container, list; rows per list <=1 quick / <=2 thorough.",
         NOTE_COMMON + "Outside the claim: reflection-backed nodes (map/slice/struct) and the JSON/XML readers as source or target, list-entry entry points, sequences of edits, schemas other than the one listed.",
         "DESIGN.md §2 C03"),
 "C09": ("Sequences of 2 (quick) / 3 (thorough) upserts into a reference store through the real editor, each step drawn from 10 options (both choices of a container with leaf/container/list/shorthand cases, a choice nested in a case, data outside any choice), leaf values symbolic: after every step at most one case of every choice (nested ones included) holds data, the stored tree equals a reference model that clears the other cases and merges, data outside the choice is untouched, and a read (UpsertInto a fresh store) reports exactly the stored tree. A second harness covers a choice inside a list entry.",
         NOTE_COMMON + "Outside the claim: Choose of reflection-backed nodes, of the JSON/XML readers, rpc input; the schema is one fixed module and the step options are an enumerated catalogue.",
         "DESIGN.md §2 C09"),
 "C18": ("Library layer only: Selection.Delete and ReplaceFrom executed over the reference store for 5 addressed node kinds (container, nested container, whole list, list entry by key, container below an entry) with symbolic content and keys: the store afterwards equals the reference store with exactly that subtree removed / replaced, and sequences of 2 (quick) / 3 (thorough) keyed upsert/insert/delete steps with symbolic keys never leave two entries with equal keys and keep every entry under the key its key leaf holds.",
         NOTE_COMMON + "Outside the claim (and this is most of what the property worries about): the slice-, map- and struct-backed reflection stores (reflect.AppendSlice, SetMapIndex ...) cannot be interpreted; only which request reaches which parent with which key, inside which begin/end bracket, is checked. Keys are drawn from 0..255 so that their decimal text runs through the real strconv.",
         "DESIGN.md §2 C18"),
 "C08": ("Selection.Find / parseUrlPath / findSlice / Path.String / EncodeKey with the real net/url unescaper interpreted from source: the key of a list entry is a symbolic byte string of 0..2 (quick) / 0..3 (thorough) arbitrary bytes, percent-encoded by a reference encoder; the returned selection must have the same schema node, key and content, navigation must not write, and Find(sel.Path.String()) must return the same entry; compound (string, uint8) keys in a list inside a list, absent keys / containers (no selection, no error), unknown and wrongly qualified names (not-found error), module-qualified segments, trailing slash, and ../ paths from a nested selection.",
         NOTE_COMMON + "Outside the claim: keys longer than the byte bound, numeric keys as symbolic digits (enumerated values only: parsing symbolic decimal text costs minutes), 'read filters are not applied to walked steps'.",
         "DESIGN.md §2 C08"),
 "C07": ("The real BuildConstraints / Constraints / MaxDepth / ContentConstraint / FieldsMatcher+PathMatchExpression / ListRange / WithDefaults / MaxNode code (and net/url query parsing) is executed for a read (Find(?query) + export into a fresh store) of a reference store with symbolic leaf values; the exported tree must equal a reference projection: depth 1..5 (and a symbolic depth through the MaxDepth object), content=config|nonconfig|all, with-defaults=trim, 11 fields / fc.xfields expressions (nested, alternatives, groups, longer than the tree), fc.range windows over 0..3 (quick) / 0..4 (thorough) rows, fc.max-node-count 1..8, 4 parameter combinations (intersection), 11 invalid values (must be errors), and the source must receive no write.",
         NOTE_COMMON + "Outside the claim: parameter values are enumerated catalogues except leaf content and the symbolic depth; empty or inverted fc.range windows (not specified); filter/where are C16.",
         "DESIGN.md §2 C07"),
 "C16": ("Selection.XPredicate / xpathImpl.resolvePath / resolveOperator / Where / xpathFilter / CheckWhen executed symbolically: for every numeric leaf type (int8..uint64, decimal64) the leaf value and the literal are full-width symbolic and all six operators are checked against the mathematical comparison (strings of <=2 bytes, booleans, enums by name likewise); an unset operand must give false without a crash; where keeps exactly the matching rows of a list with 2 (quick) / 3 (thorough) rows whose operand is present or absent symbolically, also through the text route (?where= parsed by the real xpath lexer and goyacc parser); a notification filter delivers exactly the matching events; when on a container, on a leaf and through a nested path hides the node on reads and suppresses the write on edits exactly when the expression is false.",
         NOTE_COMMON + "Outside the claim: when on list / uses / augment (the library's context-node convention for them is not determinable from the code or its tests), literals outside the operand's type range (the library returns an error), XPath beyond 'path op literal'.",
         "DESIGN.md §2 C16"),
 "C15": ("writeString (the string escaper) for every string of <=3 (quick) / <=4 (thorough) arbitrary bytes that is valid UTF-8, with and without HTML escaping: the output must be one well-formed JSON string that a reference RFC 8259 parser decodes to the stored text; every invalid-UTF-8 string of <=2 bytes must still give well-formed output. The real JSONWtr (over nodeutil.Extend/Basic, bufio.Writer and bytes.Buffer, all interpreted from source) writes symbolic trees of a schema with string, int8, uint8, boolean, enumeration, empty, decimal64, leaf-list, identityref, nested / empty containers, lists and empty lists; the output is parsed by the reference parser and checked member by member: exactly one value, names (module-qualified at the top level when asked), objects/arrays by node kind, [null] for empty, numbers/booleans/enums (by name or id) equal to the stored values, Pretty vs compact, start selection container / list / list entry, and a failing output stream must surface its error.",
         NOTE_COMMON + "Outside the claim: int8 values are an enumerated set and decimal64 values concrete (symbolic signed Itoa / FormatFloat are out of reach within minutes), bits / binary / union / anydata leaves, augmenting modules, nesting deeper than 2, every failing position of the output stream (only the single flush of a small document).",
         "DESIGN.md §2 C15"),
 "C04": ("Export: the real editor copies a symbolic reference tree (scalars, leaf-lists, nested container, choice, nested lists with a compound key) into a capturing store whose callback log is checked: the copy equals the source plus schema defaults, every leaf / container / entry is written exactly once, list entries arrive in source order. Round trip: the same trees are written by the real JSONWtr (compact and pretty+qualified), parsed by the reference RFC 8259 parser, converted to exactly what encoding/json hands the reader (float64 numbers, maps, slices) and read back through the real JsonContainerReader/JsonListReader + node.NewValue into a fresh store, which must equal the source. Every numeric leaf type is additionally sent through the reader at full width as float64(v).",
         NOTE_COMMON + "Outside the claim: encoding/json's decoder itself (replaced by the reference parser: an explicit assumption), reflection-backed source nodes, numbers in the text round trip are enumerated (a symbolic number would cost a floating-point query per reader branch), bits/binary/union/identityref leaves. Known finding C04-int64-beyond-2-53.",
         "DESIGN.md §2 C04"),
}
NA_REASON = "engine under construction; no check registered yet"

checks = []
for p in props:
    if p in CLAIMED:
        text, note, ref = CLAIMED[p]
        checks.append({
            "property_id": p,
            "quick_cmd": f"./check {p} quick",
            "thorough_cmd": f"./check {p} thorough",
            "evidence_file": f"evidence/{p}.json",
            "replay_cmd_template": "./check replay {path}",
            "engine": "gosym",
            "level_claimed": {"category": "model_checking", "text": text, "design_ref": ref},
            "level_note": note,
            "technique": TECH,
        })
NA = json.load(open(os.path.join(V, 'tools', 'not_applicable.json'))) if os.path.exists(os.path.join(V, 'tools', 'not_applicable.json')) else {}
m = {
 "version": 1,
 "setup_cmd": "mkdir -p bin && cd engine && GOFLAGS=-mod=mod GOPROXY=off GOSUMDB=off GOTOOLCHAIN=local go build -o ../bin/vpcheck .",
 "hooks": {"guard": "verif", "enable": "no hook commits: harness sources in /verif/harness are injected with go/packages Overlay (engine) and go test -overlay (native replay); nothing is written into /repo",
           "baseline_off_cmd": "cd /repo && go test -json -vet=off -count=1 -timeout 25m ./...", "source_commits": [], "add_only": True},
 "engines": [{"name": "gosym", "path": "engine", "serves_properties": sorted(CLAIMED),
              "kind_free_text": "bounded symbolic executor for Go SSA (golang.org/x/tools/go/ssa v0.29.0): concrete heap, symbolic scalars and bytes, path decisions and assertions discharged by z3 (check-sat-assuming over one process per worker), counterexamples and sampled path witnesses replayed natively with go test -overlay"}],
 "checks": checks,
 "not_applicable": [{"property_id": p, "reason": NA.get(p, NA_REASON)} for p in props if p not in CLAIMED],
 "notes": "All checks exit 0 = held within the stated bounds, 1 = natively confirmed VIOLATION line(s), 2 = INCONCLUSIVE (solver unknown, unwinding bound, unsupported construct, engine/native mismatch). Known findings: known_findings.json.",
}
json.dump(m, open(os.path.join(V, 'MANIFEST.json'), 'w'), indent=1)
print("checks:", [c['property_id'] for c in checks])
