#!/bin/bash
# usage: tools/seedcheck.sh <prop> <n> <worktree-out-dir> [check-prop]
# Confirms a seeded change (applies, builds, suite passes, demo fails with / passes without) in the
# scratch worktree that contains <out-dir>, stores it under /verif/seeded/<prop>-<n>/ and runs the
# property's quick check against /repo with the patch applied (undone afterwards).
set -u
export GOFLAGS=-mod=mod GOPROXY=off GOSUMDB=off GOTOOLCHAIN=local
prop=$1; n=$2; out=$3; chk=${4:-$prop}
wt=$(cd "$out/../.." && pwd)
pkgname=$(grep -m1 '^package' "$out/demo_test.go" | awk '{print $2}')
dir=${pkgname%_test}
[ "$dir" = "xml" ] && dir=patch/xml
cd "$wt" || exit 2
git checkout -q -- . ; rm -f $dir/zz_seed_demo_test.go
cp "$out/demo_test.go" $dir/zz_seed_demo_test.go
clean=$(go test -vet=off -count=1 -run 'TestSeeded' ./$dir 2>&1 | tail -1)
git apply "$out/patch.diff" || { echo "PATCH-DOES-NOT-APPLY"; exit 2; }
go build ./... || { echo "DOES-NOT-BUILD"; exit 2; }
seeded=$(go test -vet=off -count=1 -run 'TestSeeded' ./$dir 2>&1 | tail -1)
rm -f $dir/zz_seed_demo_test.go
suite=$(go test -vet=off -count=1 ./... 2>&1 | grep -v "no test files" | grep -vc "^ok")
git checkout -q -- .
echo "demo clean: $clean"; echo "demo seeded: $seeded"; echo "suite non-ok lines with patch: $suite"
case "$clean" in ok*) ;; *) echo "DEMO-FAILS-ON-CLEAN"; exit 2;; esac
case "$seeded" in ok*) echo "DEMO-PASSES-WITH-PATCH"; exit 2;; esac
[ "$suite" = "0" ] || { echo "SUITE-FAILS-WITH-PATCH"; exit 2; }
sd=/verif/seeded/$prop-$n
mkdir -p $sd && cp "$out/patch.diff" "$out/demo_test.go" "$out/meta.json" $sd/
# run our check with the patch applied: on /repo itself (default), or on the scratch worktree when
# SEED_VIA_WORKTREE=1 (lets several seeds be examined while /repo is in use)
if [ "${SEED_VIA_WORKTREE:-0}" = "1" ]; then
  cd "$wt" && git apply "$sd/patch.diff"
  (cd /verif && VP_REPO="$wt" timeout 1800 ./bin/vpcheck $chk quick > $sd/check_output.txt 2>&1; echo "check exit=$? (via worktree)" >> $sd/check_output.txt)
  git -C "$wt" checkout -q -- .
else
  cd /repo && git apply "$sd/patch.diff" || { echo "PATCH-DOES-NOT-APPLY-TO-REPO"; exit 2; }
  (cd /verif && timeout 1800 ./check $chk quick > $sd/check_output.txt 2>&1; echo "check exit=$?" >> $sd/check_output.txt)
  git -C /repo checkout -q -- .
fi
tail -1 $sd/check_output.txt
grep -c "^VIOLATION" $sd/check_output.txt
grep "violated:" $sd/check_output.txt | head -5
