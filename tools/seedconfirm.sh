#!/bin/bash
# usage: tools/seedconfirm.sh [seed-dir-name ...]     (default: every directory under /verif/seeded)
# The prescribed confirmation of a seeded change: apply it to /repo itself, run the property's registered
# quick check from /verif, undo it.  Nothing else may use /repo while this runs.  Writes
# seeded/<id>/confirm.txt (exit code, VIOLATION lines, the violated labels) and restores the evidence file
# of the property afterwards from git (evidence must describe the unchanged tree).
set -u
cd /verif || exit 2
[ -z "$(git -C /repo status --porcelain)" ] || { echo "/repo is not clean"; exit 2; }
seeds=("$@"); [ ${#seeds[@]} -gt 0 ] || seeds=($(ls seeded))
for s in "${seeds[@]}"; do
  d=seeded/$s; prop=${s%%-*}
  [ -f $d/patch.diff ] || continue
  git -C /repo apply "$PWD/$d/patch.diff" || { echo "$s PATCH-DOES-NOT-APPLY" | tee $d/confirm.txt; git -C /repo checkout -q -- .; continue; }
  start=$(date +%s)
  timeout 3600 ./check $prop quick > $d/confirm_output.txt 2>&1; rc=$?
  git -C /repo checkout -q -- .
  git checkout -q -- evidence/$prop.json 2>/dev/null
  {
    echo "procedure: git -C /repo apply seeded/$s/patch.diff; ./check $prop quick; git -C /repo checkout -- ."
    echo "repo HEAD: $(git -C /repo rev-parse --short HEAD)  verif HEAD: $(git rev-parse --short HEAD)  wall: $(( $(date +%s) - start ))s"
    echo "exit: $rc"
    echo "VIOLATION lines: $(grep -c '^VIOLATION' $d/confirm_output.txt)"
    grep "violated:" $d/confirm_output.txt | sed 's/ native=.*//' | sort -u | head -8
    grep "^INCONCLUSIVE\|ENGINE-MISMATCH" $d/confirm_output.txt | head -3
  } > $d/confirm.txt
  rm -f $d/confirm_output.txt
  echo "$s exit=$rc violations=$(grep -c . <(grep 'violated:' $d/confirm.txt))"
done
[ -z "$(git -C /repo status --porcelain)" ] || echo "WARNING: /repo not clean at the end"
