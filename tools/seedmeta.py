#!/usr/bin/env python3
# Merges what was run by the maintainer of /verif into seeded/<id>/meta.json (the sub-agent wrote the rest):
# the result of tools/seedcheck.sh (demonstration fails with / passes without the patch, suite passes with it)
# and of tools/seedconfirm.sh (the registered quick check on /repo with the patch applied).
import json,os,re,glob
for d in sorted(glob.glob('/verif/seeded/*/')):
    mp=os.path.join(d,'meta.json')
    if not os.path.exists(mp): continue
    try: m=json.load(open(mp))
    except Exception as e:
        m={"note":"meta.json of the sub-agent was not valid JSON: "+str(e)}
    c={}
    cf=os.path.join(d,'confirm.txt')
    if os.path.exists(cf):
        t=open(cf).read()
        ex=re.search(r'^exit: (\d+)',t,re.M)
        c={"procedure":t.split('\n')[0].replace('procedure: ',''),
           "exit":int(ex.group(1)) if ex else None,
           "violation_lines":int(re.search(r'VIOLATION lines: (\d+)',t).group(1)) if 'VIOLATION lines' in t else None,
           "violated":[l.strip().replace('violated: ','') for l in t.split('\n') if l.strip().startswith('violated:')][:6],
           "caught": bool(ex and ex.group(1)=='1')}
    m["confirmed_by_verif"]={
        "demonstration":"tools/seedcheck.sh: demo_test.go fails with the patch, passes without it; go build ./... and go test ./... pass with the patch",
        "registered_check":c,
        "patch_rebased": os.path.exists(os.path.join(d,'patch.orig.diff')),
    }
    json.dump(m,open(mp,'w'),indent=1)
print("ok")
